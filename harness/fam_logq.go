package main

import (
	"encoding/json"
	"fmt"
	"math/rand"
	"strconv"
	"strings"
	"time"

	"github.com/tdakkota/docker-logql/internal/dockerlog"
	"github.com/tdakkota/docker-logql/internal/logql/logqlengine"
)

// Log queries over the in-memory storage (C01 selection, C08 streams + limit, C19 filter algebra,
// C06/C07 extraction and rewriting stages).
type famLogq struct{}

func init() { register("logq", famLogq{}) }

// Ints is an int sequence that marshals nil as [] (TLC's JSON reader rejects null).
type Ints []int

func (x Ints) MarshalJSON() ([]byte, error) {
	if x == nil {
		return []byte("[]"), nil
	}
	return json.Marshal([]int(x))
}

// IntsList marshals nil as [].
type IntsList [][]int

func (x IntsList) MarshalJSON() ([]byte, error) {
	if x == nil {
		return []byte("[]"), nil
	}
	return json.Marshal([][]int(x))
}

// ipatIn mirrors spec/Ip.tla: an IPv4 pattern (single address, inclusive range, CIDR prefix).
type ipatIn struct {
	K    string `json:"k"` // addr | range | cidr
	Lo   []int  `json:"lo"`
	Hi   []int  `json:"hi"`
	Bits int    `json:"bits"`
	// Txt: the pattern as it is written in the query when that is not the plain rendering (IPv6 spellings); the
	// specification PARSES the stage's text and compares with k / lo / hi / bits
	Txt string `json:"-"`
}

func (p *ipatIn) text() string {
	if p.Txt != "" {
		return p.Txt
	}
	a := func(x []int) string {
		if len(x) == 8 {
			return ip6Text(x, 0)
		}
		return fmt.Sprintf("%d.%d.%d.%d", x[0], x[1], x[2], x[3])
	}
	switch p.K {
	case "range":
		return a(p.Lo) + "-" + a(p.Hi)
	case "cidr":
		return a(p.Lo) + "/" + strconv.Itoa(p.Bits)
	}
	return a(p.Lo)
}

type predIn struct {
	T     string          `json:"t"` // m | num | dur | bytes | ip | and | or | paren
	Ipat  *ipatIn         `json:"ipat,omitempty"`
	Label Ints            `json:"label"`
	Op    string          `json:"op"`
	Val   Ints            `json:"val"` // m: value bytes; num/dur/bytes: [n, d]
	Lit   Ints            `json:"lit"` // spelling of the literal
	Re    json.RawMessage `json:"re,omitempty"`
	A     *predIn         `json:"a,omitempty"`
	B     *predIn         `json:"b,omitempty"`
}

type selIn struct {
	T   string `json:"t"` // key | idx
	Key Ints   `json:"key"`
	I   int    `json:"i"`
}

type jexprIn struct {
	Label Ints    `json:"label"`
	Path  []selIn `json:"path"`
}

type lexprIn struct {
	Key   Ints `json:"key"`
	Label Ints `json:"label"`
}

type partIn struct {
	T    string `json:"t"` // pattern: lit | cap; template: lit | label | line | upper | fail | lower | trimspace | trunc | replace | alignleft | alignright | default | repeat
	S    Ints   `json:"s"`
	Name Ints   `json:"name"`
	N    int    `json:"n,omitempty"` // trunc / alignleft / alignright / repeat
	B2   Ints   `json:"b,omitempty"` // replace: the replacement
}

type renameIn struct {
	Dst Ints `json:"dst"`
	Src Ints `json:"src"`
}

type tmplIn struct {
	Dst   Ints     `json:"dst"`
	Parts []partIn `json:"parts"`
}

type stageIn struct {
	T      string          `json:"t"` // line | label | logfmt | json | unpack | pattern | regexp | distinct | drop | keep | labelfmt | linefmt | decolorize | raw
	Exprs    []jexprIn   `json:"exprs"`
	Lexprs   []lexprIn   `json:"lexprs"`
	Parts    []partIn    `json:"parts"`
	Renames  []renameIn  `json:"renames"`
	Tmpls    []tmplIn    `json:"tmpls"`
	Matchers []matcherIn `json:"matchers"`
	Op     string          `json:"op"`
	Val    Ints            `json:"val"`
	Re     json.RawMessage `json:"re,omitempty"`
	Pred   *predIn         `json:"pred,omitempty"`
	Label  Ints            `json:"label"`
	Labels IntsList        `json:"labels"`
	Txt    Ints            `json:"txt"` // raw: stage text given verbatim (C06/C07 families)
	IP     bool            `json:"ip"`  // line: the needle is an ip("...") matcher (single address, range or CIDR prefix)
	Ipat   *ipatIn         `json:"ipat,omitempty"` // its IPv4 pattern, when the specification is to interpret it
}

type logqIn struct {
	Recs   []MemRec    `json:"recs"`
	Sel    []matcherIn `json:"sel"`
	Stages []stageIn   `json:"stages"`
	// Queries: optional list of alternative pipelines evaluated on the same data (C19 families); when empty, Stages is used.
	Queries [][]stageIn `json:"queries"`
	Fam     string      `json:"fam"` // C19: "fg" | "pred" (which relations the family of queries must satisfy)
	// Store "docker": the records are the frames of two fake containers (dealt out by turns) read through the Docker storage
	Store string `json:"store,omitempty"`
	Caps    []CapsIn    `json:"caps"`
	Limit   int         `json:"limit"`
	// Unsorted: the storage returns the records in the order given here, not in time order (only with a non-positive limit)
	Unsorted bool       `json:"unsorted"`
	Start   []int       `json:"start"`
	End     []int       `json:"end"`
}

var cmpText = map[string]string{"eq": "==", "neq": "!=", "gt": ">", "gte": ">=", "lt": "<", "lte": "<="}

func quoteLogQL(s string) string { return strconv.Quote(s) }

func (p *predIn) text() string {
	switch p.T {
	case "m":
		return S(p.Label) + opText[p.Op] + quoteLogQL(S(p.Val))
	case "num", "dur", "bytes":
		return S(p.Label) + " " + cmpText[p.Op] + " " + S(p.Lit)
	case "ip":
		return S(p.Label) + " " + map[string]string{"eq": "==", "neq": "!="}[p.Op] + " ip(" + quoteLogQL(S(p.Val)) + ")"
	case "paren":
		return "(" + p.A.text() + ")"
	case "and":
		return p.A.text() + " and " + p.B.text()
	case "or":
		return p.A.text() + " or " + p.B.text()
	}
	panic("bad pred " + p.T)
}

func namesText(ls IntsList) []string {
	out := make([]string, 0, len(ls))
	for _, l := range ls {
		out = append(out, S(l))
	}
	return out
}

func pathText(path []selIn) string {
	var sb strings.Builder
	for i, sel := range path {
		switch {
		case sel.T == "idx":
			sb.WriteString("[" + strconv.Itoa(sel.I) + "]")
		case isIdent(S(sel.Key)):
			if i > 0 {
				sb.WriteString(".")
			}
			sb.WriteString(S(sel.Key))
		default:
			sb.WriteString("[" + jsonQuote(S(sel.Key)) + "]")
		}
	}
	return sb.String()
}

func isIdent(s string) bool {
	if s == "" || (s[0] >= '0' && s[0] <= '9') {
		return false
	}
	for i := 0; i < len(s); i++ {
		c := s[i]
		if !(c == '_' || (c >= '0' && c <= '9') || (c >= 'a' && c <= 'z') || (c >= 'A' && c <= 'Z')) {
			return false
		}
	}
	return true
}

// jsonQuote is the reference string encoding of spec/JsonDoc.tla: only quote and backslash are escaped.
func jsonQuote(s string) string {
	var sb strings.Builder
	sb.WriteByte('"')
	for i := 0; i < len(s); i++ {
		if s[i] == '"' || s[i] == '\\' {
			sb.WriteByte('\\')
		}
		sb.WriteByte(s[i])
	}
	sb.WriteByte('"')
	return sb.String()
}

func tmplText(parts []partIn) string {
	var sb strings.Builder
	for _, p := range parts {
		switch p.T {
		case "lit":
			sb.WriteString(S(p.S))
		case "label":
			sb.WriteString("{{." + S(p.Name) + "}}")
		case "line":
			sb.WriteString("{{__line__}}")
		case "upper":
			sb.WriteString("{{." + S(p.Name) + " | ToUpper}}")
		case "fail":
			sb.WriteString("{{index ." + S(p.Name) + " 99}}")
		case "lower":
			sb.WriteString("{{." + S(p.Name) + " | lower}}")
		case "trimspace":
			sb.WriteString("{{." + S(p.Name) + " | TrimSpace}}")
		case "trunc":
			sb.WriteString(fmt.Sprintf("{{.%s | trunc %d}}", S(p.Name), p.N))
		case "replace":
			sb.WriteString(fmt.Sprintf("{{.%s | replace \"%s\" \"%s\"}}", S(p.Name), S(p.S), S(p.B2)))
		case "alignleft":
			sb.WriteString(fmt.Sprintf("{{alignLeft %d .%s}}", p.N, S(p.Name)))
		case "alignright":
			sb.WriteString(fmt.Sprintf("{{alignRight %d .%s}}", p.N, S(p.Name)))
		case "default":
			sb.WriteString(fmt.Sprintf("{{.%s | default \"%s\"}}", S(p.Name), S(p.S)))
		case "repeat":
			sb.WriteString(fmt.Sprintf("{{.%s | repeat %d}}", S(p.Name), p.N))
		}
	}
	return sb.String()
}

func patText(parts []partIn) string {
	var sb strings.Builder
	for _, p := range parts {
		if p.T == "lit" {
			sb.WriteString(S(p.S))
		} else {
			sb.WriteString("<" + S(p.Name) + ">")
		}
	}
	return sb.String()
}

func (s *stageIn) text() string {
	switch s.T {
	case "json", "logfmt2":
		var items []string
		items = append(items, namesText(s.Labels)...)
		for _, e := range s.Exprs {
			items = append(items, S(e.Label)+"="+quoteLogQL(pathText(e.Path)))
		}
		if len(items) == 0 {
			return "| json"
		}
		return "| json " + strings.Join(items, ", ")
	case "unpack":
		return "| unpack"
	case "pattern":
		return "| pattern " + quoteLogQL(patText(s.Parts))
	case "regexp":
		return "| regexp " + quoteLogQL(S(s.Val))
	case "decolorize":
		return "| decolorize"
	case "linefmt":
		return "| line_format " + quoteLogQL(tmplText(s.Parts))
	case "labelfmt":
		var items []string
		for _, r := range s.Renames {
			items = append(items, S(r.Dst)+"="+S(r.Src))
		}
		for _, t := range s.Tmpls {
			items = append(items, S(t.Dst)+"="+quoteLogQL(tmplText(t.Parts)))
		}
		return "| label_format " + strings.Join(items, ", ")
	case "line":
		op := map[string]string{"eq": "|=", "neq": "!=", "re": "|~", "nre": "!~"}[s.Op]
		if s.IP {
			return op + " ip(" + quoteLogQL(S(s.Val)) + ")"
		}
		return op + " " + quoteLogQL(S(s.Val))
	case "label":
		return "| " + s.Pred.text()
	case "logfmt":
		var items []string
		items = append(items, namesText(s.Labels)...)
		for _, e := range s.Lexprs {
			items = append(items, S(e.Label)+"="+quoteLogQL(S(e.Key)))
		}
		if len(items) == 0 {
			return "| logfmt"
		}
		return "| logfmt " + strings.Join(items, ", ")
	case "distinct":
		if len(s.Labels) > 0 {
			return "| distinct " + strings.Join(namesText(s.Labels), ", ")
		}
		return "| distinct " + S(s.Label)
	case "drop", "keep":
		names := namesText(s.Labels)
		for _, m := range s.Matchers {
			names = append(names, S(m.Label)+opText[m.Op]+quoteLogQL(S(m.Val)))
		}
		return "| " + s.T + " " + strings.Join(names, ", ")
	case "raw":
		return S(s.Txt)
	}
	panic("bad stage " + s.T)
}

func renderLogQuery(sel []matcherIn, stages []stageIn) string {
	parts := []string{renderSelector(sel)}
	for i := range stages {
		parts = append(parts, stages[i].text())
	}
	return strings.Join(parts, " ")
}

func (famLogq) Exec(scn int, raw json.RawMessage, t *Trace, opt map[string]string) error {
	var in logqIn
	if err := json.Unmarshal(raw, &in); err != nil {
		return err
	}
	t.Scenario(scn, raw)
	queries := in.Queries
	if len(queries) == 0 {
		queries = [][]stageIn{in.Stages}
	}
	caps := in.Caps
	if len(caps) == 0 {
		caps = []CapsIn{{Label: []string{}, Line: []string{}}}
	}
	run := 0
	for qi, stages := range queries {
		q := renderLogQuery(in.Sel, stages)
		for _, c := range caps {
			run++
			if c.Label == nil {
				c.Label = []string{}
			}
			if c.Line == nil {
				c.Line = []string{}
			}
			t.Ev(scn, "Run", F{"run": run, "q": qi + 1, "caps": c, "txt": q})
			var store logqlengine.Querier = &MemStore{t: t, scn: scn, recs: in.Recs, caps: c, unsorted: in.Unsorted}
			if in.Store == "docker" {
				ctrs := []FakeCtr{simpleCtr("id1", "n1", []Frame{}), simpleCtr("id2", "n2", []Frame{})}
				for i, rec := range in.Recs {
					ctrs[i%2].Frames = append(ctrs[i%2].Frames, Frame{Typ: 1 + i%2, TS: []int{rec.TS[0], rec.TS[1]}, Msg: rec.Line})
				}
				dq, err := dockerlog.NewQuerier(newFakeDocker(nil, scn, ctrs))
				if err != nil {
					return err
				}
				store = dq
			}
			eng := logqlengine.NewEngine(store, logqlengine.Options{})
			p := logqlengine.EvalParams{Start: tsOf(unixOf(in.Start)), End: tsOf(unixOf(in.End)), Limit: in.Limit}
			r := evalWithWatchdog(eng, q, p, 20*time.Second)
			if r.Err == nil && r.Panic == nil && !r.Hang {
				projectResult(t, scn, r.Data)
			}
			recordOutcome(t, scn, r, nil)
		}
	}
	return nil
}

// ---------------------------------------------------------------------------------------------
// random driver

var lqWords = []string{"a", "ab", "b", "ba", "abc", "x", "", "a b", "err", "warn", "a=b"}
var lqNums = []string{"0", "1", "5", "5.5", "10", "42", "007", "3.14", "100", "010", "0100", "00120"} // zero-padded: decimal all the same
// label VALUES the three parsers meet in the data (a wider set of spellings than the literals written in queries)
var lqNumVals = append([]string{"1e3", "+5", ".5", "5.", "2.5e-1", "1E2", "-0.5", "1e", "0x10", "1_0", "inf", "5e-1"}, lqNums...)
var lqDurVals = append([]string{"1.5h", "-5s", "100us", "1000ns", ".5s", "1.5ns", "+2s", "1h1m1s", "0.5m"}, lqDurs...)
var lqByteVals = append([]string{"1.5KB", "0.5KiB", "2.5MB", "1.1KB", "0B", "1.25KiB"}, lqBytes...)
var lqDurs = []string{"1s", "500ms", "2s", "1m", "1m30s", "1.5s", "1h", "90s"}
var lqBytes = []string{"1B", "5B", "1KB", "1KiB", "2kb", "1MB", "999B", "10b", "1MiB"} // always with a unit: a bare number is a number literal
var lqGarbage = []string{"x", "abc", "zz9", "", "q1"}
var lqKeys = []string{"k", "v", "lvl", "n", "d", "sz"}

func pick(r *rand.Rand, xs []string) string { return xs[r.Intn(len(xs))] }

func ratOfDecimal(s string) []int {
	// exact rational of a plain decimal spelling
	neg := strings.HasPrefix(s, "-")
	s = strings.TrimPrefix(s, "-")
	ip, fp, _ := strings.Cut(s, ".")
	n, _ := strconv.Atoi(ip + fp)
	d := 1
	for range fp {
		d *= 10
	}
	if neg {
		n = -n
	}
	return []int{n, d}
}

func ratOfDur(s string) []int {
	d, err := time.ParseDuration(s)
	if err != nil {
		panic(err)
	}
	return []int{int(d / time.Millisecond), 1000}
}

func ratOfBytes(s string) []int {
	mult := map[string]int{"": 1, "b": 1, "kb": 1000, "kib": 1024, "mb": 1000000, "mib": 1048576}
	i := 0
	for i < len(s) && s[i] >= '0' && s[i] <= '9' {
		i++
	}
	n, _ := strconv.Atoi(s[:i])
	return []int{n * mult[strings.ToLower(s[i:])], 1}
}

func genAtom(r *rand.Rand) *predIn {
	key := pick(r, lqKeys)
	if r.Intn(8) == 0 {
		key = "nolabel"
	}
	switch r.Intn(5) {
	case 0, 1:
		p := &predIn{T: "m", Label: B(key), Op: []string{"eq", "neq", "re", "nre"}[r.Intn(4)]}
		if p.Op == "eq" || p.Op == "neq" {
			p.Val = B(pick(r, append(lqWords, lqNums...)))
			p.Re, _ = json.Marshal(&ReAST{T: "eps"})
		} else {
			re := genReA(r, 2, "abx1 .=")
			p.Val = B(re.Text())
			p.Re, _ = json.Marshal(re)
		}
		return p
	case 2:
		lit := pick(r, lqNums)
		return &predIn{T: "num", Label: B(key), Op: []string{"eq", "neq", "gt", "gte", "lt", "lte"}[r.Intn(6)], Lit: B(lit), Val: ratOfDecimal(lit)}
	case 3:
		lit := pick(r, lqDurs)
		return &predIn{T: "dur", Label: B(key), Op: []string{"eq", "neq", "gt", "gte", "lt", "lte"}[r.Intn(6)], Lit: B(lit), Val: ratOfDur(lit)}
	default:
		lit := pick(r, lqBytes)
		return &predIn{T: "bytes", Label: B(key), Op: []string{"eq", "neq", "gt", "gte", "lt", "lte"}[r.Intn(6)], Lit: B(lit), Val: ratOfBytes(lit)}
	}
}

func genPred(r *rand.Rand, depth int) *predIn {
	if depth <= 0 || r.Intn(2) == 0 {
		return genAtom(r)
	}
	op := []string{"and", "or"}[r.Intn(2)]
	left := genPred(r, depth-1)
	if left.T == "and" || left.T == "or" {
		left = &predIn{T: "paren", A: left}
	}
	right := genPred(r, depth-1)
	if (right.T == "and" || right.T == "or") && right.T != op {
		right = &predIn{T: "paren", A: right}
	}
	return &predIn{T: op, A: left, B: right}
}

func genLineFilter(r *rand.Rand) stageIn {
	st := stageIn{T: "line", Op: []string{"eq", "neq", "re", "nre"}[r.Intn(4)]}
	if st.Op == "eq" || st.Op == "neq" {
		st.Val = B(pick(r, lqWords))
		if r.Intn(6) == 0 {
			st.Val = Ints{r.Intn(256), r.Intn(256)}
		}
		st.Re, _ = json.Marshal(&ReAST{T: "eps"})
	} else {
		re := genReA(r, 3, "abx=1 .")
		if r.Intn(4) == 0 {
			// a plain word anchored on both sides / on one side: it matches the line that IS the word, not the lines holding it
			w := pick(r, []string{"a", "ab", "b", "err", "err", "x", "a", "b"})
			var node *ReAST = &ReAST{T: "eps"}
			for i := len(w) - 1; i >= 0; i-- {
				node = &ReAST{T: "cat", A: &ReAST{T: "lit", C: int(w[i])}, B: node}
			}
			switch r.Intn(4) {
			case 0:
				re = &ReAST{T: "cat", A: &ReAST{T: "bol"}, B: node}
			case 1:
				re = &ReAST{T: "cat", A: node, B: &ReAST{T: "eol"}}
			default:
				re = &ReAST{T: "cat", A: &ReAST{T: "bol"}, B: &ReAST{T: "cat", A: node, B: &ReAST{T: "eol"}}}
			}
		}
		st.Val = B(re.Text())
		st.Re, _ = json.Marshal(re)
	}
	return st
}

func genStage(r *rand.Rand, allowStateful bool) stageIn {
	if r.Intn(14) == 0 {
		// regexp: named groups become labels (k collides with a logfmt key on purpose); the line is untouched
		names := []string{"k", "grp"}[:1+r.Intn(2)]
		if r.Intn(3) == 0 {
			names = []string{"app"} // the name of an attribute: the capture overrides it for THIS record only
		}
		var re *ReAST
		for {
			left := append([]string{}, names...)
			re = genCapRe(r, 2, "abk= ", &left)
			if len(left) < len(names) {
				break
			}
		}
		raw, _ := json.Marshal(re)
		return stageIn{T: "regexp", Val: B(re.Text()), Re: raw}
	}
	switch k := r.Intn(10); {
	case k < 4:
		return genLineFilter(r)
	case k < 7:
		return stageIn{T: "label", Pred: genPred(r, 2)}
	case k < 8:
		if r.Intn(3) == 0 {
			// only the listed keys (a key that comes twice in a line still yields its last value, keys behind it still count)
			return stageIn{T: "logfmt", Labels: IntsList{B(pick(r, lqKeys)), B(pick(r, lqKeys))}[:1+r.Intn(2)]}
		}
		return stageIn{T: "logfmt"}
	case k < 9 && allowStateful:
		if r.Intn(2) == 0 {
			// several labels: walked in order, each with its own memory
			ls := IntsList{}
			used := map[string]bool{}
			for k := 2 + r.Intn(2); k > 0; k-- {
				nm := pick(r, append(lqKeys, "app"))
				if !used[nm] {
					used[nm] = true
					ls = append(ls, B(nm))
				}
			}
			return stageIn{T: "distinct", Label: ls[0], Labels: ls}
		}
		return stageIn{T: "distinct", Label: B(pick(r, lqKeys))}
	default:
		n := 1 + r.Intn(2)
		var ls IntsList
		for i := 0; i < n; i++ {
			ls = append(ls, B(pick(r, append(lqKeys, "msg"))))
		}
		return stageIn{T: []string{"drop", "keep"}[r.Intn(2)], Labels: ls}
	}
}

func genRecs(r *rand.Rand, n int, uniqueTS bool) []MemRec {
	recs := make([]MemRec, 0, n)
	sec := 1700000000
	for i := 0; i < n; i++ {
		if uniqueTS {
			sec += 1 + r.Intn(3)
		} else {
			sec += r.Intn(2)
		}
		rec := MemRec{ID: i + 1, TS: []int{sec, 0}, Attrs: [][2][]int{}, Doc: [][2][]int{}}
		// the line is a logfmt document over a few keys (so that `| logfmt` has a ground truth), or free text
		if r.Intn(3) != 0 {
			nk := 1 + r.Intn(3)
			used := map[string]bool{}
			var parts []string
			for k := 0; k < nk; k++ {
				key := pick(r, lqKeys)
				if used[key] && r.Intn(3) != 0 { // one time in three a key comes twice: the later value is the label
					continue
				}
				used[key] = true
				var val string
				switch r.Intn(5) {
				case 0:
					val = pick(r, lqNumVals)
				case 1:
					val = pick(r, lqDurVals)
				case 2:
					val = pick(r, lqByteVals)
				case 3:
					val = pick(r, lqGarbage)
				default:
					val = pick(r, []string{"a", "ab", "b", "x", "err"})
				}
				if val == "" {
					val = "e"
				}
				rec.Doc = append(rec.Doc, [2][]int{B(key), B(val)})
				parts = append(parts, key+"="+val)
			}
			rec.Line = B(strings.Join(parts, " "))
		} else {
			w := pick(r, lqWords)
			if r.Intn(4) == 0 {
				w = string([]byte{byte(r.Intn(256)), 'a', byte(r.Intn(256))})
			}
			// free text must not look like logfmt pairs: the document is empty only if the line has no '='
			w = strings.ReplaceAll(w, "=", ":")
			rec.Line = B(w)
		}
		if r.Intn(2) == 0 {
			rec.Attrs = append(rec.Attrs, [2][]int{B("app"), B(pick(r, []string{"a", "b", "web"}))})
		}
		if r.Intn(4) == 0 {
			rec.Attrs = append(rec.Attrs, [2][]int{B("n"), B(pick(r, lqNumVals))})
		}
		recs = append(recs, rec)
	}
	return recs
}

var allOps = []string{"eq", "neq", "re", "nre"}

// withTwins follows some records by a twin: the same instant, the same line, other attributes.  Two entries that a
// stage makes equal (drop, keep, a rename) are still two entries.
func withTwins(r *rand.Rand, recs []MemRec) []MemRec {
	out := make([]MemRec, 0, len(recs)+4)
	for _, rec := range recs {
		out = append(out, rec)
		for r.Intn(3) == 0 {
			tw := rec
			tw.Attrs = append([][2][]int{}, rec.Attrs...)
			switch r.Intn(3) {
			case 0:
				tw.Attrs = append(tw.Attrs, [2][]int{B("twin"), B(pick(r, []string{"1", "2"}))})
			case 1:
				if len(tw.Attrs) > 0 {
					tw.Attrs = tw.Attrs[1:]
				} else {
					tw.Attrs = append(tw.Attrs, [2][]int{B("app"), B("web")})
				}
			} // default: an exact twin
			out = append(out, tw)
		}
	}
	for i := range out {
		out[i].ID = i + 1
	}
	return out
}

func randSubset(r *rand.Rand) []string {
	out := []string{}
	for _, o := range allOps {
		if r.Intn(2) == 0 {
			out = append(out, o)
		}
	}
	return out
}

func genLogq(r *rand.Rand, mode string) logqIn {
	in := logqIn{Sel: []matcherIn{}, Stages: []stageIn{}, Queries: [][]stageIn{}, Limit: -1,
		Start: []int{1699999000, 0}, End: []int{1700009000, 0}}
	n := r.Intn(12)
	if r.Intn(8) == 0 {
		n = r.Intn(60)
	}
	in.Recs = genRecs(r, n, true)
	if mode == "select" && r.Intn(5) == 0 {
		in.Recs = withTwins(r, in.Recs)
	}
	if mode == "select" && len(in.Recs) > 1 && r.Intn(6) == 0 {
		// a regexp stage whose group is named like an attribute all records share (ONE map in the store): the capture counts
		// for the record it was made on; the next record, on which the expression finds nothing, shows the attribute again
		for i := range in.Recs {
			in.Recs[i].Attrs = [][2][]int{{B("app"), B("web")}}
			if i%2 == 0 {
				in.Recs[i].Line, in.Recs[i].Doc = B(pick(r, []string{"ab=1", "a=b", "ba k=a", "aab="})), [][2][]int{}
			} else {
				in.Recs[i].Line, in.Recs[i].Doc = B(pick(r, []string{"x", "", "zz9"})), [][2][]int{}
			}
		}
		var re *ReAST
		for {
			left := []string{"app"}
			re = genCapRe(r, 2, "abk= ", &left)
			if len(left) == 0 {
				break
			}
		}
		raw, _ := json.Marshal(re)
		in.Stages = []stageIn{{T: "regexp", Val: B(re.Text()), Re: raw}}
		if r.Intn(2) == 0 {
			eps, _ := json.Marshal(&ReAST{T: "eps"})
			in.Stages = append(in.Stages, stageIn{T: "label", Pred: &predIn{T: "m", Label: B("app"), Op: allOps[r.Intn(2)], Val: B("web"), Re: eps}})
		}
	} else if mode == "select" && len(in.Recs) > 0 && r.Intn(10) == 0 {
		// a regular expression that is a plain piece of some record's line, anchored: it matches the line that IS that piece
		line := S(in.Recs[r.Intn(len(in.Recs))].Line)
		if len(line) >= 2 {
			a := r.Intn(len(line) - 1)
			w := line[a : a+1+r.Intn(len(line)-a-1)]
			ok := w != ""
			for i := 0; i < len(w); i++ {
				ok = ok && (w[i] >= 'a' && w[i] <= 'z' || w[i] >= '0' && w[i] <= '9' || w[i] == '=' || w[i] == ' ')
			}
			if ok {
				var node *ReAST = &ReAST{T: "eps"}
				for i := len(w) - 1; i >= 0; i-- {
					node = &ReAST{T: "cat", A: &ReAST{T: "lit", C: int(w[i])}, B: node}
				}
				re := &ReAST{T: "cat", A: &ReAST{T: "bol"}, B: &ReAST{T: "cat", A: node, B: &ReAST{T: "eol"}}}
				if k := r.Intn(4); k == 0 {
					re = &ReAST{T: "cat", A: &ReAST{T: "bol"}, B: node}
				} else if k == 1 {
					re = &ReAST{T: "cat", A: node, B: &ReAST{T: "eol"}}
				}
				raw, _ := json.Marshal(re)
				in.Stages = append([]stageIn{{T: "line", Op: []string{"re", "nre"}[r.Intn(2)], Val: B(re.Text()), Re: raw}}, in.Stages...)
			}
		}
	}
	if mode == "select" && r.Intn(4) == 0 {
		// everything else a record may carry: scope and resource attributes (overriding the record's own and each other, also
		// msg and level), trace / span ids, a severity, attribute values that are integers, doubles or booleans
		for i := range in.Recs {
			rec := &in.Recs[i]
			if r.Intn(2) == 0 {
				rec.Scope = [][2][]int{{B(pick(r, []string{"app", "lib", "n", "msg"})), B(pick(r, []string{"s", "web", "7"}))}}
			}
			if r.Intn(2) == 0 {
				rec.Res = [][2][]int{{B(pick(r, []string{"app", "host.name", "level", "lib", "trace_id"})), B(pick(r, []string{"r", "web", "a"}))}}
			}
			if r.Intn(3) == 0 {
				rec.Trace = make([]int, 16)
				if r.Intn(4) != 0 {
					for k := range rec.Trace {
						rec.Trace[k] = []int{0, 1, 0xab, 0xff, 0x0a}[r.Intn(5)]
					}
				}
			}
			if r.Intn(3) == 0 {
				rec.Span = make([]int, 8)
				for k := range rec.Span {
					rec.Span[k] = []int{0, 0, 0x10, 0xfe}[r.Intn(4)]
				}
			}
			if r.Intn(3) == 0 {
				rec.Sev = r.Intn(25)
			}
			if r.Intn(2) == 0 {
				switch r.Intn(3) {
				case 0:
					rec.Typed = []typedAttr{{K: B("cnt"), T: "int", V: B(pick(r, []string{"5", "-3", "0", "10", "1000000"}))}}
				case 1:
					rec.Typed = []typedAttr{{K: B("cnt"), T: "dbl", V: B(pick(r, []string{"2.5", "0.5", "5", "-0.25", "10"}))}}
				default:
					rec.Typed = []typedAttr{{K: B("ok"), T: "bool", V: B(pick(r, []string{"true", "false"}))}}
				}
			}
		}
		// filters on what those layers produce
		eps, _ := json.Marshal(&ReAST{T: "eps"})
		switch r.Intn(6) {
		case 0, 4, 5:
			lit := pick(r, []string{"5", "2.5", "0", "10"})
			in.Stages = append(in.Stages, stageIn{T: "label", Pred: &predIn{T: "num", Label: B("cnt"), Op: []string{"eq", "neq", "gt", "gte", "lt", "lte"}[r.Intn(6)], Lit: B(lit), Val: ratOfDecimal(lit)}})
		case 1:
			in.Stages = append(in.Stages, stageIn{T: "label", Pred: &predIn{T: "m", Label: B(pick(r, []string{"app", "level", "lib", "ok", "cnt", "host_name"})), Op: allOps[r.Intn(2)], Val: B(pick(r, []string{"r", "web", "Info", "Error2", "true", "5", "s"})), Re: eps}})
		case 2:
			in.Stages = append(in.Stages, stageIn{T: "label", Pred: &predIn{T: "m", Label: B(pick(r, []string{"trace_id", "span_id"})), Op: allOps[r.Intn(2)], Val: B(pick(r, []string{"", "00000000000000000000000000000000", "0000000000000000", "abababababababababababababababab"})), Re: eps}})
		case 3:
			in.Sel = append(in.Sel, matcherIn{Label: B(pick(r, []string{"app", "level", "lib", "msg"})), Op: allOps[r.Intn(2)], Val: B(pick(r, []string{"r", "web", "s", "Warn"})), Re: eps})
		}
	}
	// 0-3 selector matchers; several on one label with the same operator are a conjunction, not a repetition
	nm := []int{0, 0, 0, 0, 1, 1, 1, 2, 2, 3}[r.Intn(10)]
	for k := 0; k < nm; k++ {
		m := matcherIn{Label: B("app"), Op: allOps[r.Intn(4)]}
		if k > 0 && r.Intn(2) == 0 {
			m.Op = in.Sel[k-1].Op
		}
		if r.Intn(5) == 0 {
			m.Label = B("n")
		}
		if m.Op == "eq" || m.Op == "neq" {
			m.Val = B(pick(r, []string{"a", "b", "web", ""}))
			if S(m.Label) == "n" {
				m.Val = B(pick(r, []string{"5", "10", ""}))
			}
			m.Re, _ = json.Marshal(&ReAST{T: "eps"})
		} else {
			re := genReA(r, 2, "abwe")
			m.Val = B(re.Text())
			m.Re, _ = json.Marshal(re)
		}
		in.Sel = append(in.Sel, m)
	}
	ns := r.Intn(5)
	for i := 0; i < ns; i++ {
		st := genStage(r, true)
		// "| drop a != \"x\"" is a drop with a value matcher, not a drop followed by a line filter: never generate that text
		if k := len(in.Stages); k > 0 && (in.Stages[k-1].T == "drop" || in.Stages[k-1].T == "keep") && st.T == "line" && (st.Op == "neq" || st.Op == "nre") {
			st.Op = map[string]string{"neq": "eq", "nre": "re"}[st.Op]
		}
		in.Stages = append(in.Stages, st)
	}
	in.Caps = []CapsIn{{Label: []string{}, Line: []string{}}, {Label: allOps, Line: allOps}, {Label: randSubset(r), Line: randSubset(r)}}
	if mode == "select" && r.Intn(12) == 0 {
		// logfmt with a field list over lines in which a requested key comes twice (its last value is the label) and
		// requested keys also stand behind the repetition
		eps, _ := json.Marshal(&ReAST{T: "eps"})
		for i := range in.Recs {
			var doc [][2][]int
			var parts []string
			for k := 2 + r.Intn(3); k > 0; k-- {
				key, val := pick(r, []string{"k", "k", "n", "lvl"}), pick(r, []string{"a", "b", "1", "2"})
				doc = append(doc, [2][]int{B(key), B(val)})
				parts = append(parts, key+"="+val)
			}
			in.Recs[i].Line, in.Recs[i].Doc = B(strings.Join(parts, " ")), doc
		}
		want := IntsList{B("k"), B("n"), B("lvl")}[:1+r.Intn(3)]
		in.Stages = []stageIn{{T: "logfmt", Labels: want}}
		if r.Intn(2) == 0 {
			in.Stages = append(in.Stages, stageIn{T: "label", Pred: &predIn{T: "m", Label: B(pick(r, []string{"k", "n", "lvl"})), Op: []string{"eq", "neq"}[r.Intn(2)], Val: B(pick(r, []string{"a", "b", "1", ""})), Re: eps}})
		}
	} else if mode == "select" && r.Intn(12) == 0 {
		// one regular expression text used in a selector matcher (anchored), a line filter (unanchored) and a label filter (anchored)
		re := genRe(r, 2, "abwe")
		raw, _ := json.Marshal(re)
		txt := B(re.Text())
		in.Sel = []matcherIn{{Label: B("app"), Op: []string{"re", "nre"}[r.Intn(2)], Val: txt, Re: raw}}
		in.Stages = []stageIn{{T: "line", Op: []string{"re", "nre"}[r.Intn(2)], Val: txt, Re: raw}}
		if r.Intn(2) == 0 {
			in.Stages = append(in.Stages, stageIn{T: "label", Pred: &predIn{T: "m", Label: B("app"), Op: []string{"re", "nre"}[r.Intn(2)], Val: txt, Re: raw}})
		}
		if r.Intn(2) == 0 {
			in.Stages[0], in.Stages[len(in.Stages)-1] = in.Stages[len(in.Stages)-1], in.Stages[0]
		}
		for i := range in.Recs {
			in.Recs[i].Line, in.Recs[i].Doc = B(pick(r, []string{"a", "b", "web", "xaby", "we", "", "aa", "b a"})), [][2][]int{}
		}
	} else if mode == "select" && r.Intn(8) == 0 {
		if r.Intn(2) == 0 {
			genIP6Case(r, &in)
		} else {
			genIPCase(r, &in)
		}
	} else if mode == "select" && r.Intn(10) == 0 {
		// the same value several records in a row (a filter must judge each record on its own), unparsable ones included
		kind := []string{"num", "dur", "bytes"}[r.Intn(3)]
		pool := map[string][]string{"num": {"5", "x5", "10", "1e3", "abc", ""}, "dur": {"1s", "1x", "90s", "abc", "2m"}, "bytes": {"1KB", "12xb", "5B", "abc", "2KiB"}}[kind]
		v := pick(r, pool)
		for i := range in.Recs {
			if r.Intn(3) == 0 {
				v = pick(r, pool)
			}
			in.Recs[i].Line, in.Recs[i].Doc = B("n="+v), [][2][]int{{B("n"), B(v)}}
			if v == "" {
				in.Recs[i].Line = B("n=\"\"")
			}
		}
		var p *predIn
		switch kind {
		case "num":
			lit := pick(r, []string{"5", "10", "100"})
			p = &predIn{T: "num", Label: B("n"), Lit: B(lit), Val: ratOfDecimal(lit)}
		case "dur":
			lit := pick(r, []string{"1s", "90s", "1m"})
			p = &predIn{T: "dur", Label: B("n"), Lit: B(lit), Val: ratOfDur(lit)}
		default:
			lit := pick(r, []string{"1KB", "5B", "1KiB"})
			p = &predIn{T: "bytes", Label: B("n"), Lit: B(lit), Val: ratOfBytes(lit)}
		}
		p.Op = []string{"eq", "neq", "gt", "gte", "lt", "lte"}[r.Intn(6)]
		in.Stages = []stageIn{{T: "logfmt"}, {T: "label", Pred: p}}
	} else if mode == "select" && r.Intn(10) == 0 {
		// zero-padded numbers in label values against thresholds that tell decimal from octal reading
		for i := range in.Recs {
			v := pick(r, []string{"010", "0100", "00120", "08", "10", "017", "0", "00"})
			in.Recs[i].Line, in.Recs[i].Doc = B("n="+v), [][2][]int{{B("n"), B(v)}}
		}
		lit := pick(r, []string{"9", "10", "64", "100", "8", "80", "120", "15", "17"})
		in.Stages = []stageIn{{T: "logfmt"}, {T: "label", Pred: &predIn{T: "num", Label: B("n"), Op: []string{"eq", "neq", "gt", "gte", "lt", "lte"}[r.Intn(6)], Lit: B(lit), Val: ratOfDecimal(lit)}}}
		if r.Intn(2) == 0 {
			in.Stages = in.Stages[1:]
			for i := range in.Recs {
				in.Recs[i].Attrs = [][2][]int{{B("n"), in.Recs[i].Doc[0][1]}}
			}
		}
	}
	if mode == "limit" {
		in.Recs = genRecs(r, n, r.Intn(2) == 0)
		// label values that collide in an unquoted / unsorted stream key
		tricky := [][2]string{{"x", "a"}, {"y", "b"}, {"x", "a\",y=\"b"}, {"x", "a\\"}, {"x", ""}, {"y", "a"}, {"x", "a,y=b"}, {"x", "{"}, {"z", "\xff"}}
		for i := range in.Recs {
			if r.Intn(2) == 0 {
				in.Recs[i].Line = B("m")
				in.Recs[i].Doc = [][2][]int{}
			}
			in.Recs[i].Attrs = [][2][]int{}
			used := map[string]bool{}
			for k := r.Intn(3); k > 0; k-- {
				kv := tricky[r.Intn(len(tricky))]
				if !used[kv[0]] {
					used[kv[0]] = true
					in.Recs[i].Attrs = append(in.Recs[i].Attrs, [2][]int{B(kv[0]), B(kv[1])})
				}
			}
		}
		in.Sel = []matcherIn{}
		in.Stages = []stageIn{}
		switch r.Intn(5) {
		case 0:
			in.Stages = append(in.Stages, stageIn{T: "drop", Labels: IntsList{B("msg")}})
		case 1:
			in.Stages = append(in.Stages, stageIn{T: "keep", Labels: IntsList{B("x")}})
		case 2:
			in.Stages = append(in.Stages, stageIn{T: "drop", Labels: IntsList{B("y"), B("msg")}})
		case 3:
			in.Stages = append(in.Stages, stageIn{T: "logfmt"}, stageIn{T: "drop", Labels: IntsList{B("msg")}})
		case 4:
			if r.Intn(2) == 0 {
				// a template that rewrites a label from its own value: every record starts from ITS attributes, not from what
				// the stage made of the previous record's
				in.Stages = append(in.Stages, stageIn{T: "labelfmt", Tmpls: []tmplIn{{Dst: B("x"), Parts: []partIn{{T: "label", Name: B("x")}, {T: "lit", S: B("!")}}}}},
					stageIn{T: "drop", Labels: IntsList{B("msg")}})
			}
		}
		if r.Intn(3) == 0 {
			// a filter that rejects some records in between: what a rejected record carried (its labels, its count
			// towards the limit) must not reach the entries around it
			eps, _ := json.Marshal(&ReAST{T: "eps"})
			flt := []stageIn{
				{T: "label", Pred: &predIn{T: "m", Label: B("x"), Op: "eq", Val: B("a"), Re: eps}},
				{T: "label", Pred: &predIn{T: "m", Label: B("y"), Op: "neq", Val: B("b"), Re: eps}},
				{T: "label", Pred: &predIn{T: "m", Label: B("x"), Op: "neq", Val: B(""), Re: eps}},
				{T: "line", Op: "eq", Val: B("m"), Re: eps},
				{T: "line", Op: "neq", Val: B("="), Re: eps},
			}[r.Intn(5)]
			in.Stages = append([]stageIn{flt}, in.Stages...)
			if len(in.Stages) > 1 && (in.Stages[1].T == "drop" || in.Stages[1].T == "keep") && r.Intn(2) == 0 && flt.T == "label" {
				in.Stages[0], in.Stages[1] = in.Stages[1], in.Stages[0]
				if in.Stages[0].T == "keep" { // keep x | <filter on y> would see no y: leave the filter first
					in.Stages[0], in.Stages[1] = in.Stages[1], in.Stages[0]
				}
			}
		}
		in.Limit = []int{-1, 0, 1, 2, 3, n - 1, n, n + 1, 5}[r.Intn(9)]
		in.Caps = in.Caps[:1+r.Intn(2)]
		if r.Intn(5) == 0 && len(in.Recs) > 1 {
			// a storage that does not deliver in time order (a container's own log need not be ordered): every stream of the
			// result is ordered all the same; all records are asked for
			in.Unsorted = true
			in.Limit = []int{-1, 0}[r.Intn(2)]
			if len(in.Recs) >= 3 && r.Intn(3) == 0 {
				// one stream, a filter that rejects exactly one record, and that record - an early one - delivered right
				// behind a later one: the only record out of place is one the result does not contain
				eps, _ := json.Marshal(&ReAST{T: "eps"})
				for i := range in.Recs {
					in.Recs[i].Line, in.Recs[i].Doc, in.Recs[i].Attrs = B("m"), [][2][]int{}, [][2][]int{{B("x"), B("a")}}
				}
				j := r.Intn(len(in.Recs) - 2)
				in.Recs[j].Line = B("z")
				in.Recs[j], in.Recs[j+1], in.Recs[j+2] = in.Recs[j+2], in.Recs[j], in.Recs[j+1]
				in.Stages = []stageIn{{T: "line", Op: "eq", Val: B("m"), Re: eps}, {T: "drop", Labels: IntsList{B("msg")}}}
			} else if r.Intn(2) == 0 || len(in.Recs) < 3 {
				r.Shuffle(len(in.Recs), func(a, b int) { in.Recs[a], in.Recs[b] = in.Recs[b], in.Recs[a] })
			} else {
				// almost ordered: a few triples (a, b, c) come as (c, a, b) - a late record right behind a peak, the next one later again
				for k := 1 + r.Intn(3); k > 0; k-- {
					i := r.Intn(len(in.Recs) - 2)
					in.Recs[i], in.Recs[i+1], in.Recs[i+2] = in.Recs[i+2], in.Recs[i], in.Recs[i+1]
				}
			}
		}
	}
	_ = fmt.Sprint
	return in
}

func (famLogq) Gen(r *rand.Rand, n int, opt map[string]string) []any {
	out := make([]any, 0, n)
	for i := 0; i < n; i++ {
		if opt["mode"] == "algebra" {
			out = append(out, genAlgebra(r))
		} else if opt["mode"] == "extract" {
			out = append(out, genExtract(r))
		} else if opt["mode"] == "rewrite" {
			out = append(out, genRewrite(r))
		} else {
			out = append(out, genLogq(r, opt["mode"]))
		}
	}
	return out
}

// arbitrary valid Go regular expressions (well outside the algebra the specification can interpret)
var wildRegexes = []string{`\d+`, `^a`, `b$`, `(?i)A`, `a{2,3}`, `\bk\b`, `[[:alpha:]]+=`, `.*`, `^$`, `(a|b)+c?`, `[^=]+=[^ ]+`, `\x61`, `(?s).`, `\S+\s\S+`,
	`k=(a|b)`, `^ab$`, `^a$`, `^(?:abc)$`, `^err$`, `^a b$`, `\pL`, `[\x00-\x1f]`, `a*?b`, `(?:)`, `=\d`, `^.{0,3}$`, `\.`, `e(rr)?`, `(?m)^x`, `.*?a`, `a\.*`, `.*a.*`, `.*`}

func negOp(op string) string {
	return map[string]string{"eq": "neq", "neq": "eq", "re": "nre", "nre": "re"}[op]
}

func genFilterStage(r *rand.Rand) stageIn {
	eps, _ := json.Marshal(&ReAST{T: "eps"})
	if r.Intn(2) == 0 {
		st := stageIn{T: "line", Op: allOps[r.Intn(4)], Re: eps}
		if st.Op == "eq" || st.Op == "neq" {
			n := r.Intn(4)
			v := make(Ints, n)
			for i := range v {
				if r.Intn(3) == 0 {
					v[i] = r.Intn(256)
				} else {
					v[i] = int("ab=k 17e"[r.Intn(8)])
				}
			}
			st.Val = v
		} else {
			st.Val = B(pick(r, wildRegexes))
		}
		return st
	}
	p := &predIn{T: "m", Label: B(pick(r, append(lqKeys, "app", "msg", "nolabel"))), Op: allOps[r.Intn(4)], Re: eps}
	if p.Op == "eq" || p.Op == "neq" {
		p.Val = B(pick(r, append(lqWords, lqNums...)))
	} else {
		p.Val = B(pick(r, wildRegexes))
	}
	return stageIn{T: "label", Pred: p}
}

var ipPats = []ipatIn{
	{K: "addr", Lo: []int{10, 0, 0, 1}, Hi: []int{10, 0, 0, 1}, Bits: 32}, {K: "addr", Lo: []int{10, 0, 0, 9}, Hi: []int{10, 0, 0, 9}, Bits: 32},
	{K: "addr", Lo: []int{255, 255, 255, 255}, Hi: []int{255, 255, 255, 255}, Bits: 32},
	{K: "range", Lo: []int{10, 0, 0, 1}, Hi: []int{10, 0, 0, 3}}, {K: "range", Lo: []int{10, 0, 0, 9}, Hi: []int{10, 0, 1, 0}},
	{K: "range", Lo: []int{0, 0, 0, 0}, Hi: []int{9, 255, 255, 255}}, {K: "range", Lo: []int{10, 0, 0, 2}, Hi: []int{10, 0, 0, 2}},
	{K: "cidr", Lo: []int{10, 0, 0, 0}, Hi: []int{10, 0, 0, 0}, Bits: 8}, {K: "cidr", Lo: []int{10, 0, 0, 5}, Hi: []int{10, 0, 0, 5}, Bits: 30},
	{K: "cidr", Lo: []int{10, 0, 0, 0}, Hi: []int{10, 0, 0, 0}, Bits: 31}, {K: "cidr", Lo: []int{0, 0, 0, 0}, Hi: []int{0, 0, 0, 0}, Bits: 0},
	{K: "cidr", Lo: []int{10, 0, 0, 1}, Hi: []int{10, 0, 0, 1}, Bits: 32}, {K: "cidr", Lo: []int{192, 168, 0, 0}, Hi: []int{192, 168, 0, 0}, Bits: 16},
	{K: "cidr", Lo: []int{10, 0, 0, 0}, Hi: []int{10, 0, 0, 0}, Bits: 7}, {K: "cidr", Lo: []int{10, 0, 0, 8}, Hi: []int{10, 0, 0, 8}, Bits: 29},
	{K: "cidr", Lo: []int{10, 0, 1, 0}, Hi: []int{10, 0, 1, 0}, Bits: 23},
}

// ip6Text spells an IPv6 address (8 groups): 0 compressed at the first run of zero groups, lower case; 1 all eight groups;
// 2 all eight groups padded to four digits; 3 compressed, upper case; 4 all eight groups, upper case.
func ip6Text(x []int, style int) string {
	g := make([]string, 8)
	for i, v := range x {
		switch style {
		case 2:
			g[i] = fmt.Sprintf("%04x", v)
		case 3, 4:
			g[i] = fmt.Sprintf("%X", v)
		default:
			g[i] = fmt.Sprintf("%x", v)
		}
	}
	if style == 0 || style == 3 {
		for i := 0; i < 8; i++ {
			if x[i] == 0 {
				j := i
				for j+1 < 8 && x[j+1] == 0 {
					j++
				}
				return strings.Join(g[:i], ":") + "::" + strings.Join(g[j+1:], ":")
			}
		}
	}
	return strings.Join(g, ":")
}

var ip6Addrs = [][]int{{0, 0, 0, 0, 0, 0, 0, 1}, {0x2001, 0xdb8, 0, 0, 0, 0, 0, 1}, {0x2001, 0xdb8, 0, 0, 0, 0, 0, 0xff}, {0x2001, 0xdb8, 0, 0, 0, 0, 0, 0x100},
	{0xfe80, 0, 0, 0, 0, 0, 0, 1}, {0xfebf, 0xffff, 0, 0, 0, 0, 0, 0xabcd}, {0xfec0, 0, 0, 0, 0, 0, 0, 1}, {0x2001, 0xdb9, 0, 0, 0, 0, 0, 0}, {0, 0, 0, 0, 0, 0, 0, 0},
	{0x2001, 0xdb8, 0, 0, 1, 0, 0, 1}, {0xa, 0xb, 0xc, 0xd, 0xe, 0xf, 0x10, 0xABCD}}

var ip6Pats = []ipatIn{
	{K: "addr", Lo: ip6Addrs[0], Hi: ip6Addrs[0], Bits: 128}, {K: "addr", Lo: ip6Addrs[1], Hi: ip6Addrs[1], Bits: 128}, {K: "addr", Lo: ip6Addrs[5], Hi: ip6Addrs[5], Bits: 128},
	{K: "addr", Lo: ip6Addrs[10], Hi: ip6Addrs[10], Bits: 128}, {K: "addr", Lo: ip6Addrs[9], Hi: ip6Addrs[9], Bits: 128},
	{K: "range", Lo: ip6Addrs[1], Hi: ip6Addrs[2]}, {K: "range", Lo: ip6Addrs[8], Hi: ip6Addrs[0]},
	{K: "cidr", Lo: []int{0xfe80, 0, 0, 0, 0, 0, 0, 0}, Hi: []int{0xfe80, 0, 0, 0, 0, 0, 0, 0}, Bits: 10}, {K: "cidr", Lo: ip6Addrs[8], Hi: ip6Addrs[8], Bits: 0},
	{K: "cidr", Lo: ip6Addrs[1], Hi: ip6Addrs[1], Bits: 32}, {K: "cidr", Lo: ip6Addrs[1], Hi: ip6Addrs[1], Bits: 128}, {K: "cidr", Lo: ip6Addrs[1], Hi: ip6Addrs[1], Bits: 120},
	{K: "cidr", Lo: ip6Addrs[1], Hi: ip6Addrs[1], Bits: 65},
}

// genIP6Case: the same over IPv6 (and IPv4 lines / patterns mixed in: a pattern of one family accepts no address of the
// other).  Addresses stand in every spelling; near-addresses (a trailing colon, five digits in a group, two "::") are none.
func genIP6Case(r *rand.Rand, in *logqIn) {
	spell := func(x []int) string { return ip6Text(x, r.Intn(5)) }
	line := func() string {
		a := spell(ip6Addrs[r.Intn(len(ip6Addrs))])
		switch r.Intn(12) {
		case 0:
			return "[" + a + "]:80"
		case 1:
			return a + ": timeout"
		case 2:
			return "from " + a + " to " + spell(ip6Addrs[r.Intn(len(ip6Addrs))])
		case 3:
			return pick(r, []string{"ab", "abcd1"}) + a
		case 4:
			return "host=" + a + " peer=10.0.0.1"
		case 5:
			return "10.0.0.1 no six"
		case 6:
			return a + "::"
		case 7:
			return "a " + a
		case 8:
			return pick(r, []string{"::", ":", "1::2::3", "12345::1", "1:2:3:4:5:6:7:8:9", "1:2:3:4:5:6:7::", "::1:2:3:4:5:6:7:8", "g::1", "dead beef: x", ""})
		}
		return a
	}
	for i := range in.Recs {
		in.Recs[i].Line, in.Recs[i].Doc = B(line()), [][2][]int{}
		in.Recs[i].Attrs = [][2][]int{}
		if r.Intn(4) != 0 {
			v := spell(ip6Addrs[r.Intn(len(ip6Addrs))])
			if r.Intn(5) == 0 {
				v = pick(r, []string{"10.0.0.1", "junk", "", "::1x", " ::1", "1::2::3", "::"})
			}
			in.Recs[i].Attrs = append(in.Recs[i].Attrs, [2][]int{B("ip"), B(v)})
		}
	}
	in.Sel = []matcherIn{}
	eps, _ := json.Marshal(&ReAST{T: "eps"})
	pat := func() ipatIn {
		if r.Intn(6) == 0 {
			return ipPats[r.Intn(len(ipPats))]
		}
		p := ip6Pats[r.Intn(len(ip6Pats))]
		st := r.Intn(5)
		switch p.K {
		case "range":
			p.Txt = ip6Text(p.Lo, st) + "-" + ip6Text(p.Hi, r.Intn(5))
		case "cidr":
			p.Txt = ip6Text(p.Lo, st) + "/" + strconv.Itoa(p.Bits)
		default:
			p.Txt = ip6Text(p.Lo, st)
		}
		return p
	}
	ipStage := func() stageIn {
		p := pat()
		op := []string{"eq", "neq"}[r.Intn(2)]
		if r.Intn(3) != 0 {
			return stageIn{T: "line", Op: op, Val: B(p.text()), Re: eps, IP: true, Ipat: &p}
		}
		return stageIn{T: "label", Pred: &predIn{T: "ip", Label: B("ip"), Op: op, Val: B(p.text()), Ipat: &p, Re: eps}}
	}
	in.Stages = []stageIn{ipStage()}
	if r.Intn(3) == 0 {
		in.Stages = append(in.Stages, ipStage())
	}
}

// genIPCase turns a case into one about ip("...") filters over IPv4: lines and a label `ip` without colons and without
// the letters a-f (the domain in which the specification transcribes the scanner), one or two ip stages.
func genIPCase(r *rand.Rand, in *logqIn) {
	lines := []string{"10.0.0.1", "x 10.0.0.2 y", "10.0.0.1 10.0.0.9", "no host", "host=10.0.0.3 to=192.168.1.7", "", "300.1.1.1", "1234.1.1.1", "10.0.0.1.5",
		"1.2.3", "10.0.0.4.", "7.7.7.7x", "[10.0.0.4]", "10.0.0.01", "0.0.0.0 255.255.255.255", "10.0.1.0", "9.255.255.255 11.0.0.0", "10.0.1.255 10.0.2.0",
		"12 10.0.0.8", "1.10.0.0.7", "..10.0.0.6", "10.0.0.3,10.0.0.5", "7", "10.0.0"}
	vals := []string{"10.0.0.1", "10.0.0.9", "192.168.1.7", "junk", "", "10.0.0.300", "10.0.0.2", "10.0.1.0", "11.0.0.0", " 10.0.0.1", "10.0.0.1 "}
	for i := range in.Recs {
		in.Recs[i].Line, in.Recs[i].Doc = B(pick(r, lines)), [][2][]int{}
		in.Recs[i].Attrs = [][2][]int{}
		if r.Intn(4) != 0 {
			in.Recs[i].Attrs = append(in.Recs[i].Attrs, [2][]int{B("ip"), B(pick(r, vals))})
		}
	}
	in.Sel = []matcherIn{}
	eps, _ := json.Marshal(&ReAST{T: "eps"})
	ipStage := func() stageIn {
		p := ipPats[r.Intn(len(ipPats))]
		op := []string{"eq", "neq"}[r.Intn(2)]
		if r.Intn(2) == 0 {
			return stageIn{T: "line", Op: op, Val: B(p.text()), Re: eps, IP: true, Ipat: &p}
		}
		pr := &predIn{T: "ip", Label: B("ip"), Op: op, Val: B(p.text()), Ipat: &p, Re: eps}
		if r.Intn(4) == 0 {
			q := ipPats[r.Intn(len(ipPats))]
			pr = &predIn{T: []string{"and", "or"}[r.Intn(2)], A: &predIn{T: "paren", A: pr},
				B: &predIn{T: "paren", A: &predIn{T: "ip", Label: B("ip"), Op: []string{"eq", "neq"}[r.Intn(2)], Val: B(q.text()), Ipat: &q, Re: eps}}}
		}
		return stageIn{T: "label", Pred: pr}
	}
	in.Stages = []stageIn{ipStage()}
	if r.Intn(3) == 0 {
		in.Stages = append(in.Stages, ipStage())
	}
}

func negStage(st stageIn) stageIn {
	if st.T == "line" {
		st.Op = negOp(st.Op)
		return st
	}
	p := *st.Pred
	p.Op = negOp(p.Op)
	st.Pred = &p
	return st
}

func cat(base []stageIn, more ...stageIn) []stageIn {
	out := make([]stageIn, 0, len(base)+len(more))
	out = append(out, base...)
	return append(out, more...)
}

func genAlgebra(r *rand.Rand) logqIn {
	in := logqIn{Sel: []matcherIn{}, Stages: []stageIn{}, Limit: -1, Start: []int{1699999000, 0}, End: []int{1700009000, 0},
		Caps: []CapsIn{{Label: []string{}, Line: []string{}}}}
	if r.Intn(3) == 0 {
		in.Caps = []CapsIn{{Label: allOps, Line: allOps}}
	}
	n := 1 + r.Intn(15)
	in.Recs = genRecs(r, n, true)
	// arbitrary bytes in some lines and attribute values
	for i := range in.Recs {
		if r.Intn(5) == 0 {
			m := 1 + r.Intn(6)
			line := make([]int, m)
			for k := range line {
				line[k] = r.Intn(256)
			}
			in.Recs[i].Line, in.Recs[i].Doc = line, [][2][]int{}
		}
	}
	var base []stageIn
	for k := r.Intn(4); k > 0; k-- {
		var st stageIn
		switch r.Intn(4) {
		case 0:
			st = stageIn{T: "logfmt"}
		case 1:
			// (app is an attribute of the records: a filter on it behind a drop / keep must see what the stage left)
			st = stageIn{T: []string{"drop", "keep"}[r.Intn(2)], Labels: IntsList{B(pick(r, append(lqKeys, "app", "app"))), B("msg")}}
		default:
			st = genFilterStage(r)
		}
		if k := len(base); k > 0 && (base[k-1].T == "drop" || base[k-1].T == "keep") && st.T == "line" && (st.Op == "neq" || st.Op == "nre") {
			continue
		}
		base = append(base, st)
	}
	// a family must not start its filter with != / !~ right after drop/keep (that text is a drop matcher)
	if k := len(base); k > 0 && (base[k-1].T == "drop" || base[k-1].T == "keep") {
		base = append(base, stageIn{T: "logfmt"})
	}
	eps, _ := json.Marshal(&ReAST{T: "eps"})
	if r.Intn(3) != 0 {
		f, g := genFilterStage(r), genFilterStage(r)
		if r.Intn(4) == 0 {
			// the same needle TEXT read once literally and once as a regular expression (the readings differ on some lines)
			txt := pick(r, []string{"k=.", "a.c", "a|b", ".", "=\\d", "v=1+", "[ab]"})
			op := []string{"eq", "neq"}[r.Intn(2)]
			f = stageIn{T: "line", Op: op, Val: B(txt), Re: eps}
			g = stageIn{T: "line", Op: map[string]string{"eq": "re", "neq": "nre"}[op], Val: B(txt), Re: eps}
			if r.Intn(2) == 0 {
				f, g = g, f
			}
		}
		if r.Intn(5) == 0 {
			// ip() line filters: a filter and its negation split the lines like any other (lines without an address, with
			// one, with several of which only some match)
			ipLines := []string{"10.0.0.1", "x 10.0.0.2 y", "10.0.0.1 10.0.0.9", "no address here", "addr=10.0.0.3 peer=192.168.1.7", "", "::1 and 10.0.0.1",
				"fe80::1", "300.1.1.1", "10.0.0.1:8080", "[10.0.0.4]"}
			for i := range in.Recs {
				if r.Intn(3) != 0 {
					in.Recs[i].Line, in.Recs[i].Doc = B(pick(r, ipLines)), [][2][]int{}
				}
			}
			ipPats := []string{"10.0.0.1", "10.0.0.0/8", "10.0.0.1-10.0.0.3", "::1", "192.168.0.0/16", "0.0.0.0/0"}
			op := []string{"eq", "neq"}[r.Intn(2)]
			f = stageIn{T: "line", Op: op, Val: B(pick(r, ipPats)), Re: eps, IP: true}
			if r.Intn(2) == 0 {
				g = stageIn{T: "line", Op: []string{"eq", "neq"}[r.Intn(2)], Val: B(pick(r, ipPats)), Re: eps, IP: true}
			}
		}
		if r.Intn(8) == 0 {
			// a filter on a record attribute right behind a stage that removed or rewrote that label (no parser in between):
			// the filter judges what the stage left, whoever evaluates it
			base = []stageIn{[]stageIn{
				{T: "drop", Labels: IntsList{B("app")}},
				{T: "keep", Labels: IntsList{B("msg")}},
				{T: "labelfmt", Tmpls: []tmplIn{{Dst: B("app"), Parts: []partIn{{T: "lit", S: B("x")}}}}},
				{T: "labelfmt", Renames: []renameIn{{Dst: B("was"), Src: B("app")}}},
			}[r.Intn(4)]}
			f = stageIn{T: "label", Pred: &predIn{T: "m", Label: B("app"), Op: allOps[r.Intn(2)], Val: B(pick(r, []string{"a", "b", "web", "", "x"})), Re: eps}}
			in.Caps = []CapsIn{{Label: allOps, Line: allOps}}
			if g.T == "line" && (g.Op == "neq" || g.Op == "nre") {
				g.Op = map[string]string{"neq": "eq", "nre": "re"}[g.Op] // "| drop app != x" would be a drop matcher
			}
		}
		if r.Intn(6) == 0 {
			// the same family over the Docker storage (two containers, the records dealt out by turns): the needle is looked for in
			// the MESSAGE - not in what else a frame carries (its timestamp text: digits, T, Z, colons, dashes)
			in.Store = "docker"
			for i := range in.Recs {
				in.Recs[i].TS[1] = []int{404000003, 170000000, 5, 999999999, 0, 123456789}[r.Intn(6)]
				if r.Intn(3) == 0 {
					in.Recs[i].Line, in.Recs[i].Doc = B(pick(r, []string{"GET /x 404", "ok", "T-1000", "a:b", "2023", "Z", "17 00"})), [][2][]int{}
				}
			}
			needle := func() stageIn {
				return stageIn{T: "line", Op: []string{"eq", "neq"}[r.Intn(2)], Val: B(pick(r, []string{"404", "Z", "T", ":", "-", "2023", "00", "17", "3Z", ".4", "a", "ok"})), Re: eps}
			}
			f = needle()
			if r.Intn(2) == 0 {
				g = needle()
			}
			if k := len(base); k > 0 && (base[k-1].T == "drop" || base[k-1].T == "keep") {
				base = append(base, stageIn{T: "logfmt"})
			}
		}
		in.Fam = "fg"
		in.Queries = [][]stageIn{cat(base), cat(base, f), cat(base, negStage(f)), cat(base, f, g), cat(base, g, f), cat(base, f, f), cat(base, g),
			cat(base, stageIn{T: "line", Op: "eq", Val: Ints{}, Re: eps})}
	} else {
		a, b := genPred(r, 1), genPred(r, 1)
		par := func(p *predIn) *predIn { return &predIn{T: "paren", A: p} }
		if r.Intn(6) == 0 {
			// two typed predicates on two labels, of which the first often cannot be parsed (the record is kept and flagged)
			// while the second parses and decides: an earlier error does not excuse a later comparison
			base = []stageIn{{T: "logfmt"}}
			for i := range in.Recs {
				nv, dv := pick(r, []string{"5", "x", "12", "abc", "1e3"}), pick(r, []string{"1s", "2m", "zzz", "500ms"})
				in.Recs[i].Line, in.Recs[i].Doc = B("n="+nv+" d="+dv), [][2][]int{{B("n"), B(nv)}, {B("d"), B(dv)}}
			}
			ops := []string{"eq", "neq", "gt", "gte", "lt", "lte"}
			nl, dl := pick(r, []string{"5", "10", "100"}), pick(r, []string{"1s", "90s", "1m"})
			a = &predIn{T: "num", Label: B("n"), Op: ops[r.Intn(6)], Lit: B(nl), Val: ratOfDecimal(nl)}
			b = &predIn{T: "dur", Label: B("d"), Op: ops[r.Intn(6)], Lit: B(dl), Val: ratOfDur(dl)}
			if r.Intn(2) == 0 {
				a, b = b, a
			}
		} else if r.Intn(3) == 0 {
			// two matchers on ONE label, the left one with an inline flag that must stay inside its own expression
			// (?i) / (?s) do not extend over a following alternative of another matcher), written without parentheses
			for i := range in.Recs {
				in.Recs[i].Attrs = append(in.Recs[i].Attrs, [2][]int{B("lvl"), B(pick(r, []string{"warn", "WARN", "error", "ERROR", "b", "B", "a", "A", "a\nb", ""}))})
			}
			ops := []string{"re", "nre"}
			if r.Intn(2) == 0 {
				ops = []string{"re", "re"}
			}
			a = &predIn{T: "m", Label: B("lvl"), Op: ops[r.Intn(2)], Val: B(pick(r, []string{"(?i)warn", "(?i)a", "(?s)a.b", "(?i:a)", "(?i)A|x"})), Re: eps}
			b = &predIn{T: "m", Label: B("lvl"), Op: ops[r.Intn(2)], Val: B(pick(r, []string{"error", "b", "a.b", "B", "warn"})), Re: eps}
			if r.Intn(4) == 0 {
				a, b = b, a
			}
			if r.Intn(4) != 0 {
				par = func(p *predIn) *predIn { return p }
			}
		}
		in.Fam = "pred"
		in.Queries = [][]stageIn{
			cat(base, stageIn{T: "label", Pred: &predIn{T: "and", A: par(a), B: par(b)}}),
			cat(base, stageIn{T: "label", Pred: &predIn{T: "or", A: par(a), B: par(b)}}),
			cat(base, stageIn{T: "label", Pred: a}), cat(base, stageIn{T: "label", Pred: b}), cat(base)}
	}
	return in
}

// MarshalJSON writes empty arrays instead of null (TLC's JSON reader rejects null).
func (s stageIn) MarshalJSON() ([]byte, error) {
	type alias stageIn
	a := alias(s)
	if a.Exprs == nil {
		a.Exprs = []jexprIn{}
	}
	if a.Lexprs == nil {
		a.Lexprs = []lexprIn{}
	}
	if a.Parts == nil {
		a.Parts = []partIn{}
	}
	if a.Renames == nil {
		a.Renames = []renameIn{}
	}
	if a.Tmpls == nil {
		a.Tmpls = []tmplIn{}
	}
	if a.Matchers == nil {
		a.Matchers = []matcherIn{}
	}
	for i := range a.Tmpls {
		if a.Tmpls[i].Parts == nil {
			a.Tmpls[i].Parts = []partIn{}
		}
	}
	for i := range a.Exprs {
		if a.Exprs[i].Path == nil {
			a.Exprs[i].Path = []selIn{}
		}
	}
	return json.Marshal(a)
}
