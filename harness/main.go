// Command harness runs docker-logql's real code on cases described in the abstract vocabulary of
// /verif/spec and records what the code did as ndjson events.  It contains no oracle: every
// judgement is made by TLC on the recorded trace (see DESIGN.md).
package main

import (
	"bufio"
	"encoding/json"
	"flag"
	"fmt"
	"math/rand"
	"os"
	"sort"
)

// Case is one scenario: inputs in the abstract vocabulary of the family's specification.
type Case struct {
	Scn int             `json:"scn"`
	Txt string          `json:"txt,omitempty"`
	In  json.RawMessage `json:"in"`
}

// Family binds one specification family to the real code.
type Family interface {
	// Gen draws n random cases from the family's vocabulary.
	Gen(r *rand.Rand, n int, opt map[string]string) []any
	// Exec runs the real code on one case and records events.
	Exec(scn int, in json.RawMessage, t *Trace, opt map[string]string) error
}

var families = map[string]Family{}

func register(name string, f Family) { families[name] = f }

type optFlags map[string]string

func (o optFlags) String() string { return fmt.Sprint(map[string]string(o)) }
func (o optFlags) Set(v string) error {
	for i := 0; i < len(v); i++ {
		if v[i] == '=' {
			o[v[:i]] = v[i+1:]
			return nil
		}
	}
	o[v] = "1"
	return nil
}

func main() {
	if len(os.Args) < 2 {
		names := make([]string, 0, len(families))
		for k := range families {
			names = append(names, k)
		}
		sort.Strings(names)
		fmt.Fprintln(os.Stderr, "usage: harness <family> -cases f -out f -rand n -seed s; families:", names)
		os.Exit(2)
	}
	fam, ok := families[os.Args[1]]
	if !ok {
		fmt.Fprintln(os.Stderr, "unknown family", os.Args[1])
		os.Exit(2)
	}
	fs := flag.NewFlagSet(os.Args[1], flag.ExitOnError)
	casesPath := fs.String("cases", "", "ndjson cases exported by TLC (or a replay file)")
	outPath := fs.String("out", "trace.ndjson", "trace output")
	nrand := fs.Int("rand", 0, "number of seeded random cases to add")
	seed := fs.Int64("seed", 1, "seed of the random driver")
	opt := optFlags{}
	fs.Var(opt, "opt", "family option k=v (repeatable)")
	_ = fs.Parse(os.Args[2:])

	out, err := os.Create(*outPath)
	if err != nil {
		fatal(err)
	}
	defer out.Close()
	bw := bufio.NewWriterSize(out, 1<<20)
	defer bw.Flush()
	tr := &Trace{w: bw}

	scn := 0
	nfile := 0
	if *casesPath != "" {
		f, err := os.Open(*casesPath)
		if err != nil {
			fatal(err)
		}
		sc := bufio.NewScanner(f)
		sc.Buffer(make([]byte, 1<<20), 1<<28)
		for sc.Scan() {
			if len(sc.Bytes()) == 0 {
				continue
			}
			var c Case
			if err := json.Unmarshal(sc.Bytes(), &c); err != nil {
				fatal(fmt.Errorf("bad case line: %w", err))
			}
			scn++
			id := scn
			if c.Scn != 0 {
				id = c.Scn
			}
			if err := fam.Exec(id, c.In, tr, opt); err != nil {
				fatal(fmt.Errorf("case %d: %w", id, err))
			}
			nfile++
			if hangCount >= maxHangs {
				break
			}
		}
		if err := sc.Err(); err != nil {
			fatal(err)
		}
		f.Close()
	}
	if *nrand > 0 {
		r := rand.New(rand.NewSource(*seed))
		for _, in := range fam.Gen(r, *nrand, opt) {
			raw, err := json.Marshal(in)
			if err != nil {
				fatal(err)
			}
			scn++
			if hangCount >= maxHangs {
				break
			}
			if err := fam.Exec(scn, raw, tr, opt); err != nil {
				fatal(fmt.Errorf("random case %d: %w", scn, err))
			}
		}
	}
	if hangCount >= maxHangs {
		fmt.Printf("stopped after %d evaluations that did not terminate\n", hangCount)
	}
	fmt.Printf("scenarios=%d from_file=%d random=%d events=%d\n", scn, nfile, scn-nfile, tr.n)
}

func fatal(err error) {
	fmt.Fprintln(os.Stderr, "harness:", err)
	os.Exit(2)
}
