package main

import (
	"encoding/json"
	"math/rand"

	"github.com/tdakkota/docker-logql/internal/otelstorage"
)

// C20: otelstorage.KeyToLabel on every key.
type famSanitize struct{}

func init() { register("sanitize", famSanitize{}) }

type sanitizeIn struct {
	Key []int `json:"key"`
}

var sanitizeAlphabet = []string{"a", "Z", "q", "0", "9", "_", ".", "-", "/", " ", "é", "€", "\xff", "\xc3", "\x80",
	"\xe2\x82", "\xf0\x9f\x98\x80", "\xed\xa0\x80", "\xc0\xaf", "\xf4\x90\x80\x80", "\x00", "\t", "\xef\xbf\xbd", "ß", "x", "7"}

func (famSanitize) Gen(r *rand.Rand, n int, _ map[string]string) []any {
	out := make([]any, 0, n)
	for i := 0; i < n; i++ {
		var k string
		ln := 1 + r.Intn(24)
		if r.Intn(4) == 0 {
			ln = 1 + r.Intn(64)
		}
		for len(k) < ln {
			if r.Intn(5) == 0 {
				k += string([]byte{byte(r.Intn(256))})
			} else {
				k += sanitizeAlphabet[r.Intn(len(sanitizeAlphabet))]
			}
		}
		out = append(out, sanitizeIn{Key: B(k)})
	}
	return out
}

func (famSanitize) Exec(scn int, raw json.RawMessage, t *Trace, _ map[string]string) error {
	var in sanitizeIn
	if err := json.Unmarshal(raw, &in); err != nil {
		return err
	}
	t.Scenario(scn, raw)
	key := S(in.Key)
	out, pan := "", false
	func() {
		defer func() {
			if recover() != nil {
				pan = true
			}
		}()
		out = otelstorage.KeyToLabel(key)
	}()
	if pan {
		t.Ev(scn, "Panic", nil)
		return nil
	}
	t.Ev(scn, "Key", F{"out": B(out)})
	return nil
}
