package main

import (
	"encoding/json"
	"math/rand"
	"strings"
	"time"
	"unicode/utf8"

	"github.com/tdakkota/docker-logql/internal/logql"
	"github.com/tdakkota/docker-logql/internal/logql/logqlengine"

	"github.com/tdakkota/docker-logql/internal/otelstorage"
)

// C20: otelstorage.KeyToLabel on every key.
type famSanitize struct{}

func init() { register("sanitize", famSanitize{}) }

type sanitizeIn struct {
	Key []int `json:"key"`
}

var sanitizeAlphabet = []string{"a", "Z", "q", "0", "9", "_", ".", "-", "/", " ", "é", "€", "\xff", "\xc3", "\x80",
	"\xe2\x82", "\xf0\x9f\x98\x80", "\xed\xa0\x80", "\xc0\xaf", "\xf4\x90\x80\x80", "\x00", "\t", "\xef\xbf\xbd", "ß", "x", "7"}

func (famSanitize) Gen(r *rand.Rand, n int, _ map[string]string) []any {
	out := make([]any, 0, n)
	for i := 0; i < n; i++ {
		var k string
		ln := 1 + r.Intn(24)
		if r.Intn(4) == 0 {
			ln = 1 + r.Intn(64)
		}
		if r.Intn(5) == 0 {
			// ASCII keys at the lengths where a fixed scratch buffer would end, digit-leading or not
			ln = []int{15, 16, 17, 31, 32, 33, 63, 64, 65, 127, 128, 129, 255, 256, 257}[r.Intn(15)]
			k = pick(r, []string{"7", "a", "_", "0"})
			for len(k) < ln {
				k += pick(r, []string{"a", "b", ".", "-", "_", "9", "Z"})
			}
		}
		if r.Intn(8) == 0 {
			// names that differ from a reserved word of the query language by their case only (they are ordinary names),
			// or that become one once sanitised
			k = pick(r, []string{"Max", "IP", "Rate", "Count", "Duration", "Keep", "By", "Label.Format", "ON", "Json", "MAX", "Sum", "Vector", "Bytes", "oR", "Without",
				"Line-Format", "Count.Over.Time", "Unwrap", "Bool", "Offset", "Topk", "Drop", "Distinct", "Pattern", "Logfmt", "IGNORING", "Group-Left", "max", "by", "label.format"})
			ln = len(k)
		}
		for len(k) < ln {
			if r.Intn(5) == 0 {
				k += string([]byte{byte(r.Intn(256))})
			} else {
				k += sanitizeAlphabet[r.Intn(len(sanitizeAlphabet))]
			}
		}
		out = append(out, sanitizeIn{Key: B(k)})
	}
	return out
}

func (famSanitize) Exec(scn int, raw json.RawMessage, t *Trace, _ map[string]string) error {
	var in sanitizeIn
	if err := json.Unmarshal(raw, &in); err != nil {
		return err
	}
	t.Scenario(scn, raw)
	key := S(in.Key)
	out, pan := "", false
	func() {
		defer func() {
			if recover() != nil {
				pan = true
			}
		}()
		out = otelstorage.KeyToLabel(key)
	}()
	if pan {
		t.Ev(scn, "Panic", nil)
		return nil
	}
	t.Ev(scn, "Key", F{"out": B(out)})
	// e2e: a container carrying the Docker label key="v" is selected by {<observed name>="v"}, the one beside it is not.
	// Names the selector grammar cannot spell (reserved words) and the storage's own label names are out of scope.
	builtin := map[string]bool{"container": true, "container_id": true, "container_name": true, "container_image": true, "container_image_id": true,
		"container_command": true, "container_created": true, "container_state": true, "container_status": true, "msg": true}
	q := "{" + out + "=\"v\"}"
	if key == "" || builtin[out] {
		return nil
	}
	if _, err := logql.Parse(q, logql.ParseOptions{}); err != nil {
		// (the specification knows which names are reserved words; any other name must be accepted)
		t.Ev(scn, "Selected", F{"label": B(out), "parsed": false, "selected": false, "others": -1})
		return nil
	}
	c1 := simpleCtr("c1", "c1", []Frame{{Typ: 1, TS: []int{1700000001, 0}, Msg: B("one")}})
	c1.LabelKV = [][2][]int{{in.Key, B("v")}}
	c2 := simpleCtr("c2", "c2", []Frame{{Typ: 1, TS: []int{1700000002, 0}, Msg: B("two")}})
	c2.LabelKV = [][2][]int{{B("unrelated"), B("v")}}
	ctrs := []FakeCtr{c1, c2}
	if scn%2 == 0 {
		ctrs = []FakeCtr{c2, c1}
	}
	eng := dockerEngine(newFakeDocker(nil, scn, ctrs))
	r := evalWithWatchdog(eng, q, logqlengine.EvalParams{Start: tsOf(Base.Add(-10 * time.Second)), End: tsOf(Base.Add(100 * time.Second)), Limit: -1}, 20*time.Second)
	if r.Err != nil || r.Panic != nil || r.Hang {
		t.Ev(scn, "Selected", F{"label": B(out), "parsed": true, "selected": false, "others": -1})
		return nil
	}
	sel, others := false, 0
	if st, ok := r.Data.GetStreamsResult(); ok {
		for _, e := range flatten(st.Result) {
			if e.Labels["container"] == "c1" {
				sel = true
			} else {
				others++
			}
		}
	}
	t.Ev(scn, "Selected", F{"label": B(out), "parsed": true, "selected": sel, "others": others})
	// the same key as a JSON field extracted without a field list: `{} | json` must expose it under the sanitised name
	// (keys that a JSON text cannot carry verbatim - invalid UTF-8, control bytes - are left out)
	if utf8.ValidString(key) && !strings.ContainsAny(key, "\x00\x01\x02\x03\x04\x05\x06\x07\x08\t\n\x0b\x0c\r\x0e\x0f\x10\x11\x12\x13\x14\x15\x16\x17\x18\x19\x1a\x1b\x1c\x1d\x1e\x1f\x7f") {
		doc, _ := json.Marshal(map[string]string{key: "v"})
		store := &MemStore{recs: []MemRec{{ID: 1, TS: []int{1700000001, 0}, Line: B(string(doc)), Attrs: [][2][]int{}, Doc: [][2][]int{}}}, caps: CapsIn{Label: []string{}, Line: []string{}}}
		r := evalWithWatchdog(logqlengine.NewEngine(store, logqlengine.Options{}), "{} | json", logqlengine.EvalParams{Start: tsOf(Base.Add(-10 * time.Second)), End: tsOf(Base.Add(100 * time.Second)), Limit: -1}, 20*time.Second)
		names := [][]int{}
		val := []int{}
		if r.Err == nil && r.Panic == nil && !r.Hang {
			if st, ok := r.Data.GetStreamsResult(); ok {
				for _, e := range flatten(st.Result) {
					for k, v := range e.Labels {
						names = append(names, B(k))
						if k == out {
							val = B(v)
						}
					}
				}
			}
		}
		t.Ev(scn, "Extracted", F{"names": names, "val": val})
	}
	return nil
}
