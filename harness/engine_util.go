package main

import (
	"context"
	"fmt"
	"math"
	"math/big"
	"sort"
	"strconv"
	"time"

	"go.opentelemetry.io/collector/pdata/pcommon"

	"github.com/tdakkota/docker-logql/internal/dockerlog"
	"github.com/tdakkota/docker-logql/internal/logql/logqlengine"
	"github.com/tdakkota/docker-logql/internal/lokiapi"
)

// Base is the instant that abstract time 0 denotes.
var Base = time.Unix(1700000000, 0).UTC()

// evalResult is the outcome of one Engine.Eval call.
type evalResult struct {
	Data  lokiapi.QueryResponseData
	Err   error
	Panic any
	Hang  bool
}

// evalWithWatchdog runs Eval under recover() and a watchdog.
// hangCount: evaluations the watchdog gave up on in this process; the verdict is already decided by the first one
var hangCount int

const maxHangs = 3

func evalWithWatchdog(eng *logqlengine.Engine, query string, p logqlengine.EvalParams, limit time.Duration) evalResult {
	ch := make(chan evalResult, 1)
	go func() {
		var r evalResult
		defer func() {
			if x := recover(); x != nil {
				r.Panic = x
			}
			ch <- r
		}()
		r.Data, r.Err = eng.Eval(context.Background(), query, p)
	}()
	select {
	case r := <-ch:
		return r
	case <-time.After(limit):
		// the evaluation goroutine cannot be stopped and keeps a core busy: after a few hangs the run stops (main loop)
		hangCount++
		return evalResult{Hang: true}
	}
}

func dockerEngine(fake *FakeDocker) *logqlengine.Engine {
	q, err := dockerlog.NewQuerier(fake)
	if err != nil {
		panic(err)
	}
	return logqlengine.NewEngine(q, logqlengine.Options{})
}

func tsOf(t time.Time) pcommon.Timestamp { return pcommon.NewTimestampFromTime(t) }

// sn projects an instant to [seconds, nanoseconds].
func sn(ns uint64) []int { return []int{int(ns / 1e9), int(ns % 1e9)} }

// flatEntry is one log entry of a streams result with its stream labels.
type flatEntry struct {
	Labels map[string]string
	T      uint64
	Line   string
	Stream int
}

func flatten(streams lokiapi.Streams) []flatEntry {
	var out []flatEntry
	for i, s := range streams {
		for _, e := range s.Values {
			out = append(out, flatEntry{Labels: s.Stream.Value, T: e.T, Line: e.V, Stream: i + 1})
		}
	}
	return out
}

// outcome records Return / Panic / Hang for an Eval call. Returns false if there is no data to project.
func recordOutcome(t *Trace, scn int, r evalResult, extra F) bool {
	if extra == nil {
		extra = F{}
	}
	switch {
	case r.Hang:
		extra["detail_txt"] = "watchdog"
		t.Ev(scn, "Hang", extra)
		return false
	case r.Panic != nil:
		extra["detail_txt"] = fmt.Sprint(r.Panic)
		t.Ev(scn, "Panic", extra)
		return false
	case r.Err != nil:
		extra["outcome"] = "err"
		extra["kind"] = "none"
		extra["detail_txt"] = r.Err.Error()
		t.Ev(scn, "Return", extra)
		return false
	}
	extra["outcome"] = "ok"
	extra["kind"] = string(r.Data.Type)
	t.Ev(scn, "Return", extra)
	return true
}

// ---- numbers: float64 -> exact small rational [n, d] or a tag

// ratOf projects a float to the abstract number domain: {"t":"rat","n":..,"d":..} | {"t":"nan"} | {"t":"pinf"} | {"t":"ninf"} | {"t":"big"}.
func ratOf(v float64) F {
	switch {
	case math.IsNaN(v):
		return F{"t": "nan", "n": 0, "d": 1}
	case math.IsInf(v, 1):
		return F{"t": "pinf", "n": 0, "d": 1}
	case math.IsInf(v, -1):
		return F{"t": "ninf", "n": 0, "d": 1}
	}
	// simplest rational within 1e-9 relative: continued fractions
	n, d, ok := simplestRat(v, 1e-9)
	if !ok {
		return F{"t": "big", "n": 0, "d": 1}
	}
	return F{"t": "rat", "n": n, "d": d}
}

func simplestRat(v float64, rel float64) (int, int, bool) {
	// float results of exact-rational arithmetic are off by ~1e-16 times the magnitude of the OPERANDS (e.g. 2 % (2/3) = 2.2e-16):
	// below 1e-12 a value is zero, and the tolerance never drops below 1e-12
	if math.Abs(v) < 1e-12 {
		return 0, 1, true
	}
	neg := v < 0
	x := math.Abs(v)
	tol := math.Max(x*rel, 1e-12)
	// continued fraction expansion with big ints guarded by 31-bit limits
	h0, h1 := big.NewInt(0), big.NewInt(1)
	k0, k1 := big.NewInt(1), big.NewInt(0)
	y := x
	lim := big.NewInt(1 << 30)
	for i := 0; i < 40; i++ {
		a := math.Floor(y)
		if a > 1<<30 {
			return 0, 0, false
		}
		ai := big.NewInt(int64(a))
		h2 := new(big.Int).Add(new(big.Int).Mul(ai, h1), h0)
		k2 := new(big.Int).Add(new(big.Int).Mul(ai, k1), k0)
		if h2.Cmp(lim) > 0 || k2.Cmp(lim) > 0 {
			return 0, 0, false
		}
		h0, h1, k0, k1 = h1, h2, k1, k2
		approx := float64(h1.Int64()) / float64(k1.Int64())
		if math.Abs(approx-x) <= tol {
			n := int(h1.Int64())
			if neg {
				n = -n
			}
			return n, int(k1.Int64()), true
		}
		frac := y - a
		if frac == 0 {
			break
		}
		y = 1 / frac
	}
	return 0, 0, false
}

func parseFloatStr(s string) float64 {
	v, err := strconv.ParseFloat(s, 64)
	if err != nil {
		return math.NaN()
	}
	return v
}

func sortedKeys(m map[string]string) []string {
	keys := make([]string, 0, len(m))
	for k := range m {
		keys = append(keys, k)
	}
	sort.Strings(keys)
	return keys
}
