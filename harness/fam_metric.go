package main

import (
	"encoding/json"
	"fmt"
	"math/rand"
	"sort"
	"strconv"
	"strings"
	"time"

	"github.com/tdakkota/docker-logql/internal/logql/logqlengine"
)

// Metric queries over the in-memory storage (C09 windows, C10 series identity, C11 vector aggregations,
// C12 binary operations, C13 precedence).
type famMetric struct{}

func init() { register("metric", famMetric{}) }

type grpIn struct {
	Mode   string   `json:"mode"` // none | by | without
	Labels IntsList `json:"labels"`
}

type unwrapIn struct {
	On    bool   `json:"on"`
	Label Ints   `json:"label"`
	Conv  string `json:"conv"`
	// Filters: label matchers written behind the unwrap expression (`| unwrap v | app="a"`): a sample counts only if all hold
	Filters []matcherIn `json:"filters"`
}

func (u unwrapIn) MarshalJSON() ([]byte, error) {
	type alias unwrapIn
	a := alias(u)
	if a.Filters == nil {
		a.Filters = []matcherIn{}
	}
	if a.Label == nil {
		a.Label = Ints{}
	}
	return json.Marshal(a)
}

func (u unwrapIn) filtersText() string {
	var sb strings.Builder
	for _, m := range u.Filters {
		sb.WriteString(" | " + S(m.Label) + opText[m.Op] + quoteLogQL(S(m.Val)))
	}
	return sb.String()
}

type mexprIn struct {
	T      string      `json:"t"` // range | vecagg | binop | lit | vector
	ID     int         `json:"id"`
	Op     string      `json:"op"`
	Sel    []matcherIn `json:"sel"`
	Stages []stageIn   `json:"stages"`
	Range  int         `json:"range"`
	Offset int         `json:"offset"`
	Unwrap unwrapIn    `json:"unwrap"`
	Param  Ints        `json:"param"`
	Grp    grpIn       `json:"grp"`
	K      int         `json:"k"`
	E      *mexprIn    `json:"e,omitempty"`
	Bool   bool        `json:"bool"`
	A      *mexprIn    `json:"a,omitempty"`
	B      *mexprIn    `json:"b,omitempty"`
	V      Ints        `json:"v"`
	Paren  bool        `json:"paren"` // C13: this node is written in parentheses
	// C05 only (the engine supports neither): vector-matching modifier of a binary operation; label_replace(e, dst, repl, src, regex)
	Mod   *modIn `json:"mod,omitempty"`
	Dst   Ints   `json:"dst,omitempty"`
	Repl  Ints   `json:"repl,omitempty"`
	Src   Ints   `json:"src,omitempty"`
	Regex Ints   `json:"regex,omitempty"`
}

// modIn is `on (...)` / `ignoring (...)`, optionally followed by group_left / group_right with an include list.
type modIn struct {
	Op      string   `json:"op"` // on | ignoring
	Labels  IntsList `json:"labels"`
	Group   string   `json:"group"` // "" | left | right
	Include IntsList `json:"include"`
	// how the include list is written when it is empty: 0 absent, 1 "()"
	EmptyParens int `json:"emptyParens"`
}

func (m *modIn) text() string {
	names := func(l IntsList) string {
		xs := make([]string, len(l))
		for i := range l {
			xs[i] = S(l[i])
		}
		return "(" + strings.Join(xs, ", ") + ")"
	}
	s := m.Op + " " + names(m.Labels)
	if m.Group != "" {
		s += " group_" + m.Group
		if len(m.Include) > 0 || m.EmptyParens == 1 {
			s += " " + names(m.Include)
		}
	}
	return s
}

type evalIn struct {
	Start int `json:"start"` // seconds
	End   int `json:"end"`
	Step  int `json:"step"` // 0 with start = end: instant
	// additional milliseconds (0..999) of start, end and step: grids of sub-second steps
	StartMs int `json:"startMs"`
	EndMs   int `json:"endMs"`
	StepMs  int `json:"stepMs"`
	// additional nanoseconds (0..499999) of start and end: evaluation instants between two milliseconds
	StartNs int `json:"startNs"`
	EndNs   int `json:"endNs"`
}

type metricIn struct {
	Recs  []MemRec `json:"recs"`
	Expr  mexprIn  `json:"expr"`
	Evals []evalIn `json:"evals"`
	Reps  int      `json:"reps"`
	// Flat: C13 - the expression is written as the flat chain Operands[0] Ops[0] Operands[1] ... (parenthesised where Paren says)
	Flat *flatIn `json:"flat,omitempty"`
}

type flatIn struct {
	Operands []Ints   `json:"operands"` // [n, d] each, vector(x)
	// Lits: operand i is written as a bare number (a scalar literal) instead of vector(x); the value of the chain is the same
	Lits []bool `json:"lits"`
	// Dbl: the parenthesised group is written with a redundant second pair: ((a op b))
	Dbl bool `json:"dbl"`
	Ops      []string `json:"ops"`
	Open     int      `json:"open"`  // 0: no parentheses; else parentheses around operands Open..Close
	Close    int      `json:"close"`
}

var binText = map[string]string{"add": "+", "sub": "-", "mul": "*", "div": "/", "mod": "%", "pow": "^", "eq": "==", "neq": "!=",
	"gt": ">", "gte": ">=", "lt": "<", "lte": "<=", "and": "and", "or": "or", "unless": "unless"}

func decOf(p []int) string {
	return strconv.FormatFloat(float64(p[0])/float64(p[1]), 'f', -1, 64)
}

func (g grpIn) text() string {
	if g.Mode == "none" {
		return ""
	}
	names := make([]string, 0, len(g.Labels))
	for _, l := range g.Labels {
		names = append(names, S(l))
	}
	return g.Mode + " (" + strings.Join(names, ", ") + ")"
}

func (e *mexprIn) text() string {
	switch e.T {
	case "range":
		var sb strings.Builder
		sb.WriteString(e.Op + "(")
		if e.Op == "quantile_over_time" {
			sb.WriteString(decOf(e.Param) + ", ")
		}
		sb.WriteString(renderLogQuery(e.Sel, e.Stages))
		if e.Unwrap.On {
			if e.Unwrap.Conv == "" {
				sb.WriteString(" | unwrap " + S(e.Unwrap.Label))
			} else {
				sb.WriteString(" | unwrap " + e.Unwrap.Conv + "(" + S(e.Unwrap.Label) + ")")
			}
			sb.WriteString(e.Unwrap.filtersText())
		}
		sb.WriteString(fmt.Sprintf(" [%ds]", e.Range))
		if e.Offset != 0 {
			sb.WriteString(fmt.Sprintf(" offset %ds", e.Offset))
		}
		sb.WriteString(")")
		if g := e.Grp.text(); g != "" {
			sb.WriteString(" " + g)
		}
		return sb.String()
	case "vecagg":
		inner := e.E.text()
		if e.Op == "topk" || e.Op == "bottomk" {
			inner = strconv.Itoa(e.K) + ", " + inner
		}
		if g := e.Grp.text(); g != "" {
			return e.Op + " " + g + " (" + inner + ")"
		}
		return e.Op + "(" + inner + ")"
	case "binop":
		op := binText[e.Op]
		if e.Bool {
			op += " bool"
		}
		if e.Mod != nil {
			op += " " + e.Mod.text()
		}
		return operandText(e.A) + " " + op + " " + operandText(e.B)
	case "lrepl":
		return "label_replace(" + e.E.text() + ", " + strconv.Quote(S(e.Dst)) + ", " + strconv.Quote(S(e.Repl)) + ", " + strconv.Quote(S(e.Src)) + ", " + strconv.Quote(S(e.Regex)) + ")"
	case "lit":
		return decOf(e.V)
	case "vector":
		return "vector(" + decOf(e.V) + ")"
	}
	panic("bad metric expr " + e.T)
}

func operandText(e *mexprIn) string {
	if e.T == "lit" || e.T == "vector" || e.T == "range" || e.T == "vecagg" {
		return e.text()
	}
	return "(" + e.text() + ")"
}

func (f *flatIn) text() string {
	var sb strings.Builder
	for i, o := range f.Operands {
		if i > 0 {
			sb.WriteString(" " + binText[f.Ops[i-1]] + " ")
		}
		if f.Open == i+1 {
			sb.WriteString("(")
			if f.Dbl {
				sb.WriteString("(")
			}
		}
		if i < len(f.Lits) && f.Lits[i] {
			sb.WriteString(decOf(o))
		} else {
			sb.WriteString("vector(" + decOf(o) + ")")
		}
		if f.Close == i+1 {
			sb.WriteString(")")
			if f.Dbl {
				sb.WriteString(")")
			}
		}
	}
	return sb.String()
}

func (famMetric) Exec(scn int, raw json.RawMessage, t *Trace, opt map[string]string) error {
	var in metricIn
	if err := json.Unmarshal(raw, &in); err != nil {
		return err
	}
	t.Scenario(scn, raw)
	q := ""
	if in.Flat != nil {
		q = in.Flat.text()
	} else {
		q = in.Expr.text()
	}
	reps := in.Reps
	if reps < 1 {
		reps = 1
	}
	run := 0
	for _, ev := range in.Evals {
		for rep := 0; rep < reps; rep++ {
			run++
			t.Ev(scn, "Run", F{"run": run, "start": ev.Start, "end": ev.End, "step": ev.Step, "startMs": ev.StartMs, "endMs": ev.EndMs, "stepMs": ev.StepMs, "startNs": ev.StartNs, "endNs": ev.EndNs, "txt": q})
			store := &MemStore{t: nil, scn: scn, recs: in.Recs, caps: CapsIn{Label: allOps, Line: []string{}}}
			eng := logqlengine.NewEngine(store, logqlengine.Options{})
			p := logqlengine.EvalParams{Start: tsOf(time.Unix(int64(ev.Start), int64(ev.StartMs)*1e6+int64(ev.StartNs))), End: tsOf(time.Unix(int64(ev.End), int64(ev.EndMs)*1e6+int64(ev.EndNs))),
				Step: time.Duration(ev.Step)*time.Second + time.Duration(ev.StepMs)*time.Millisecond, Limit: -1}
			r := evalWithWatchdog(eng, q, p, 20*time.Second)
			if r.Err == nil && r.Panic == nil && !r.Hang {
				projectResult(t, scn, r.Data)
			}
			recordOutcome(t, scn, r, nil)
		}
	}
	return nil
}

// ---------------------------------------------------------------------------------------------
// random driver

var rangeOpsPlain = []string{"count_over_time", "rate", "bytes_over_time", "bytes_rate"}
var rangeOpsUnwrap = []string{"sum_over_time", "avg_over_time", "min_over_time", "max_over_time", "stdvar_over_time", "stddev_over_time",
	"quantile_over_time", "first_over_time", "last_over_time"}
var convertible = map[string]bool{"sum_over_time": true, "avg_over_time": true, "min_over_time": true, "max_over_time": true, "first_over_time": true, "last_over_time": true}
var groupableRange = map[string]bool{"avg_over_time": true, "min_over_time": true, "max_over_time": true, "stdvar_over_time": true,
	"stddev_over_time": true, "quantile_over_time": true, "first_over_time": true, "last_over_time": true}

const mBase = 1700000000

// genMetricRecs: records whose labels are (app, zone) plus a value label v; the line is short so that msg does not split series unless wanted.
func genMetricRecs(r *rand.Rand, n int, span int, subsec bool) []MemRec {
	recs := make([]MemRec, 0, n)
	t := 0
	for i := 0; i < n; i++ {
		t += r.Intn(span*2/(n+1) + 2)
		ns := 0
		if subsec && r.Intn(4) == 0 {
			ns = []int{1, 999999999, 500000000, 250000, 249999, 250001, 0}[r.Intn(7)]
		}
		rec := MemRec{ID: i + 1, TS: []int{mBase + t, ns}, Line: B(pick(r, []string{"m", "m", "mm", "m m"})), Doc: [][2][]int{}}
		rec.Attrs = [][2][]int{{B("app"), B(pick(r, []string{"a", "b", "ab"}))}}
		if r.Intn(2) == 0 {
			rec.Attrs = append(rec.Attrs, [2][]int{B("zone"), B(pick(r, []string{"x", "y"}))})
		}
		rec.Attrs = append(rec.Attrs, [2][]int{B("v"), B(pick(r, []string{"1", "2", "3", "4", "0.5", "10"}))})
		// values for the unwrap conversions bytes() and duration() / duration_seconds()
		if r.Intn(3) != 0 {
			rec.Attrs = append(rec.Attrs, [2][]int{B("sz"), B(pick(r, []string{"1KB", "512B", "1KiB", "2kb", "5B", "1.5KB"}))})
		}
		if r.Intn(3) != 0 {
			rec.Attrs = append(rec.Attrs, [2][]int{B("d"), B(pick(r, []string{"1s", "500ms", "1m", "1.5s", "2s", "1m30s"}))})
		}
		recs = append(recs, rec)
	}
	// the specification takes the records in time order (the storage returns them so)
	sort.SliceStable(recs, func(i, j int) bool {
		if recs[i].TS[0] != recs[j].TS[0] {
			return recs[i].TS[0] < recs[j].TS[0]
		}
		return recs[i].TS[1] < recs[j].TS[1]
	})
	for i := range recs {
		recs[i].ID = i + 1
	}
	return recs
}

func noGrp() grpIn { return grpIn{Mode: "none", Labels: IntsList{}} }

func genRange(r *rand.Rand, id int, unwrapOK bool) *mexprIn {
	e := &mexprIn{T: "range", ID: id, Sel: []matcherIn{}, Param: Ints{0, 1}, Grp: noGrp(), V: Ints{0, 1}, Unwrap: unwrapIn{Label: Ints{}}}
	e.Stages = []stageIn{{T: "drop", Labels: IntsList{B("msg")}}}
	if unwrapOK && r.Intn(2) == 0 {
		e.Op = rangeOpsUnwrap[r.Intn(len(rangeOpsUnwrap))]
		e.Unwrap = unwrapIn{On: true, Label: B("v")}
		if e.Op == "quantile_over_time" {
			e.Param = [][]int{{1, 2}, {0, 1}, {1, 1}, {9, 10}, {1, 4}}[r.Intn(5)]
		}
		// conversions (values in the thousands: kept away from the variances, whose exact rationals would leave 31 bits)
		if convertible[e.Op] && r.Intn(2) == 0 {
			switch r.Intn(3) {
			case 0:
				e.Unwrap = unwrapIn{On: true, Label: B("sz"), Conv: "bytes"}
			case 1:
				e.Unwrap = unwrapIn{On: true, Label: B("d"), Conv: "duration"}
			default:
				e.Unwrap = unwrapIn{On: true, Label: B("d"), Conv: "duration_seconds"}
			}
		}
		// label matchers behind the unwrap expression
		if r.Intn(4) == 0 {
			eps, _ := json.Marshal(&ReAST{T: "eps"})
			e.Unwrap.Filters = []matcherIn{{Label: B(pick(r, []string{"app", "zone"})), Op: pick(r, []string{"eq", "neq"}), Val: B(pick(r, []string{"a", "x", ""})), Re: eps}}
			// two or three matchers (the code then builds a pipeline of them: ALL must hold), also regular expressions, also on the unwrapped label itself
			for k := r.Intn(3); k > 0; k-- {
				m := matcherIn{Label: B(pick(r, []string{"app", "zone", "v", "nolabel"})), Op: pick(r, []string{"eq", "neq", "re", "nre"}), Val: B(pick(r, []string{"a", "b", "x", ""})), Re: eps}
				if m.Op == "re" || m.Op == "nre" {
					re := genReA(r, 2, "abx1")
					m.Val = B(re.Text())
					m.Re, _ = json.Marshal(re)
				}
				e.Unwrap.Filters = append(e.Unwrap.Filters, m)
			}
		}
		if groupableRange[e.Op] && r.Intn(2) == 0 {
			e.Grp = grpIn{Mode: []string{"by", "without"}[r.Intn(2)], Labels: IntsList{B(pick(r, []string{"app", "zone", "v"}))}}
			if e.Grp.Mode == "without" {
				e.Grp.Labels = append(e.Grp.Labels, B("v"))
			}
		}
	} else {
		e.Op = rangeOpsPlain[r.Intn(len(rangeOpsPlain))]
		if r.Intn(2) == 0 {
			e.Stages = []stageIn{{T: "keep", Labels: IntsList{B("app")}}}
		}
	}
	e.Range = 1 + r.Intn(6)
	if r.Intn(3) == 0 {
		e.Offset = 1 + r.Intn(3)
	}
	return e
}

func genEvals(r *rand.Rand, span int) []evalIn {
	var evs []evalIn
	n := 1 + r.Intn(3)
	for i := 0; i < n; i++ {
		start := mBase + r.Intn(span/2+1)
		step := 1 + r.Intn(5)
		end := start + r.Intn(span)
		evs = append(evs, evalIn{Start: start, End: end, Step: step})
	}
	if r.Intn(3) == 0 {
		// a sub-second grid whose span is a whole multiple of the step (the last point is the end itself): quotients such
		// as 0.3 / 0.1 or 1.2 / 0.4 are not whole in binary floating point
		stepMs := []int{100, 200, 400, 300, 700, 50}[r.Intn(6)]
		kk := 1 + r.Intn(12)
		start := mBase + r.Intn(span/2+1)
		sm := []int{0, 0, 100, 900, 500}[r.Intn(5)]
		endMs := sm + kk*stepMs
		evs = append(evs, evalIn{Start: start, StartMs: sm, End: start + endMs/1000, EndMs: endMs % 1000, Step: 0, StepMs: stepMs})
	}
	if r.Intn(3) == 0 {
		// evaluation instants that are not whole milliseconds (records carry such timestamps: the window edges are exact)
		ns := []int{1, 250000, 499999, 2}[r.Intn(4)]
		start := mBase + r.Intn(span/2+1)
		step := 1 + r.Intn(3)
		evs = append(evs, evalIn{Start: start, StartNs: ns, End: start + step*(1+r.Intn(4)), EndNs: ns, Step: step})
		evs = append(evs, evalIn{Start: start + step, StartNs: ns, End: start + step, EndNs: ns, Step: 0})
	}
	// an instant evaluation somewhere on the first grid
	k := r.Intn((evs[0].End-evs[0].Start)/evs[0].Step + 1)
	t := evs[0].Start + k*evs[0].Step
	evs = append(evs, evalIn{Start: t, End: t, Step: 0})
	return evs
}

func genMetric(r *rand.Rand, mode string) metricIn {
	span := 12 + r.Intn(10)
	in := metricIn{Reps: 1}
	switch mode {
	case "window":
		in.Recs = genMetricRecs(r, r.Intn(14), span, true)
		in.Expr = *genRange(r, 1, true)
		in.Evals = genEvals(r, span)
		if r.Intn(10) == 0 {
			// an order statistic over windows that overlap (points survive from one step to the next) and values that go up and down
			in.Recs = genMetricRecs(r, 6+r.Intn(10), span, false)
			e := genRange(r, 1, true)
			for e.Op != "quantile_over_time" && e.Op != "min_over_time" && e.Op != "max_over_time" && e.Op != "first_over_time" && e.Op != "stdvar_over_time" && e.Op != "stddev_over_time" {
				e = genRange(r, 1, true)
			}
			e.Range = []int{10, 15, 20}[r.Intn(3)]
			in.Expr = *e
			in.Evals = []evalIn{{Start: mBase, End: mBase + span, Step: []int{1, 2, 3, 5}[r.Intn(4)]}, {Start: mBase + span/2, End: mBase + span/2}}
		}
	case "prec":
		ops := []string{"or", "and", "unless", "eq", "neq", "gt", "gte", "lt", "lte", "add", "sub", "mul", "div", "mod", "pow"}
		vals := [][]int{{1, 1}, {2, 1}, {3, 1}, {1, 2}, {0, 1}, {5, 1}, {3, 2}}
		n := 2 + r.Intn(4)
		f := &flatIn{}
		for i := 0; i < n; i++ {
			f.Operands = append(f.Operands, vals[r.Intn(len(vals))])
			if i > 0 {
				f.Ops = append(f.Ops, ops[r.Intn(len(ops))])
			}
		}
		if n >= 3 && r.Intn(2) == 0 {
			a := 1 + r.Intn(n-1)
			b := a + 1 + r.Intn(n-a)
			if !(a == 1 && b == n) {
				f.Open, f.Close = a, b
				f.Dbl = r.Intn(4) == 0
			}
		}
		f.Lits = make([]bool, n)
		if r.Intn(12) == 0 {
			// a signed literal opening a chain of powers: -2 ^ 3 ^ vector(2) is (-2) ^ (3 ^ 2); the sign belongs to the literal
			f.Operands = []Ints{[][]int{{-2, 1}, {2, 1}, {-3, 1}, {-1, 2}}[r.Intn(4)], [][]int{{3, 1}, {2, 1}, {1, 1}}[r.Intn(3)], [][]int{{2, 1}, {1, 1}, {3, 1}}[r.Intn(3)]}
			f.Ops = []string{"pow", "pow"}
			f.Lits = []bool{true, true, false}
			f.Open, f.Close, f.Dbl = 0, 0, false
			if r.Intn(3) == 0 {
				f.Operands, f.Ops, f.Lits = f.Operands[:2], f.Ops[:1], []bool{true, false}
				f.Operands[1] = Ints{3, 1}
			}
		} else if r.Intn(3) == 0 {
			// scalar literals among the operands (arithmetic only: set operators take no scalars; the first operand stays a
			// vector so that the result is one): parentheses must survive whatever the evaluation does with literal operands
			arith := []string{"add", "sub", "mul", "div", "mod", "pow", "mul", "mod"}
			big := [][]int{{1, 1}, {2, 1}, {3, 1}, {4, 1}, {6, 1}, {5, 1}, {0, 1}, {1, 2}}
			for i := range f.Ops {
				f.Ops[i] = arith[r.Intn(len(arith))]
			}
			if n >= 3 && r.Intn(2) == 0 {
				// (v op c1) op c2 ...: two scalar operations in a row, the first one parenthesised
				f.Open, f.Close = 1, 2
			}
			for i := range f.Operands {
				f.Operands[i] = big[r.Intn(len(big))]
				// (never two literals as operands of one operator: scalar-with-scalar sub-expressions are not supported by the engine)
				// unless a parenthesis stands between them: (v * 6) % 4
				sep := f.Close == i || f.Open == i+1
				f.Lits[i] = i > 0 && (!f.Lits[i-1] || sep) && r.Intn(3) != 0
			}
		}
		if r.Intn(12) == 0 {
			// (v * c1) % c2, (v + c1) * c2 ...: a parenthesised scalar operation followed by another of the same or a lower level -
			// the constants must not be folded across the parenthesis
			f.Operands = []Ints{[][]int{{3, 1}, {5, 1}, {2, 1}, {7, 1}}[r.Intn(4)], [][]int{{6, 1}, {7, 1}, {5, 1}, {2, 1}}[r.Intn(4)], [][]int{{4, 1}, {3, 1}, {2, 1}, {5, 1}}[r.Intn(4)]}
			f.Ops = []string{pick(r, []string{"mul", "add", "sub", "div"}), pick(r, []string{"mod", "mul", "div", "sub", "pow", "mod"})}
			f.Lits = []bool{false, true, true}
			f.Open, f.Close, f.Dbl = 1, 2, false
			if r.Intn(3) == 0 {
				// ... inside a longer chain
				f.Operands = append([]Ints{{1, 1}}, f.Operands...)
				f.Ops = append([]string{pick(r, []string{"add", "sub", "mul"})}, f.Ops...)
				f.Lits = append([]bool{false}, f.Lits...)
				f.Open, f.Close = 2, 3
			}
		}
		in.Flat = f
		in.Recs = []MemRec{}
		in.Expr = *litExpr([]int{0, 1})
		in.Evals = []evalIn{{Start: mBase, End: mBase, Step: 0}}
		if r.Intn(4) == 0 {
			in.Evals = append(in.Evals, evalIn{Start: mBase, End: mBase + 4, Step: 2})
		}
	case "vecagg":
		in.Recs, in.Expr, in.Evals = genVecAggCase(r)
		if r.Intn(6) == 0 {
			in = genTopkWide(r)
		}
	case "binop":
		in.Recs, in.Expr, in.Evals = genBinOpCase(r)
		if r.Intn(20) == 0 {
			// a query that is one number: a scalar at an instant, one label-less series over a range (sub-second steps included)
			in.Expr = *litExpr([][]int{{0, 1}, {2, 1}, {-3, 1}, {1, 2}, {5, 2}, {1000, 1}, {-1, 4}}[r.Intn(7)])
			in.Evals = []evalIn{{Start: mBase + 60, End: mBase + 60}, {Start: mBase, End: mBase + 90, Step: 30}, {Start: mBase + 10, End: mBase + 10, Step: 5},
				{Start: mBase, End: mBase + 2, StepMs: 500, StartMs: 250, EndMs: 750}, {Start: mBase + 7, End: mBase + 8, Step: 2}}
		}
	case "series":
		// many labels, values that are prefixes / concatenations of one another, everything inside one wide window
		names := []string{"a", "ab", "b", "abc", "c", "bc", "x"}
		vals := []string{"", "c", "bc", "b", "abc", "a", "\xff", "b\xffc", "c b:bc", "c ab:bc", "c] map[b:bc"} // the last three print like two labels
		n := 2 + r.Intn(10)
		sets := make([][][2][]int, 2+r.Intn(4))
		for i := range sets {
			used := map[string]bool{}
			for k := r.Intn(6); k > 0; k-- {
				nm := pick(r, names)
				if !used[nm] {
					used[nm] = true
					sets[i] = append(sets[i], [2][]int{B(nm), B(pick(r, vals))})
				}
			}
		}
		if r.Intn(6) == 0 {
			// the same values under swapped names, and one value under both names
			sets = [][][2][]int{{{B("a"), B("c")}, {B("b"), B("bc")}}, {{B("a"), B("bc")}, {B("b"), B("c")}}, {{B("a"), B("c")}, {B("b"), B("c")}}, {{B("a"), B("bc")}, {B("b"), B("bc")}}}
		} else if r.Intn(5) == 0 {
			// two label sets that read alike once printed without quoting: {a="c b:bc"} and {a="c", b="bc"}
			sets[0] = [][2][]int{{B("a"), B("c b:bc")}}
			sets[1] = [][2][]int{{B("a"), B("c")}, {B("b"), B("bc")}}
		}
		for i := 0; i < n; i++ {
			set := sets[r.Intn(len(sets))]
			attrs := make([][2][]int, len(set), len(set)+1)
			copy(attrs, set)
			r.Shuffle(len(attrs), func(x, y int) { attrs[x], attrs[y] = attrs[y], attrs[x] })
			attrs = append(attrs, [2][]int{B("v"), B(pick(r, []string{"1", "2", "3"}))})
			in.Recs = append(in.Recs, MemRec{ID: i + 1, TS: []int{mBase + 1 + i, 0}, Line: B("m"), Attrs: attrs, Doc: [][2][]int{}})
		}
		if r.Intn(6) == 0 {
			// an outer grouping over the union of two differently grouped aggregations of the same logs: the grouping clause of
			// the query is the same for every sample and every step
			n1, n2 := pick(r, names), pick(r, names)
			mk := func(id int, g grpIn) *mexprIn {
				rg := &mexprIn{T: "range", ID: id, Op: "count_over_time", Sel: []matcherIn{}, Param: Ints{0, 1}, Grp: noGrp(), V: Ints{0, 1}, Unwrap: unwrapIn{Label: Ints{}}, Range: 100,
					Stages: []stageIn{{T: "drop", Labels: IntsList{B("msg"), B("v")}}}}
				return &mexprIn{T: "vecagg", Op: "sum", Grp: g, E: rg, Sel: []matcherIn{}, Stages: []stageIn{}, Param: Ints{0, 1}, V: Ints{0, 1}, Unwrap: unwrapIn{Label: Ints{}}}
			}
			u := &mexprIn{T: "binop", Op: "or", A: mk(1, grpIn{Mode: "by", Labels: IntsList{B(n2)}}), B: mk(2, grpIn{Mode: "by", Labels: IntsList{B(n1)}}),
				Sel: []matcherIn{}, Stages: []stageIn{}, Param: Ints{0, 1}, V: Ints{0, 1}, Unwrap: unwrapIn{Label: Ints{}}, Grp: noGrp()}
			in.Expr = mexprIn{T: "vecagg", Op: "sum", Grp: grpIn{Mode: "by", Labels: IntsList{B(n1), B(n2)}}, E: u,
				Sel: []matcherIn{}, Stages: []stageIn{}, Param: Ints{0, 1}, V: Ints{0, 1}, Unwrap: unwrapIn{Label: Ints{}}}
			in.Evals = []evalIn{{Start: mBase + 50, End: mBase + 50, Step: 0}, {Start: mBase + 40, End: mBase + 60, Step: 10}}
			in.Reps = 4
			return in
		}
		if r.Intn(7) == 0 {
			// two sides that hold ONE series each, of different label sets: nothing joins (and the set operators see two series)
			nm, v1, v2 := "", "", ""
			for _, set := range sets {
				for _, kv := range set {
					for _, set2 := range sets {
						for _, kv2 := range set2 {
							if S(kv[0]) == S(kv2[0]) && S(kv[1]) != S(kv2[1]) && isPlainValue(S(kv[1])) && isPlainValue(S(kv2[1])) {
								nm, v1, v2 = S(kv[0]), S(kv[1]), S(kv2[1])
							}
						}
					}
				}
			}
			if nm != "" {
				eps, _ := json.Marshal(&ReAST{T: "eps"})
				mk := func(id int, val string) *mexprIn {
					rg := &mexprIn{T: "range", ID: id, Op: "count_over_time", Sel: []matcherIn{{Label: B(nm), Op: "eq", Val: B(val), Re: eps}}, Param: Ints{0, 1}, Grp: noGrp(), V: Ints{0, 1},
						Unwrap: unwrapIn{Label: Ints{}}, Range: 100, Stages: []stageIn{{T: "drop", Labels: IntsList{B("msg"), B("v")}}}}
					return &mexprIn{T: "vecagg", Op: "sum", Grp: grpIn{Mode: "by", Labels: IntsList{B(nm)}}, E: rg, Sel: []matcherIn{}, Stages: []stageIn{}, Param: Ints{0, 1}, V: Ints{0, 1}, Unwrap: unwrapIn{Label: Ints{}}}
				}
				in.Expr = mexprIn{T: "binop", Op: pick(r, []string{"div", "add", "sub", "mul", "gt", "or", "and", "unless"}), A: mk(1, v1), B: mk(2, v2),
					Sel: []matcherIn{}, Stages: []stageIn{}, Param: Ints{0, 1}, V: Ints{0, 1}, Unwrap: unwrapIn{Label: Ints{}}, Grp: noGrp()}
				in.Evals = []evalIn{{Start: mBase + 50, End: mBase + 50, Step: 0}, {Start: mBase + 40, End: mBase + 60, Step: 10}}
				in.Reps = 2
				return in
			}
		}
		if r.Intn(7) == 0 {
			// the series without labels is ONE series however it came about: no grouping clause, by (), by (a label nobody has),
			// without (every label) - on the two sides of a binary operation they meet
			mk := func(id int, g grpIn, op string) *mexprIn {
				rg := &mexprIn{T: "range", ID: id, Op: "count_over_time", Sel: []matcherIn{}, Param: Ints{0, 1}, Grp: noGrp(), V: Ints{0, 1}, Unwrap: unwrapIn{Label: Ints{}}, Range: 100,
					Stages: []stageIn{{T: "drop", Labels: IntsList{B("msg"), B("v")}}}}
				return &mexprIn{T: "vecagg", Op: op, Grp: g, E: rg, Sel: []matcherIn{}, Stages: []stageIn{}, Param: Ints{0, 1}, V: Ints{0, 1}, Unwrap: unwrapIn{Label: Ints{}}}
			}
			all := IntsList{}
			for _, nm := range names {
				all = append(all, B(nm))
			}
			empties := []grpIn{noGrp(), {Mode: "by", Labels: IntsList{}}, {Mode: "by", Labels: IntsList{B("nope")}}, {Mode: "without", Labels: all}, noGrp()}
			ga, gb := empties[r.Intn(len(empties))], empties[r.Intn(len(empties))]
			sideA, sideB := mk(1, ga, pick(r, []string{"sum", "count", "max"})), mk(2, gb, pick(r, []string{"sum", "min"}))
			// ... and vector(x) is that series too
			vec := &mexprIn{T: "vector", V: [][]int{{2, 1}, {1, 2}, {3, 1}}[r.Intn(3)], Sel: []matcherIn{}, Stages: []stageIn{}, Param: Ints{0, 1}, Unwrap: unwrapIn{Label: Ints{}}, Grp: noGrp()}
			switch r.Intn(4) {
			case 0:
				sideA, sideB = vec, mk(1, gb, pick(r, []string{"sum", "min"})) // (range expressions are numbered from 1 without gaps)
			case 1:
				sideB = vec
			}
			in.Expr = mexprIn{T: "binop", Op: pick(r, []string{"or", "and", "unless", "div", "add", "eq", "sub"}), A: sideA, B: sideB,
				Sel: []matcherIn{}, Stages: []stageIn{}, Param: Ints{0, 1}, V: Ints{0, 1}, Unwrap: unwrapIn{Label: Ints{}}, Grp: noGrp()}
			in.Evals = []evalIn{{Start: mBase + 50, End: mBase + 50, Step: 0}, {Start: mBase + 40, End: mBase + 60, Step: 10}}
			in.Reps = 2
			return in
		}
		e := &mexprIn{T: "range", ID: 1, Sel: []matcherIn{}, Param: Ints{0, 1}, Grp: noGrp(), V: Ints{0, 1}, Unwrap: unwrapIn{Label: Ints{}}, Range: 100}
		switch r.Intn(3) {
		case 0:
			e.Op = "count_over_time"
			e.Stages = []stageIn{{T: "drop", Labels: IntsList{B("msg"), B("v")}}}
		case 1:
			e.Op = []string{"max_over_time", "min_over_time", "avg_over_time", "last_over_time"}[r.Intn(4)]
			e.Stages = []stageIn{{T: "drop", Labels: IntsList{B("msg")}}}
			e.Unwrap = unwrapIn{On: true, Label: B("v")}
			e.Grp = grpIn{Mode: "by", Labels: IntsList{B(pick(r, names)), B(pick(r, names))}}
		default:
			e.Op = []string{"max_over_time", "min_over_time", "first_over_time"}[r.Intn(3)]
			e.Stages = []stageIn{{T: "drop", Labels: IntsList{B("msg")}}}
			e.Unwrap = unwrapIn{On: true, Label: B("v")}
			e.Grp = grpIn{Mode: "without", Labels: IntsList{B("v"), B(pick(r, names))}}
		}
		if r.Intn(2) == 0 {
			// a second grouping on top of the first: the series of the inner aggregation keep their identity from step to
			// step whatever the outer clause does with their label sets
			g := grpIn{Mode: []string{"by", "without"}[r.Intn(2)], Labels: IntsList{B(pick(r, names))}}
			if r.Intn(2) == 0 {
				g.Labels = append(g.Labels, B(pick(r, []string{"v", "x", "c"})))
			}
			e = &mexprIn{T: "vecagg", Op: []string{"count", "sum", "max"}[r.Intn(3)], Grp: g, E: e,
				Sel: []matcherIn{}, Stages: []stageIn{}, Param: Ints{0, 1}, V: Ints{0, 1}, Unwrap: unwrapIn{Label: Ints{}}}
		}
		in.Expr = *e
		in.Evals = []evalIn{{Start: mBase + 50, End: mBase + 50, Step: 0}, {Start: mBase + 40, End: mBase + 60, Step: 10}}
		if r.Intn(4) == 0 {
			// short overlapping windows; one label set logs all the time, the others fall silent for longer than the range
			// and come back: a series that returns is still ONE series at every step
			rng := e
			for rng.T != "range" {
				rng = rng.E
			}
			rng.Range = 4
			in.Recs = in.Recs[:0]
			id := 0
			add := func(set [][2][]int, sec int) {
				id++
				attrs := append([][2][]int{}, set...)
				attrs = append(attrs, [2][]int{B("v"), B(pick(r, []string{"1", "2", "3"}))})
				in.Recs = append(in.Recs, MemRec{ID: id, TS: []int{mBase + sec, 500000000}, Line: B("m"), Attrs: attrs, Doc: [][2][]int{}})
			}
			for sec := 1; sec <= 30; sec++ {
				add(sets[0], sec)
				for k := 1; k < len(sets); k++ {
					if sec == 2+k || sec == 14+k || sec == 15+k || sec == 27 {
						add(sets[k], sec)
					}
				}
			}
			in.Evals = []evalIn{{Start: mBase + 2, End: mBase + 32, Step: 2}, {Start: mBase + 16, End: mBase + 16, Step: 0}}
			in.Reps = 2
			return in
		}
		if r.Intn(2) == 0 {
			// samples keep arriving between the steps (never on a window edge: the range is 100 s)
			for i := range in.Recs {
				in.Recs[i].TS = []int{mBase + 1 + 5*i, 0}
			}
			in.Evals[1] = evalIn{Start: mBase + 20, End: mBase + 60, Step: 10}
		}
		in.Reps = 8
	}
	return in
}

func (famMetric) Gen(r *rand.Rand, n int, opt map[string]string) []any {
	out := make([]any, 0, n)
	for i := 0; i < n; i++ {
		out = append(out, genMetric(r, opt["mode"]))
	}
	return out
}

// wide-window inputs: every record lies inside every window, so C11/C12 cases stay away from window edges (C09's subject)
func wideRecs(r *rand.Rand, withV bool) []MemRec {
	n := 1 + r.Intn(10)
	appVals, zoneVals := []string{"a", "b", "c"}, []string{"x", "y"}
	if r.Intn(3) == 0 {
		appVals, zoneVals = []string{"a", "b"}, []string{"a", "b"}
	}
	// one case in three has only negative values (a maximum of negatives is negative, a minimum of positives positive)
	vpool := []string{"1", "2", "3", "0.5"}
	switch r.Intn(4) {
	case 0:
		vpool = []string{"-1", "-2", "-3", "-0.5"}
	case 1:
		vpool = []string{"-1", "2", "-3", "0.5", "0"}
	}
	var recs []MemRec
	for i := 0; i < n; i++ {
		rec := MemRec{ID: i + 1, TS: []int{mBase + 1 + i, 0}, Line: B("m"), Doc: [][2][]int{}}
		// (the two labels share values: {app=a, zone=b} and {app=b, zone=a} are different groups, so are {a, a} and {b, b})
		rec.Attrs = [][2][]int{{B("app"), B(pick(r, appVals))}}
		if r.Intn(3) != 0 {
			rec.Attrs = append(rec.Attrs, [2][]int{B("zone"), B(pick(r, zoneVals))})
		}
		if withV {
			rec.Attrs = append(rec.Attrs, [2][]int{B("v"), B(pick(r, vpool))})
		}
		recs = append(recs, rec)
	}
	return recs
}

func wideRange(id int, r *rand.Rand, withV bool) *mexprIn {
	e := &mexprIn{T: "range", ID: id, Sel: []matcherIn{}, Param: Ints{0, 1}, Grp: noGrp(), V: Ints{0, 1}, Unwrap: unwrapIn{Label: Ints{}}, Range: 100}
	if withV {
		e.Op = []string{"sum_over_time", "max_over_time", "avg_over_time"}[r.Intn(3)]
		e.Stages = []stageIn{{T: "drop", Labels: IntsList{B("msg")}}}
		e.Unwrap = unwrapIn{On: true, Label: B("v")}
		if e.Op != "sum_over_time" {
			e.Grp = grpIn{Mode: "without", Labels: IntsList{B("v")}}
		}
	} else {
		e.Op = []string{"count_over_time", "bytes_over_time"}[r.Intn(2)]
		e.Stages = []stageIn{{T: "drop", Labels: IntsList{B("msg"), B("v")}}}
	}
	return e
}

func randClause(r *rand.Rand) grpIn {
	names := []string{"app", "zone", "nope", "v"}
	switch r.Intn(4) {
	case 0:
		return noGrp()
	case 1:
		return grpIn{Mode: []string{"by", "without"}[r.Intn(2)], Labels: IntsList{}}
	}
	g := grpIn{Mode: []string{"by", "without"}[r.Intn(2)], Labels: IntsList{}}
	used := map[string]bool{}
	for k := 1 + r.Intn(2); k > 0; k-- {
		nm := pick(r, names)
		if !used[nm] {
			used[nm] = true
			g.Labels = append(g.Labels, B(nm))
		}
	}
	return g
}

var wideEvals = []evalIn{{Start: mBase + 50, End: mBase + 50, Step: 0}, {Start: mBase + 40, End: mBase + 70, Step: 15}}

func genVecAggCase(r *rand.Rand) ([]MemRec, mexprIn, []evalIn) {
	withV := r.Intn(3) == 0
	recs := wideRecs(r, withV)
	e := wideRange(1, r, withV)
	depth := 1 + r.Intn(2)
	fractional := withV && e.Op == "avg_over_time"
	for d := 0; d < depth; d++ {
		ops := []string{"sum", "avg", "min", "max", "count", "stddev", "stdvar"}
		if fractional {
			// keep the exact rationals of the specification within 31 bits: no variance of averages
			ops = []string{"sum", "min", "max", "count"}
		}
		op := ops[r.Intn(len(ops))]
		if op == "stddev" && d < depth-1 {
			op = "stdvar" // a standard deviation is irrational: the specification compares it (through its square) only as the outermost value
		}
		if op == "avg" || op == "stddev" || op == "stdvar" {
			fractional = true
		}
		e = &mexprIn{T: "vecagg", Op: op, Grp: randClause(r), E: e,
			Sel: []matcherIn{}, Stages: []stageIn{}, Param: Ints{0, 1}, V: Ints{0, 1}, Unwrap: unwrapIn{Label: Ints{}}}
	}
	switch r.Intn(4) {
	case 0:
		e = &mexprIn{T: "vecagg", Op: []string{"topk", "bottomk"}[r.Intn(2)], K: []int{1, 2, 5}[r.Intn(3)], Grp: randClause(r), E: e,
			Sel: []matcherIn{}, Stages: []stageIn{}, Param: Ints{0, 1}, V: Ints{0, 1}, Unwrap: unwrapIn{Label: Ints{}}}
	case 1:
		e = &mexprIn{T: "vecagg", Op: []string{"sort", "sort_desc"}[r.Intn(2)], Grp: noGrp(), E: e,
			Sel: []matcherIn{}, Stages: []stageIn{}, Param: Ints{0, 1}, V: Ints{0, 1}, Unwrap: unwrapIn{Label: Ints{}}}
	}
	if r.Intn(3) == 0 {
		// groups that exist at one step and not at the next: records on even seconds, window edges on odd seconds
		for i := range recs {
			recs[i].TS = []int{mBase + 2*(i+1) + 10*r.Intn(3), 0}
		}
		sort.SliceStable(recs, func(a, b int) bool { return recs[a].TS[0] < recs[b].TS[0] })
		for i := range recs {
			recs[i].ID = i + 1
		}
		for x := e; x != nil; x = x.E {
			if x.T == "range" {
				x.Range = 4 + 2*r.Intn(3)
			}
		}
		return recs, *e, []evalIn{{Start: mBase + 1, End: mBase + 49, Step: 6}, {Start: mBase + 13, End: mBase + 13, Step: 0}}
	}
	return recs, *e, wideEvals
}

// genTopkWide: one group of 6-9 series with pairwise distinct values and k of 3-6, so that the bounded heap of
// topk / bottomk is full and replaces its root several times; the order in which the series arrive is Go's map
// order, re-randomised on every one of the repeated evaluations.
func genTopkWide(r *rand.Rand) metricIn {
	in := metricIn{Reps: 6}
	m := 6 + r.Intn(4)
	vals := r.Perm(m)
	id := 0
	for sidx := 0; sidx < m; sidx++ {
		for j := 0; j <= vals[sidx]; j++ {
			id++
			in.Recs = append(in.Recs, MemRec{ID: id, TS: []int{mBase + 1 + id%30, 0}, Line: B("m"), Doc: [][2][]int{},
				Attrs: [][2][]int{{B("app"), B(fmt.Sprintf("s%d", sidx+1))}}})
		}
	}
	sort.SliceStable(in.Recs, func(a, b int) bool { return in.Recs[a].TS[0] < in.Recs[b].TS[0] })
	for i := range in.Recs {
		in.Recs[i].ID = i + 1
	}
	e := &mexprIn{T: "range", ID: 1, Op: "count_over_time", Sel: []matcherIn{}, Param: Ints{0, 1}, Grp: noGrp(), V: Ints{0, 1},
		Unwrap: unwrapIn{Label: Ints{}}, Range: 100, Stages: []stageIn{{T: "drop", Labels: IntsList{B("msg")}}}}
	in.Expr = mexprIn{T: "vecagg", Op: []string{"topk", "bottomk"}[r.Intn(2)], K: 3 + r.Intn(4), Grp: noGrp(), E: e,
		Sel: []matcherIn{}, Stages: []stageIn{}, Param: Ints{0, 1}, V: Ints{0, 1}, Unwrap: unwrapIn{Label: Ints{}}}
	in.Evals = wideEvals
	return in
}

func vecLeaf(id int, r *rand.Rand, app string) *mexprIn {
	e := &mexprIn{T: "range", ID: id, Op: []string{"count_over_time", "bytes_over_time"}[r.Intn(2)], Param: Ints{0, 1}, Grp: noGrp(), V: Ints{0, 1},
		Unwrap: unwrapIn{Label: Ints{}}, Range: 100, Stages: []stageIn{{T: "drop", Labels: IntsList{B("msg"), B("v")}}}}
	eps, _ := json.Marshal(&ReAST{T: "eps"})
	e.Sel = []matcherIn{}
	if app != "" {
		e.Sel = []matcherIn{{Label: B("app"), Op: "eq", Val: B(app), Re: eps}}
	}
	g := []grpIn{{Mode: "by", Labels: IntsList{B("zone")}}, {Mode: "by", Labels: IntsList{B("zone"), B("app")}}, {Mode: "without", Labels: IntsList{B("app")}}, noGrp()}[r.Intn(4)]
	return &mexprIn{T: "vecagg", Op: []string{"sum", "max", "count"}[r.Intn(3)], Grp: g, E: e, Sel: []matcherIn{}, Stages: []stageIn{}, Param: Ints{0, 1}, V: Ints{0, 1},
		Unwrap: unwrapIn{Label: Ints{}}}
}

func litExpr(p []int) *mexprIn {
	return &mexprIn{T: "lit", V: p, Sel: []matcherIn{}, Stages: []stageIn{}, Param: Ints{0, 1}, Unwrap: unwrapIn{Label: Ints{}}, Grp: noGrp()}
}

func genBinOpCase(r *rand.Rand) ([]MemRec, mexprIn, []evalIn) {
	recs := wideRecs(r, false)
	arith := []string{"add", "sub", "mul", "div", "mod", "pow"}
	cmpo := []string{"eq", "neq", "gt", "gte", "lt", "lte"}
	setops := []string{"and", "or", "unless"}
	scalars := [][]int{{0, 1}, {2, 1}, {-3, 1}, {1, 2}, {1, 1}, {5, 2}}
	bin := func(op string, a, b *mexprIn, bl bool) *mexprIn {
		return &mexprIn{T: "binop", Op: op, Bool: bl, A: a, B: b, Sel: []matcherIn{}, Stages: []stageIn{}, Param: Ints{0, 1}, V: Ints{0, 1},
			Unwrap: unwrapIn{Label: Ints{}}, Grp: noGrp()}
	}
	apps := []string{"a", "b", "c", ""}
	left, right := vecLeaf(1, r, pick(r, apps)), vecLeaf(2, r, pick(r, apps))
	var e *mexprIn
	switch r.Intn(6) {
	case 5: // comparisons over NaN samples (x / 0, x % 0): only != holds, on either side and between two NaNs
		nan := func(x *mexprIn) *mexprIn { return bin(pick(r, []string{"div", "mod"}), x, litExpr([]int{0, 1}), false) }
		switch r.Intn(3) {
		case 0:
			e = bin(pick(r, cmpo), nan(left), litExpr(scalars[r.Intn(len(scalars))]), r.Intn(2) == 0)
		case 1:
			e = bin(pick(r, cmpo), litExpr(scalars[r.Intn(len(scalars))]), nan(left), r.Intn(2) == 0)
		default:
			e = bin(pick(r, cmpo), nan(left), nan(right), r.Intn(2) == 0)
		}
	case 0: // vector o vector, arithmetic
		op := pick(r, arith)
		if op == "pow" {
			op = "mul" // exponents stay scalars (integers) so that results stay exact rationals
		}
		e = bin(op, left, right, false)
	case 1: // set operators
		e = bin(pick(r, setops), left, right, false)
	case 2: // vector o scalar on either side
		op := pick(r, arith)
		sc := scalars[r.Intn(len(scalars))]
		if op == "pow" {
			sc = [][]int{{0, 1}, {2, 1}, {-3, 1}, {1, 1}}[r.Intn(4)] // integer exponents / bases
		}
		if r.Intn(2) == 0 {
			if op == "pow" && sc[0] <= 0 {
				sc = []int{2, 1}
			}
			e = bin(op, litExpr(sc), left, false)
		} else {
			e = bin(op, left, litExpr(sc), false)
		}
	case 3: // comparison at top level (vector o vector or with a scalar, with and without bool)
		if r.Intn(2) == 0 {
			e = bin(pick(r, cmpo), left, right, r.Intn(2) == 0)
		} else if r.Intn(2) == 0 {
			e = bin(pick(r, cmpo), left, litExpr(scalars[r.Intn(len(scalars))]), r.Intn(2) == 0)
		} else {
			e = bin(pick(r, cmpo), litExpr(scalars[r.Intn(len(scalars))]), left, r.Intn(2) == 0)
		}
	default: // nested arithmetic: (left op scalar) op right
		inner := bin(pick(r, []string{"add", "sub", "mul"}), left, litExpr(scalars[r.Intn(len(scalars))]), false)
		e = bin(pick(r, []string{"add", "sub", "mul", "div", "and", "or", "unless"}), inner, right, false)
	}
	if r.Intn(10) == 0 {
		// vector(x) against an aggregation that keeps no label: both are THE series without labels
		left.Grp = []grpIn{noGrp(), {Mode: "by", Labels: IntsList{}}, {Mode: "by", Labels: IntsList{B("nolabel")}}}[r.Intn(3)]
		vec := &mexprIn{T: "vector", V: [][]int{{2, 1}, {1, 2}, {1, 1}, {5, 2}, {0, 1}}[r.Intn(5)], Sel: []matcherIn{}, Stages: []stageIn{}, Param: Ints{0, 1}, Unwrap: unwrapIn{Label: Ints{}}, Grp: noGrp()}
		op := pick(r, []string{"add", "sub", "mul", "div", "and", "or", "unless", "gt", "eq"})
		if r.Intn(2) == 0 {
			e = bin(op, left, vec, false)
		} else {
			left.E.ID = 1
			e = bin(op, vec, left, false)
		}
	}
	if r.Intn(10) == 0 {
		// vector(x) under scalar operations over several steps: every step starts from x
		vec := &mexprIn{T: "vector", V: [][]int{{2, 1}, {1, 2}, {1, 1}, {3, 1}}[r.Intn(4)], Sel: []matcherIn{}, Stages: []stageIn{}, Param: Ints{0, 1}, Unwrap: unwrapIn{Label: Ints{}}, Grp: noGrp()}
		op := pick(r, []string{"add", "mul", "sub", "div"})
		sc := litExpr([][]int{{3, 1}, {2, 1}, {1, 2}, {5, 1}}[r.Intn(4)])
		switch r.Intn(3) {
		case 0:
			e = bin(op, vec, sc, false)
		case 1:
			e = bin(op, sc, vec, false)
		default:
			// (an aggregation that is empty at some steps) or vector(0), then a scalar operation
			left.Grp = noGrp()
			left.E.ID = 1
			e = bin(op, bin("or", left, vec, false), sc, false)
		}
		return recs, *e, []evalIn{{Start: mBase + 1, End: mBase + 49, Step: 6}, {Start: mBase + 13, End: mBase + 13, Step: 0}, {Start: mBase + 300, End: mBase + 330, Step: 10}}
	}
	if r.Intn(2) == 0 {
		// vectors that change from step to step: records on even seconds, window edges on odd seconds (away from C09's subject)
		for i := range recs {
			recs[i].TS = []int{mBase + 2*(i+1) + 10*r.Intn(3), 0}
		}
		sort.SliceStable(recs, func(a, b int) bool { return recs[a].TS[0] < recs[b].TS[0] })
		for i := range recs {
			recs[i].ID = i + 1
		}
		var narrow func(x *mexprIn)
		narrow = func(x *mexprIn) {
			if x == nil {
				return
			}
			if x.T == "range" {
				x.Range = 4 + 2*r.Intn(3)
			}
			narrow(x.E)
			narrow(x.A)
			narrow(x.B)
		}
		narrow(e)
		return recs, *e, []evalIn{{Start: mBase + 1, End: mBase + 49, Step: 6}, {Start: mBase + 13, End: mBase + 13, Step: 0}}
	}
	return recs, *e, wideEvals
}

// isPlainValue: a label value that can stand in a selector of a generated query as it is (printable ASCII, no quote or backslash).
func isPlainValue(v string) bool {
	for i := 0; i < len(v); i++ {
		if v[i] < 0x20 || v[i] > 0x7e || v[i] == '"' || v[i] == '\\' {
			return false
		}
	}
	return true
}
