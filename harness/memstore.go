package main

import (
	"go.opentelemetry.io/collector/pdata/plog"
	"strconv"
	"fmt"
	"context"
	"encoding/json"
	"regexp"
	"sort"
	"strings"

	"go.opentelemetry.io/collector/pdata/pcommon"

	"github.com/tdakkota/docker-logql/internal/iterators"
	"github.com/tdakkota/docker-logql/internal/logql"
	"github.com/tdakkota/docker-logql/internal/logql/logqlengine"
	"github.com/tdakkota/docker-logql/internal/logstorage"
	"github.com/tdakkota/docker-logql/internal/otelstorage"
)

// MemRec is one stored record in the abstract vocabulary.
type MemRec struct {
	ID    int        `json:"id"`
	TS    []int      `json:"ts"` // [seconds, nanoseconds]
	Line  []int      `json:"line"`
	Attrs [][2][]int `json:"attrs"`
	Doc   [][2][]int `json:"doc"` // ground-truth logfmt document the line encodes (specification only)
	// JSON ground truth (specification only): the document tree, whether the line is its reference encoding,
	// whether the line is - by construction - not an encoding of any document
	Jdoc   json.RawMessage `json:"jdoc,omitempty"`
	Jcanon bool            `json:"jcanon"`
	Jmal   bool            `json:"jmal"`
	Lmal   bool            `json:"lmal"`
	// what else a record carries: scope and resource attributes (each overrides the layers before it), trace / span id,
	// severity number, and attributes of its own whose values are not strings (V is the value's text)
	Scope [][2][]int  `json:"scope,omitempty"`
	Res   [][2][]int  `json:"res,omitempty"`
	Trace []int       `json:"trace,omitempty"`
	Span  []int       `json:"span,omitempty"`
	Sev   int         `json:"sev,omitempty"`
	Typed []typedAttr `json:"typed,omitempty"`
}

type typedAttr struct {
	K Ints   `json:"k"`
	T string `json:"t"` // int | dbl | bool
	V Ints   `json:"v"`
}

var sevNames = []string{"", "Trace", "Trace2", "Trace3", "Trace4", "Debug", "Debug2", "Debug3", "Debug4", "Info", "Info2", "Info3", "Info4",
	"Warn", "Warn2", "Warn3", "Warn4", "Error", "Error2", "Error3", "Error4", "Fatal", "Fatal2", "Fatal3", "Fatal4"}

func nonZero(b []int) bool {
	for _, x := range b {
		if x != 0 {
			return true
		}
	}
	return false
}

// CapsIn is a storage capability configuration.
type CapsIn struct {
	Label []string `json:"label"`
	Line  []string `json:"line"`
}

var opOf = map[string]logql.BinOp{"eq": logql.OpEq, "neq": logql.OpNotEq, "re": logql.OpRe, "nre": logql.OpNotRe}
var nameOfOp = map[logql.BinOp]string{logql.OpEq: "eq", logql.OpNotEq: "neq", logql.OpRe: "re", logql.OpNotRe: "nre"}

// MemStore is an in-memory logqlengine.Querier with configurable capabilities. It evaluates the
// conditions the engine offloads with its own few lines of code and records what it was asked and what
// it returned; the trace specification checks that event as an environment step.
type MemStore struct {
	t    *Trace
	scn  int
	recs []MemRec
	caps CapsIn
	// unsorted: the storage hands the records over in the order of the case, which need not be the time order
	unsorted bool
}

func (m *MemStore) Capabilities() (c logqlengine.QuerierCapabilities) {
	for _, o := range m.caps.Label {
		c.Label.Add(opOf[o])
	}
	for _, o := range m.caps.Line {
		c.Line.Add(opOf[o])
	}
	return c
}

func recLabels(r MemRec) map[string]string {
	l := map[string]string{}
	if nonZero(r.Trace) {
		l["trace_id"] = fmt.Sprintf("%x", []byte(S(r.Trace)))
	}
	if nonZero(r.Span) {
		l["span_id"] = fmt.Sprintf("%x", []byte(S(r.Span)))
	}
	if r.Sev >= 1 && r.Sev <= 24 {
		l["level"] = sevNames[r.Sev]
	}
	if len(r.Line) > 0 {
		l["msg"] = S(r.Line)
	}
	for _, kv := range r.Attrs {
		l[otelstorage.KeyToLabel(S(kv[0]))] = S(kv[1])
	}
	for _, ta := range r.Typed {
		l[otelstorage.KeyToLabel(S(ta.K))] = S(ta.V)
	}
	for _, kv := range r.Scope {
		l[otelstorage.KeyToLabel(S(kv[0]))] = S(kv[1])
	}
	for _, kv := range r.Res {
		l[otelstorage.KeyToLabel(S(kv[0]))] = S(kv[1])
	}
	return l
}

func (m *MemStore) SelectLogs(_ context.Context, start, end otelstorage.Timestamp, p logqlengine.SelectLogsParams) (iterators.Iterator[logstorage.Record], error) {
	var out []logstorage.Record
	var ids []int
	recs := make([]MemRec, len(m.recs))
	copy(recs, m.recs)
	if !m.unsorted {
		sort.SliceStable(recs, func(i, j int) bool {
			if recs[i].TS[0] != recs[j].TS[0] {
				return recs[i].TS[0] < recs[j].TS[0]
			}
			return recs[i].TS[1] < recs[j].TS[1]
		})
	}
	shared := map[string]pcommon.Map{}
next:
	for _, r := range recs {
		ts := otelstorage.Timestamp(uint64(r.TS[0])*1e9 + uint64(r.TS[1]))
		if ts < start || ts > end {
			continue
		}
		lbls := recLabels(r)
		for _, lm := range p.Labels {
			v := lbls[string(lm.Label)]
			var ok bool
			switch lm.Op {
			case logql.OpEq:
				ok = v == lm.Value
			case logql.OpNotEq:
				ok = v != lm.Value
			case logql.OpRe:
				ok = regexp.MustCompile("^(?:" + lm.Value + ")$").MatchString(v)
			case logql.OpNotRe:
				ok = !regexp.MustCompile("^(?:" + lm.Value + ")$").MatchString(v)
			}
			if !ok {
				continue next
			}
		}
		line := S(r.Line)
		for _, lf := range p.Line {
			var ok bool
			switch lf.Op {
			case logql.OpEq:
				ok = strings.Contains(line, lf.Value)
			case logql.OpNotEq:
				ok = !strings.Contains(line, lf.Value)
			case logql.OpRe:
				ok = regexp.MustCompile(lf.Value).MatchString(line)
			case logql.OpNotRe:
				ok = !regexp.MustCompile(lf.Value).MatchString(line)
			}
			if !ok {
				continue next
			}
		}
		// records with the same attributes share ONE map, as the Docker storage shares a container's resource
		// attributes between all of its records: a stage that writes through a label value corrupts the next record
		key := fmt.Sprint(r.Attrs, r.Typed)
		attrs, ok := shared[key]
		if !ok {
			attrs = pcommon.NewMap()
			for _, kv := range r.Attrs {
				attrs.PutStr(S(kv[0]), S(kv[1]))
			}
			for _, ta := range r.Typed {
				switch ta.T {
				case "int":
					n, _ := strconv.ParseInt(S(ta.V), 10, 64)
					attrs.PutInt(S(ta.K), n)
				case "dbl":
					f, _ := strconv.ParseFloat(S(ta.V), 64)
					attrs.PutDouble(S(ta.K), f)
				case "bool":
					attrs.PutBool(S(ta.K), S(ta.V) == "true")
				}
			}
			shared[key] = attrs
		}
		rec := logstorage.Record{Timestamp: ts, ObservedTimestamp: ts, Body: line, Attrs: otelstorage.Attrs(attrs)}
		mapOf := func(kvs [][2][]int) otelstorage.Attrs {
			m := pcommon.NewMap()
			for _, kv := range kvs {
				m.PutStr(S(kv[0]), S(kv[1]))
			}
			return otelstorage.Attrs(m)
		}
		if len(r.Scope) > 0 {
			rec.ScopeAttrs = mapOf(r.Scope)
		}
		if len(r.Res) > 0 {
			rec.ResourceAttrs = mapOf(r.Res)
		}
		if len(r.Trace) == 16 {
			copy(rec.TraceID[:], S(r.Trace))
		}
		if len(r.Span) == 8 {
			copy(rec.SpanID[:], S(r.Span))
		}
		rec.SeverityNumber = plog.SeverityNumber(r.Sev)
		out = append(out, rec)
		ids = append(ids, r.ID)
	}
	if m.t != nil {
		offL := []F{}
		for _, lm := range p.Labels {
			offL = append(offL, F{"label": B(string(lm.Label)), "op": nameOfOp[lm.Op], "val": B(lm.Value)})
		}
		offF := []F{}
		for _, lf := range p.Line {
			offF = append(offF, F{"op": nameOfOp[lf.Op], "val": B(lf.Value), "ip": lf.IP})
		}
		if ids == nil {
			ids = []int{}
		}
		m.t.Ev(m.scn, "StorageSelect", F{"start": sn(uint64(start)), "end": sn(uint64(end)), "offLabels": offL, "offLines": offF, "returned": ids})
	}
	return iterators.Slice(out), nil
}
