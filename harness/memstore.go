package main

import (
	"fmt"
	"context"
	"encoding/json"
	"regexp"
	"sort"
	"strings"

	"go.opentelemetry.io/collector/pdata/pcommon"

	"github.com/tdakkota/docker-logql/internal/iterators"
	"github.com/tdakkota/docker-logql/internal/logql"
	"github.com/tdakkota/docker-logql/internal/logql/logqlengine"
	"github.com/tdakkota/docker-logql/internal/logstorage"
	"github.com/tdakkota/docker-logql/internal/otelstorage"
)

// MemRec is one stored record in the abstract vocabulary.
type MemRec struct {
	ID    int        `json:"id"`
	TS    []int      `json:"ts"` // [seconds, nanoseconds]
	Line  []int      `json:"line"`
	Attrs [][2][]int `json:"attrs"`
	Doc   [][2][]int `json:"doc"` // ground-truth logfmt document the line encodes (specification only)
	// JSON ground truth (specification only): the document tree, whether the line is its reference encoding,
	// whether the line is - by construction - not an encoding of any document
	Jdoc   json.RawMessage `json:"jdoc,omitempty"`
	Jcanon bool            `json:"jcanon"`
	Jmal   bool            `json:"jmal"`
	Lmal   bool            `json:"lmal"`
}

// CapsIn is a storage capability configuration.
type CapsIn struct {
	Label []string `json:"label"`
	Line  []string `json:"line"`
}

var opOf = map[string]logql.BinOp{"eq": logql.OpEq, "neq": logql.OpNotEq, "re": logql.OpRe, "nre": logql.OpNotRe}
var nameOfOp = map[logql.BinOp]string{logql.OpEq: "eq", logql.OpNotEq: "neq", logql.OpRe: "re", logql.OpNotRe: "nre"}

// MemStore is an in-memory logqlengine.Querier with configurable capabilities. It evaluates the
// conditions the engine offloads with its own few lines of code and records what it was asked and what
// it returned; the trace specification checks that event as an environment step.
type MemStore struct {
	t    *Trace
	scn  int
	recs []MemRec
	caps CapsIn
	// unsorted: the storage hands the records over in the order of the case, which need not be the time order
	unsorted bool
}

func (m *MemStore) Capabilities() (c logqlengine.QuerierCapabilities) {
	for _, o := range m.caps.Label {
		c.Label.Add(opOf[o])
	}
	for _, o := range m.caps.Line {
		c.Line.Add(opOf[o])
	}
	return c
}

func recLabels(r MemRec) map[string]string {
	l := map[string]string{}
	if len(r.Line) > 0 {
		l["msg"] = S(r.Line)
	}
	for _, kv := range r.Attrs {
		l[otelstorage.KeyToLabel(S(kv[0]))] = S(kv[1])
	}
	return l
}

func (m *MemStore) SelectLogs(_ context.Context, start, end otelstorage.Timestamp, p logqlengine.SelectLogsParams) (iterators.Iterator[logstorage.Record], error) {
	var out []logstorage.Record
	var ids []int
	recs := make([]MemRec, len(m.recs))
	copy(recs, m.recs)
	if !m.unsorted {
		sort.SliceStable(recs, func(i, j int) bool {
			if recs[i].TS[0] != recs[j].TS[0] {
				return recs[i].TS[0] < recs[j].TS[0]
			}
			return recs[i].TS[1] < recs[j].TS[1]
		})
	}
	shared := map[string]pcommon.Map{}
next:
	for _, r := range recs {
		ts := otelstorage.Timestamp(uint64(r.TS[0])*1e9 + uint64(r.TS[1]))
		if ts < start || ts > end {
			continue
		}
		lbls := recLabels(r)
		for _, lm := range p.Labels {
			v := lbls[string(lm.Label)]
			var ok bool
			switch lm.Op {
			case logql.OpEq:
				ok = v == lm.Value
			case logql.OpNotEq:
				ok = v != lm.Value
			case logql.OpRe:
				ok = regexp.MustCompile("^(?:" + lm.Value + ")$").MatchString(v)
			case logql.OpNotRe:
				ok = !regexp.MustCompile("^(?:" + lm.Value + ")$").MatchString(v)
			}
			if !ok {
				continue next
			}
		}
		line := S(r.Line)
		for _, lf := range p.Line {
			var ok bool
			switch lf.Op {
			case logql.OpEq:
				ok = strings.Contains(line, lf.Value)
			case logql.OpNotEq:
				ok = !strings.Contains(line, lf.Value)
			case logql.OpRe:
				ok = regexp.MustCompile(lf.Value).MatchString(line)
			case logql.OpNotRe:
				ok = !regexp.MustCompile(lf.Value).MatchString(line)
			}
			if !ok {
				continue next
			}
		}
		// records with the same attributes share ONE map, as the Docker storage shares a container's resource
		// attributes between all of its records: a stage that writes through a label value corrupts the next record
		key := fmt.Sprint(r.Attrs)
		attrs, ok := shared[key]
		if !ok {
			attrs = pcommon.NewMap()
			for _, kv := range r.Attrs {
				attrs.PutStr(S(kv[0]), S(kv[1]))
			}
			shared[key] = attrs
		}
		out = append(out, logstorage.Record{Timestamp: ts, ObservedTimestamp: ts, Body: line, Attrs: otelstorage.Attrs(attrs)})
		ids = append(ids, r.ID)
	}
	if m.t != nil {
		offL := []F{}
		for _, lm := range p.Labels {
			offL = append(offL, F{"label": B(string(lm.Label)), "op": nameOfOp[lm.Op], "val": B(lm.Value)})
		}
		offF := []F{}
		for _, lf := range p.Line {
			offF = append(offF, F{"op": nameOfOp[lf.Op], "val": B(lf.Value), "ip": lf.IP})
		}
		if ids == nil {
			ids = []int{}
		}
		m.t.Ev(m.scn, "StorageSelect", F{"start": sn(uint64(start)), "end": sn(uint64(end)), "offLabels": offL, "offLines": offF, "returned": ids})
	}
	return iterators.Slice(out), nil
}
