package main

import (
	"context"
	"encoding/json"
	"fmt"
	"math/rand"
	"sort"
	"strconv"
	"strings"
	"time"

	"go.opentelemetry.io/collector/pdata/pcommon"

	"github.com/tdakkota/docker-logql/internal/dockerlog"
	"github.com/tdakkota/docker-logql/internal/logql"
	"github.com/tdakkota/docker-logql/internal/logql/logqlengine"
	"github.com/tdakkota/docker-logql/internal/logstorage"
	"github.com/tdakkota/docker-logql/internal/lokiapi"
)

// Docker-backed families (C02 selection, C04 merge, C14 life-cycle, C18 determinism): one executor,
// the trace specifications differ in what they constrain.
type famDocker struct{}

func init() { register("docker", famDocker{}) }

type matcherIn struct {
	Label []int           `json:"label"`
	Op    string          `json:"op"` // eq | neq | re | nre
	Val   []int           `json:"val"`
	Re    json.RawMessage `json:"re,omitempty"` // regex AST, for the specification only
}

type dockerIn struct {
	Tag     int         `json:"tag,omitempty"` // shape linefmt: a number written into the template text
	Ctrs    []FakeCtr   `json:"ctrs"`
	Sel     []matcherIn `json:"sel"`
	Sel2    []matcherIn `json:"sel2"`
	Shape   string      `json:"shape"` // merge | log | count | sumcount | binop
	Start   []int       `json:"start"`
	End     []int       `json:"end"`
	Step    int         `json:"step"`  // seconds
	Range   int         `json:"range"` // seconds, for metric shapes
	Offset  int         `json:"offset"` // seconds: the offset modifier of the metric shapes
	Limit   int         `json:"limit"`
	Orders  [][]int     `json:"orders"`
	Reps    int         `json:"reps"`
	Faults  []Fault     `json:"faults"`
	ListErr bool        `json:"listErr"`
	Frag    []int       `json:"frag"`
}

var opText = map[string]string{"eq": "=", "neq": "!=", "re": "=~", "nre": "!~"}

func renderSelector(ms []matcherIn) string {
	parts := make([]string, 0, len(ms))
	for _, m := range ms {
		parts = append(parts, S(m.Label)+opText[m.Op]+strconv.Quote(S(m.Val)))
	}
	return "{" + strings.Join(parts, ", ") + "}"
}

func (in *dockerIn) query() string {
	sel := renderSelector(in.Sel)
	rng := fmt.Sprintf("[%ds]", in.Range)
	if in.Offset != 0 {
		rng += fmt.Sprintf(" offset %ds", in.Offset)
	}
	switch in.Shape {
	case "log", "merge":
		return sel
	case "count":
		return "count_over_time(" + sel + rng + ")"
	case "sumcount":
		return "sum by (container) (count_over_time(" + sel + rng + "))"
	case "rangeby":
		// the range aggregation's own grouping over two labels: one series per (k, j), the same at every run
		return "max_over_time(" + sel + " | logfmt | unwrap v " + rng + ") by (k, j)"
	case "jsondup":
		// several labels drawn from one JSON path (objects, arrays, scalars): every one of them exists in every run
		return sel + " | json req=\"request\", raw=\"request\", m=\"request.method\", m2=\"request.method\", tags=\"tags\", t2=\"tags\", t3=\"tags\""
	case "linefmt":
		// a template over the line and the instant of the record at hand: every run prints its own records
		// (the text differs from case to case: a template compiled for one evaluation serves that evaluation)
		return sel + fmt.Sprintf(" | line_format \"{{__line__}}|{{.container}}|{{__timestamp__ | unixEpochNanos}}|%d\" | label_format l=\"{{__line__}}%d\"", in.Tag, in.Tag)
	case "logkv":
		// lines whose keys differ only in characters that label names cannot carry (a.b, a_b): what each entry's labels
		// are must not depend on the order a map is walked in
		return sel + " | logfmt"
	case "maxnan":
		// a group mixing NaN with numbers: the extreme of such a group does not depend on the order the series arrive in
		return "max(max_over_time(" + sel + " | logfmt | unwrap v " + rng + ")) or min(min_over_time(" + sel + " | logfmt | unwrap v " + rng + "))"
	case "sumdep":
		// containers of one app of which some carry dep="" and others no dep label at all: an empty value is not a missing label
		return "sum by (app, dep) (count_over_time(" + sel + rng + "))"
	case "pair":
		// the text of the selector's first regular expression also stands in a line filter of an operand written BEFORE it
		// (that operand selects no container): the same text is an unanchored search there and a full match in the selector
		txt := "x"
		for _, m := range in.Sel {
			if m.Op == "re" || m.Op == "nre" {
				txt = S(m.Val)
				break
			}
		}
		return "count_over_time({nosuchlabel=\"zz\"} |~ " + strconv.Quote(txt) + " " + rng + ") or count_over_time(" + sel + rng + ")"
	case "binop":
		return "count_over_time(" + sel + rng + ") + count_over_time(" + renderSelector(in.Sel2) + rng + ")"
	}
	return sel
}

func toMatchers(ms []matcherIn) ([]logql.LabelMatcher, error) {
	// goes through the real parser so that regexes are compiled exactly as in production
	sel, err := logql.ParseSelector(renderSelector(ms), logql.ParseOptions{})
	if err != nil {
		return nil, err
	}
	return sel.Matchers, nil
}

func unixOf(p []int) time.Time { return time.Unix(int64(p[0]), int64(p[1])).UTC() }

func (famDocker) Exec(scn int, raw json.RawMessage, t *Trace, opt map[string]string) error {
	var in dockerIn
	if err := json.Unmarshal(raw, &in); err != nil {
		return err
	}
	t.Scenario(scn, raw)
	q := in.query()
	t.Ev(scn, "Query", F{"txt": q})
	orders := in.Orders
	if len(orders) == 0 {
		orders = [][]int{nil}
	}
	reps := in.Reps
	if reps < 1 {
		reps = 1
	}
	run := 0
	for _, order := range orders {
		for rep := 0; rep < reps; rep++ {
			run++
			var expect []int
			if order != nil {
				// dry run (not recorded): how many ContainerLogs calls does the code make per SelectLogs round?
				dry := newFakeDocker(nil, scn, in.Ctrs)
				dry.faults, dry.listErr, dry.frag = in.Faults, in.ListErr, in.Frag
				execDocker(&in, q, dry, nil, scn)
				expect = dry.callsPer
			}
			fake := newFakeDocker(t, scn, in.Ctrs)
			fake.faults, fake.listErr, fake.frag = in.Faults, in.ListErr, in.Frag
			if order != nil {
				fake.gated, fake.expect, fake.order = true, expect, order
			}
			ord := order
			if ord == nil {
				ord = []int{}
			}
			t.Ev(scn, "Run", F{"run": run, "order": ord, "rep": rep + 1})
			execDocker(&in, q, fake, t, scn)
			fake.mu.Lock()
			hang := fake.hang
			fake.mu.Unlock()
			if hang {
				t.Ev(scn, "Unschedulable", nil)
			}
			t.Ev(scn, "RunEnd", F{"run": run})
		}
	}
	return nil
}

func labelsOfRecord(rec logstorage.Record) map[string]string {
	m := map[string]string{}
	if !rec.ResourceAttrs.IsZero() {
		rec.ResourceAttrs.AsMap().Range(func(k string, v pcommon.Value) bool {
			m[k] = v.AsString()
			return true
		})
	}
	return m
}

func execDocker(in *dockerIn, q string, fake *FakeDocker, t *Trace, scn int) {
	ev := func(name string, f F) {
		if t != nil {
			fake.mu.Lock()
			t.Ev(scn, name, f)
			fake.mu.Unlock()
		}
	}
	start, end := unixOf(in.Start), unixOf(in.End)
	if in.Shape == "merge" {
		func() {
			defer func() {
				if x := recover(); x != nil {
					ev("Panic", F{"detail_txt": fmt.Sprint(x)})
				}
			}()
			qr, _ := dockerlog.NewQuerier(fake)
			ms, err := toMatchers(in.Sel)
			if err != nil {
				ev("Return", F{"outcome": "err", "kind": "none", "detail_txt": err.Error()})
				return
			}
			it, err := qr.SelectLogs(context.Background(), tsOf(start), tsOf(end), logqlengine.SelectLogsParams{Labels: ms})
			if err != nil {
				ev("Return", F{"outcome": "err", "kind": "none", "detail_txt": err.Error()})
				return
			}
			var rec logstorage.Record
			for it.Next(&rec) {
				src := fake.idx(labelsOfRecord(rec)["container_id"])
				ev("Out", F{"src": src, "ts": sn(uint64(rec.Timestamp)), "msg": B(rec.Body)})
			}
			iterErr := it.Err() != nil
			_ = it.Close()
			outcome := "ok"
			if iterErr {
				outcome = "err"
			}
			ev("Return", F{"outcome": outcome, "kind": "merge"})
		}()
		return
	}
	eng := dockerEngine(fake)
	p := logqlengine.EvalParams{Start: tsOf(start), End: tsOf(end), Step: time.Duration(in.Step) * time.Second, Limit: in.Limit}
	r := evalWithWatchdog(eng, q, p, 20*time.Second)
	if t == nil {
		return
	}
	fake.mu.Lock()
	defer fake.mu.Unlock()
	if r.Err == nil && r.Panic == nil && !r.Hang {
		projectResult(t, scn, r.Data)
	}
	recordOutcome(t, scn, r, nil)
}

// projectResult writes Entry / Point events in a canonical order (sorting is canonicalisation, not judgement).
func projectResult(t *Trace, scn int, data lokiapi.QueryResponseData) {
	switch data.Type {
	case lokiapi.StreamsResultQueryResponseData:
		es := flatten(data.StreamsResult.Result)
		for _, e := range es {
			t.Ev(scn, "Entry", F{"labels": sortedLabels(e.Labels), "ts": sn(e.T), "line": B(e.Line), "stream": e.Stream})
		}
	case lokiapi.MatrixResultQueryResponseData:
		for i, s := range data.MatrixResult.Result {
			for _, p := range s.Values {
				t.Ev(scn, "Point", F{"labels": sortedLabels(s.Metric.Value), "t": msOf(p.T), "val": ratOf(parseFloatStr(p.V)), "sq": sqOf(parseFloatStr(p.V)), "series": i + 1})
			}
		}
	case lokiapi.VectorResultQueryResponseData:
		for i, s := range data.VectorResult.Result {
			t.Ev(scn, "Point", F{"labels": sortedLabels(s.Metric.Value), "t": msOf(s.Value.T), "val": ratOf(parseFloatStr(s.Value.V)), "sq": sqOf(parseFloatStr(s.Value.V)), "series": i + 1})
		}
	case lokiapi.ScalarResultQueryResponseData:
		t.Ev(scn, "Scalar", F{"t": msOf(data.ScalarResult.Result.T), "val": ratOf(parseFloatStr(data.ScalarResult.Result.V))})
	}
}

// sqOf projects the square of a value (stddev is compared through its square).
func sqOf(v float64) F { return ratOf(v * v) }

// msOf projects a Prometheus timestamp (float seconds, millisecond resolution) to [seconds, nanoseconds].
func msOf(v float64) []int {
	ms := int64(v*1000 + 0.5)
	if v < 0 {
		ms = int64(v*1000 - 0.5)
	}
	return []int{int(ms / 1000), int(ms%1000) * 1000000}
}

// ---- random driver: larger inventories than TLC enumerates, same vocabulary

func (famDocker) Gen(r *rand.Rand, n int, opt map[string]string) []any {
	mode := opt["mode"]
	out := make([]any, 0, n)
	for i := 0; i < n; i++ {
		switch mode {
		case "merge":
			out = append(out, genMerge(r))
		case "select":
			out = append(out, genSelect(r))
		case "lifecycle":
			out = append(out, genLifecycle(r))
		case "determinism":
			out = append(out, genDeterminism(r))
		default:
			out = append(out, genMerge(r))
		}
	}
	return out
}

func randPerm(r *rand.Rand, n int) []int {
	p := r.Perm(n)
	for i := range p {
		p[i]++
	}
	return p
}

func genFrames(r *rand.Rand, ctr, n int, sorted bool, tieHeavy bool) []Frame {
	fs := make([]Frame, 0, n)
	sec := 1700000000 + r.Intn(3)
	for j := 0; j < n; j++ {
		if sorted {
			if tieHeavy {
				sec += r.Intn(2)
			} else {
				sec += r.Intn(4)
			}
		} else {
			sec = 1700000000 + r.Intn(8)
		}
		ns := 0
		if !tieHeavy && r.Intn(3) == 0 {
			ns = r.Intn(1000) * 1000000
		}
		if !tieHeavy && sorted && r.Intn(4) == 0 {
			// fractions with leading zeros (and only the digits 0-7): .020000000 is twenty milliseconds
			ns = []int{10000000, 20000000, 17000000, 70000000, 1000, 7, 1234567}[r.Intn(7)]
		}
		fs = append(fs, Frame{Typ: 1 + r.Intn(2), TS: []int{sec, ns}, Msg: B(fmt.Sprintf("c%d-%d", ctr, j+1))})

	}
	if sorted {
		sort.SliceStable(fs, func(a, b int) bool {
			if fs[a].TS[0] != fs[b].TS[0] {
				return fs[a].TS[0] < fs[b].TS[0]
			}
			return fs[a].TS[1] < fs[b].TS[1]
		})
		for j := range fs {
			fs[j].Msg = B(fmt.Sprintf("c%d-%d", ctr, j+1))
		}
	}
	if tieHeavy {
		// the same text at the same instant may well come from two containers (or twice from one): both are records
		for j := range fs {
			if r.Intn(3) == 0 {
				fs[j].Msg = B("same")
			}
		}
	}
	return fs
}

func baseIn() dockerIn {
	return dockerIn{Sel: []matcherIn{}, Sel2: []matcherIn{}, Start: []int{1699999000, 0}, End: []int{1700001000, 0},
		Limit: -1, Orders: [][]int{}, Faults: []Fault{}, Frag: []int{}, Reps: 1, Range: 4000}
}

func genMerge(r *rand.Rand) dockerIn {
	in := baseIn()
	in.Shape = "merge"
	nc := 2 + r.Intn(7)
	if r.Intn(6) == 0 {
		nc = 9 + r.Intn(9) // more containers than any batch size a fan-out might use
	}
	sorted := r.Intn(5) != 0
	tie := r.Intn(2) == 0
	emptyFirst := r.Intn(8) == 0 // exactly two containers of which the one listed first has logged nothing
	if emptyFirst {
		nc = 2
	}
	for c := 1; c <= nc; c++ {
		nf := r.Intn(12)
		if r.Intn(6) == 0 {
			nf = r.Intn(50)
		}
		if emptyFirst {
			nf = (c - 1) * (1 + r.Intn(6))
		}
		ctr := simpleCtr(fmt.Sprintf("id%d", c), fmt.Sprintf("n%d", c), genFrames(r, c, nf, sorted, tie))
		if r.Intn(5) == 0 {
			ctr.Alias = B(fmt.Sprintf("peer%d/n%d", c, c)) // a second name: still one container, opened once
		}
		in.Ctrs = append(in.Ctrs, ctr)
	}
	no := 2 + r.Intn(4)
	for k := 0; k < no; k++ {
		in.Orders = append(in.Orders, randPerm(r, nc))
	}
	return in
}


var selNames = []string{"a", "ab", "b", "web", "db-1", "x.y", ""}
var selKeys = []string{"app", "com.docker.compose.service", "k-1", "1st", "\xc3\xa9t\xc3\xa9", "a/b", "x y", "tier", "ZONE", "msg", "level"}
var selKeysSan = []string{"app", "com_docker_compose_service", "k_1", "_1st", "_t_", "a_b", "x_y", "tier", "ZONE", "msg", "level"}
var selVals = []string{"", "a", "ab", "b", "web", "x y", "a.b", "A", "\xff", "a\nb"}
var selBuiltins = []string{"container", "container_name", "container_id", "container_image", "container_state", "container_created", "container_command", "container_status", "container_image_id"}

func genSelect(r *rand.Rand) dockerIn {
	in := baseIn()
	in.Shape = "log"
	if r.Intn(6) == 0 {
		in.Shape = "count"
	}
	nc := 1 + r.Intn(8)
	for c := 1; c <= nc; c++ {
		ctr := simpleCtr(fmt.Sprintf("id%d", c), selNames[r.Intn(len(selNames))], nil)
		ctr.BImage = B([]string{"img", "nginx:1", "a"}[r.Intn(3)])
		ctr.BState = B([]string{"running", "exited"}[r.Intn(2)])
		if r.Intn(5) == 0 {
			ctr.Alias = B(pick(r, []string{"web", "peer/db", "a", "x/" + selNames[r.Intn(len(selNames))]}))
		}
		ctr.Created = r.Intn(2000000000)
		if S(ctr.BName) == "" {
			ctr.NoName = r.Intn(2) == 0
		}
		nl := r.Intn(4)
		used := map[int]bool{}
		for k := 0; k < nl; k++ {
			ki := r.Intn(len(selKeys))
			if used[ki] {
				continue
			}
			used[ki] = true
			ctr.LabelKV = append(ctr.LabelKV, [2][]int{B(selKeys[ki]), B(selVals[r.Intn(len(selVals))])})
		}
		ctr.Frames = []Frame{}
		nf := r.Intn(3)
		for j := 0; j < nf; j++ {
			ctr.Frames = append(ctr.Frames, Frame{Typ: 1 + r.Intn(2), TS: []int{1700000001 + j, 0}, Msg: B(fmt.Sprintf("c%d-%d", c, j+1))})
		}
		in.Ctrs = append(in.Ctrs, ctr)
	}
	if r.Intn(30) == 0 {
		// more containers than any cap on concurrently open streams a storage might think of: all of them are read
		for c := nc + 1; c <= 65+r.Intn(30); c++ {
			ctr := simpleCtr(fmt.Sprintf("id%d", c), selNames[r.Intn(len(selNames))], []Frame{{Typ: 1, TS: []int{1700000002, 0}, Msg: B(fmt.Sprintf("c%d-1", c))}})
			if r.Intn(3) == 0 {
				ctr.LabelKV = [][2][]int{{B("app"), B(pick(r, []string{"a", "b"}))}}
			}
			in.Ctrs = append(in.Ctrs, ctr)
		}
		nc = len(in.Ctrs)
	}
	nm := r.Intn(4)
	for k := 0; k < nm; k++ {
		var m matcherIn
		switch r.Intn(4) {
		case 0:
			m.Label = B(selBuiltins[r.Intn(len(selBuiltins))])
		case 1:
			m.Label = B("absent_label")
		default:
			m.Label = B(selKeysSan[r.Intn(len(selKeysSan))])
		}
		m.Op = []string{"eq", "neq", "re", "nre"}[r.Intn(4)]
		if m.Op == "eq" || m.Op == "neq" {
			m.Val = B(selVals[r.Intn(len(selVals))])
			if r.Intn(3) == 0 {
				m.Val = in.Ctrs[r.Intn(nc)].BName
			}
			m.Re, _ = json.Marshal(&ReAST{T: "eps"})
		} else {
			re := genReA(r, 3, "abwex.y 1")
			if r.Intn(5) == 0 {
				// a plain literal (one of the values in use, or its upper-case form) under the (?i) flag: letter case must not matter,
				// and the flag must survive whatever shortcut a literal pattern takes
				lit := []string{"a", "ab", "b", "web", "x y", "a.b", "A"}[r.Intn(7)]
				if r.Intn(2) == 0 {
					lit = strings.ToUpper(lit)
				}
				var node *ReAST = &ReAST{T: "eps"}
				for i := len(lit) - 1; i >= 0; i-- {
					node = &ReAST{T: "cat", A: &ReAST{T: "lit", C: int(lit[i])}, B: node}
				}
				re = &ReAST{T: "ci", A: node}
			} else if r.Intn(8) == 0 {
				re = &ReAST{T: "ci", A: re}
			}
			m.Val = B(re.Text())
			m.Re, _ = json.Marshal(re)
		}
		in.Sel = append(in.Sel, m)
	}
	switch r.Intn(3) {
	case 0:
		in.Start, in.End = []int{1699999990, 0}, []int{1700000010, 0}
	case 1:
		in.Start, in.End = []int{1699999990, r.Intn(1000) * 1000000}, []int{1700000010, r.Intn(1000) * 1000000}
	default:
		t := []int{1700000005, r.Intn(1000) * 1000000}
		in.Start, in.End = t, t
		if in.Shape == "count" {
			in.Range = 100
		}
	}
	if in.Shape == "count" && r.Intn(2) == 0 {
		in.Shape = "pair"
		// a literal that is a proper part of some container's name, as a regular expression on the name
		name := S(in.Ctrs[r.Intn(nc)].BName)
		if len(name) >= 2 && r.Intn(2) == 0 {
			part := name[r.Intn(2) : len(name)-1+r.Intn(2)]
			if part != "" && !strings.ContainsAny(part, ".+*?()[]{}|^$\\") {
				var node *ReAST = &ReAST{T: "eps"}
				for i := len(part) - 1; i >= 0; i-- {
					node = &ReAST{T: "cat", A: &ReAST{T: "lit", C: int(part[i])}, B: node}
				}
				raw, _ := json.Marshal(node)
				in.Sel = append([]matcherIn{{Label: B("container"), Op: []string{"re", "nre"}[r.Intn(2)], Val: B(node.Text()), Re: raw}}, in.Sel...)
			}
		}
	}
	if in.Shape != "log" && in.Shape != "merge" && r.Intn(3) == 0 {
		// the offset modifier moves the window the daemon must be asked for
		in.Offset = []int{5, 40, 100, 3600}[r.Intn(4)]
	}
	return in
}

func genLifecycle(r *rand.Rand) dockerIn {
	in := baseIn()
	in.Shape = []string{"log", "count", "binop", "sumcount", "log"}[r.Intn(5)]
	in.Start, in.End, in.Step, in.Range = []int{1700000000, 0}, []int{1700000060, 0}, 20, 600
	if r.Intn(5) == 0 {
		// instant
		in.Start, in.End, in.Step = []int{1700000028, 0}, []int{1700000028, 0}, 0
	}
	nc := 1 + r.Intn(5)
	for c := 1; c <= nc; c++ {
		nf := r.Intn(6)
		in.Ctrs = append(in.Ctrs, simpleCtr(fmt.Sprintf("id%d", c), fmt.Sprintf("n%d", c), genFrames(r, c, nf, true, false)))
	}
	rounds := 1
	if in.Shape == "binop" {
		rounds = 2
	}
	switch r.Intn(7) {
	case 6:
		// a reader whose Close reports an error (it is closed all the same): every other reader must still be closed
		in.Faults = append(in.Faults, Fault{Kind: "closeerr", Ctr: 1 + r.Intn(nc), Round: r.Intn(rounds + 1)})
	case 0:
		in.ListErr = true
	case 1:
		in.Faults = append(in.Faults, Fault{Kind: "open", Ctr: 1 + r.Intn(nc), Round: 1 + r.Intn(rounds)})
	case 2, 3:
		c := 1 + r.Intn(nc)
		total := 0
		for _, f := range in.Ctrs[c-1].Frames {
			total += len(f.Encode())
		}
		kind := []string{"cut", "readerr"}[r.Intn(2)]
		in.Faults = append(in.Faults, Fault{Kind: kind, Ctr: c, Pos: r.Intn(total + 1), Round: 1 + r.Intn(rounds)})
	case 4:
		c := r.Intn(nc)
		if n := len(in.Ctrs[c].Frames); n > 0 {
			k := r.Intn(n)
			if r.Intn(2) == 0 {
				in.Ctrs[c].Frames[k] = Frame{Typ: 3, TS: []int{0, 0}, Msg: B("daemon error"), Raw: true}
			} else {
				in.Ctrs[c].Frames[k] = Frame{Typ: 1, TS: []int{0, 0}, Msg: B("garbage here"), Raw: true}
			}
		}
	}
	no := 1 + r.Intn(3)
	for k := 0; k < no; k++ {
		in.Orders = append(in.Orders, randPerm(r, nc))
	}
	if r.Intn(3) == 0 {
		in.Frag = []int{1 + r.Intn(9)}
	}
	return in
}

func allPerms(n int) [][]int {
	var out [][]int
	var rec func(cur []int, used []bool)
	rec = func(cur []int, used []bool) {
		if len(cur) == n {
			out = append(out, append([]int{}, cur...))
			return
		}
		for i := 1; i <= n; i++ {
			if !used[i] {
				used[i] = true
				rec(append(cur, i), used)
				used[i] = false
			}
		}
	}
	rec(nil, make([]bool, n+1))
	return out
}

func genDeterminism(r *rand.Rand) dockerIn {
	in := baseIn()
	in.Shape = []string{"log", "count", "sumcount", "log", "sumdep", "maxnan", "logkv", "rangeby", "jsondup", "jsondup", "linefmt", "linefmt"}[r.Intn(12)]
	in.Start, in.End, in.Step, in.Range = []int{1700000000, 0}, []int{1700000060, 0}, 20, 600
	nc := 2 + r.Intn(4)
	sec := 1700000001
	for c := 1; c <= nc; c++ {
		ctr := simpleCtr(fmt.Sprintf("id%d", c), fmt.Sprintf("n%d", c), nil)
		// several Docker labels: the label map of every record has 10+ entries, so map order matters for keys
		ctr.LabelKV = [][2][]int{{B("app"), B(pick(r, []string{"a", "b"}))}, {B("tier"), B(pick(r, []string{"x", "y"}))}, {B("com.example/role"), B("r")}}
		if k := r.Intn(3); k > 0 {
			ctr.LabelKV = append(ctr.LabelKV, [2][]int{B("dep"), B([]string{"", "", "x"}[k])})
		}
		ctr.Frames = []Frame{}
		for j := 0; j < 1+r.Intn(4); j++ {
			// distinct timestamps across the whole inventory, so that the rendered output is fully determined
			ctr.Frames = append(ctr.Frames, Frame{Typ: 1 + r.Intn(2), TS: []int{sec, 0}, Msg: B(fmt.Sprintf("c%d-%d", c, j+1))})
			sec++
		}
		in.Ctrs = append(in.Ctrs, ctr)
	}
	if in.Shape == "rangeby" {
		for c := range in.Ctrs {
			for j := range in.Ctrs[c].Frames {
				in.Ctrs[c].Frames[j].Msg = B(fmt.Sprintf("v=%d k=%d j=%d", 1+j, c%2, j%2))
			}
		}
	} else if in.Shape == "linefmt" {
		in.Tag = 1 + r.Intn(1000000)
		in.Reps = 3
	} else if in.Shape == "jsondup" {
		for c := range in.Ctrs {
			for j := range in.Ctrs[c].Frames {
				in.Ctrs[c].Frames[j].Msg = B(fmt.Sprintf(`{"request":{"method":"GET","path":"/p%d","hdr":{"a":%d}},"tags":["t%d",%d],"n":%d}`, j, c, c, j, j))
			}
		}
		in.Reps = 4
	} else if in.Shape == "logkv" {
		for c := range in.Ctrs {
			for j := range in.Ctrs[c].Frames {
				in.Ctrs[c].Frames[j].Msg = B(fmt.Sprintf("a.b=%d a_b=%d a-b=%d k=%d", j, j+1, j+2, c))
			}
		}
		in.Reps = 4
	} else if in.Shape == "maxnan" {
		for c := range in.Ctrs {
			v := []string{"NaN", "0.5", "2", "NaN", "-1"}[(c+r.Intn(2))%5]
			for j := range in.Ctrs[c].Frames {
				in.Ctrs[c].Frames[j].Msg = B("v=" + v)
			}
		}
	} else if r.Intn(3) == 0 {
		// every container logs at the same instants and the limit cuts a tie group: which records come back depends on
		// how ties are broken (by container order, never by arrival)
		total := 0
		for c := range in.Ctrs {
			for j := range in.Ctrs[c].Frames {
				in.Ctrs[c].Frames[j].TS = []int{1700000001 + j, 0}
			}
			total += len(in.Ctrs[c].Frames)
		}
		in.Shape = "log"
		in.Limit = 1 + r.Intn(total)
		if r.Intn(2) == 0 {
			in.Limit = 1 + r.Intn(nc-1)
		}
	}
	perms := allPerms(nc)
	if len(perms) > 24 {
		r.Shuffle(len(perms), func(a, b int) { perms[a], perms[b] = perms[b], perms[a] })
		perms = perms[:24]
	}
	in.Orders = perms
	in.Reps = 2
	return in
}
