package main

// This file lives in /verif and is mapped into /repo/cmd/docker-logql/ with `go test -overlay` (together with the
// harness's trace.go), so that the unexported parseTimeRange, parseStep and renderResult can be observed without
// touching the repository. It contains no oracle: it records what the code did for TLC to judge.

import (
	"bufio"
	"bytes"
	"context"
	"encoding/json"
	"fmt"
	"math/rand"
	"os"
	"strconv"
	"testing"
	"time"

	"go.opentelemetry.io/collector/pdata/pcommon"

	"github.com/docker/cli/cli/command"
	"github.com/docker/docker/client"

	"github.com/tdakkota/docker-logql/internal/dockerlog"
	"github.com/tdakkota/docker-logql/internal/logql/logqlengine"
	"github.com/tdakkota/docker-logql/internal/lokiapi"
)

type cliIn struct {
	// C16
	Now   []int  `json:"now"` // [hi, lo, ns]: seconds = hi*1e9 + lo
	Start *spell `json:"start,omitempty"`
	End   *spell `json:"end,omitempty"`
	Since []int  `json:"since"` // spelling bytes
	Step  []int  `json:"step"`  // spelling bytes
	Has   []bool `json:"has"`             // [start, end, since, step] present?
	// C15
	Streams []renderStream `json:"streams"`
	Opts    []bool         `json:"opts"` // [timestamp, container, color]
	Kind    string         `json:"kind"`           // "time" | "render" | "e2e"
	// C18 (kind e2e): inventory evaluated through dockerlog + engine + renderResult under forced completion orders
	Ctrs   []FakeCtr `json:"ctrs"`
	Orders [][]int   `json:"orders"`
	Reps   int       `json:"reps"`
	Q      []int     `json:"q,omitempty"` // e2e: the query text ("{}" when absent)
}

type spell struct {
	Kind string `json:"kind"` // sec | nano | frac | rfc | raw
	T    []int  `json:"t"`    // intended instant [hi, lo, ns]
	Txt  []int  `json:"txt"`  // digits / text as written (rfc: filled in by the probe from T)
}

type renderStream struct {
	Container []int   `json:"container"`
	NoLabel   bool    `json:"noLabel"`
	Entries   [][]any `json:"entries"` // [[s, ns], [msg bytes]]
}

func instant(p []int) time.Time {
	return time.Unix(int64(p[0])*1000000000+int64(p[1]), int64(p[2])).UTC()
}

func hiLo(t time.Time) []int {
	s := t.Unix()
	if s < 0 {
		return []int{-1, 0, 0}
	}
	return []int{int(s / 1000000000), int(s % 1000000000), t.Nanosecond()}
}

func spellText(sp *spell) string {
	if sp.Kind == "rfc" {
		return instant(sp.T).Format(time.RFC3339Nano)
	}
	return S(sp.Txt)
}

func TestVerifProbe(t *testing.T) {
	casesPath, outPath := os.Getenv("VERIF_CASES"), os.Getenv("VERIF_TRACE")
	if outPath == "" {
		t.Skip("not under /verif/check")
	}
	out, err := os.Create(outPath)
	if err != nil {
		t.Fatal(err)
	}
	defer out.Close()
	bw := bufio.NewWriterSize(out, 1<<20)
	defer bw.Flush()
	tr := &Trace{w: bw}
	scn := 0
	exec := func(raw json.RawMessage, id int) {
		var k struct {
			Kind string `json:"kind"`
		}
		_ = json.Unmarshal(raw, &k)
		if k.Kind == "cmd" {
			probeCmd(tr, id, raw)
			return
		}
		var in cliIn
		if err := json.Unmarshal(raw, &in); err != nil {
			t.Fatal(err)
		}
		switch in.Kind {
		case "time":
			probeTime(tr, id, raw, &in)
		case "render":
			probeRender(tr, id, raw, &in)
		case "e2e":
			probeE2E(tr, id, raw, &in)
		}
	}
	if casesPath != "" {
		f, err := os.Open(casesPath)
		if err != nil {
			t.Fatal(err)
		}
		sc := bufio.NewScanner(f)
		sc.Buffer(make([]byte, 1<<20), 1<<28)
		for sc.Scan() {
			if len(sc.Bytes()) == 0 {
				continue
			}
			var c struct {
				Scn int             `json:"scn"`
				In  json.RawMessage `json:"in"`
			}
			if err := json.Unmarshal(sc.Bytes(), &c); err != nil {
				t.Fatal(err)
			}
			scn++
			id := scn
			if c.Scn != 0 {
				id = c.Scn
			}
			exec(c.In, id)
		}
		f.Close()
	}
	nrand, _ := strconv.Atoi(os.Getenv("VERIF_RAND"))
	seed, _ := strconv.ParseInt(os.Getenv("VERIF_SEED"), 10, 64)
	r := rand.New(rand.NewSource(seed))
	for i := 0; i < nrand; i++ {
		var in any
		if os.Getenv("VERIF_MODE") == "render" {
			in = genRender(r)
		} else if os.Getenv("VERIF_MODE") == "e2e" {
			in = genE2E(r)
		} else {
			in = genTime(r)
		}
		raw, _ := json.Marshal(in)
		scn++
		exec(raw, scn)
	}
	fmt.Printf("scenarios=%d events=%d\n", scn, tr.n)
}

// ---- C16

func probeTime(tr *Trace, scn int, raw json.RawMessage, in *cliIn) {
	tr.Scenario(scn, raw)
	var start, end lokiapi.OptLokiTime
	var since, step lokiapi.OptPrometheusDuration
	texts := F{"start": []int{}, "end": []int{}}
	if in.Has[0] {
		start.SetTo(lokiapi.LokiTime(spellText(in.Start)))
		texts["start"] = B(spellText(in.Start))
	}
	if in.Has[1] {
		end.SetTo(lokiapi.LokiTime(spellText(in.End)))
		texts["end"] = B(spellText(in.End))
	}
	if in.Has[2] {
		since.SetTo(lokiapi.PrometheusDuration(S(in.Since)))
	}
	if in.Has[3] {
		step.SetTo(lokiapi.PrometheusDuration(S(in.Step)))
	}
	tr.Ev(scn, "Spelled", texts)
	func() {
		defer func() {
			if x := recover(); x != nil {
				tr.Ev(scn, "Panic", F{"detail_txt": fmt.Sprint(x)})
			}
		}()
		s, e, err := parseTimeRange(instant(in.Now), start, end, since)
		if err != nil {
			tr.Ev(scn, "Resolved", F{"ok": false, "start": []int{0, 0, 0}, "end": []int{0, 0, 0}, "detail_txt": err.Error()})
			return
		}
		tr.Ev(scn, "Resolved", F{"ok": true, "start": hiLo(s), "end": hiLo(e)})
		d, err := parseStep(step, s, e)
		if err != nil {
			tr.Ev(scn, "Step", F{"ok": false, "step": []int{0, 0}, "detail_txt": err.Error()})
			return
		}
		neg := d < 0
		if neg {
			d = -d
		}
		tr.Ev(scn, "Step", F{"ok": true, "neg": neg, "step": []int{int(d / time.Second), int(d % time.Second)}})
	}()
}

// ---- C15

func probeRender(tr *Trace, scn int, raw json.RawMessage, in *cliIn) {
	tr.Scenario(scn, raw)
	var data lokiapi.QueryResponseData
	var streams lokiapi.Streams
	texts := []F{}
	seen := map[uint64]bool{}
	for _, st := range in.Streams {
		ls := lokiapi.LabelSet{}
		if !st.NoLabel {
			ls["container"] = S(st.Container)
		}
		s := lokiapi.Stream{Stream: lokiapi.NewOptLabelSet(ls)}
		for _, e := range st.Entries {
			tsp := e[0].([]any)
			sec, ns := int64(tsp[0].(float64)), int64(tsp[1].(float64))
			msgAny := e[1].([]any)
			msg := make([]int, len(msgAny))
			for i, x := range msgAny {
				msg[i] = int(x.(float64))
			}
			ts := uint64(sec)*1000000000 + uint64(ns)
			s.Values = append(s.Values, lokiapi.LogEntry{T: ts, V: S(msg)})
			if !seen[ts] {
				seen[ts] = true
				// trusted base: the RFC3339Nano text of an instant as Go's time package renders it (TZ=UTC)
				texts = append(texts, F{"ts": []int{int(sec), int(ns)}, "txt": B(time.Unix(0, int64(ts)).Format(time.RFC3339Nano))})
			}
		}
		streams = append(streams, s)
	}
	data.SetStreamsResult(lokiapi.StreamsResult{Result: streams})
	tr.Ev(scn, "TsTexts", F{"texts": texts})
	var buf bytes.Buffer
	func() {
		defer func() {
			if x := recover(); x != nil {
				tr.Ev(scn, "Panic", F{"detail_txt": fmt.Sprint(x)})
			}
		}()
		err := renderResult(&buf, renderOptions{timestamp: in.Opts[0], container: in.Opts[1], color: in.Opts[2]}, data)
		tr.Ev(scn, "Rendered", F{"ok": err == nil, "out": B(buf.String())})
	}()
}

// ---- C18: the whole path (Docker storage -> engine -> renderer) under forced completion orders

func probeE2E(tr *Trace, scn int, raw json.RawMessage, in *cliIn) {
	tr.Scenario(scn, raw)
	run := 0
	for _, order := range in.Orders {
		for rep := 0; rep < in.Reps; rep++ {
			run++
			evalOnce := func(fake *FakeDocker) (lokiapi.QueryResponseData, error) {
				q, _ := dockerlog.NewQuerier(fake)
				eng := logqlengine.NewEngine(q, logqlengine.Options{})
				qt := "{}"
				if len(in.Q) > 0 {
					qt = S(in.Q)
				}
				return eng.Eval(context.Background(), qt, logqlengine.EvalParams{
					Start: pcommon.NewTimestampFromTime(time.Unix(1699999000, 0)), End: pcommon.NewTimestampFromTime(time.Unix(1700009000, 0)), Limit: -1})
			}
			dry := newFakeDocker(nil, scn, in.Ctrs)
			_, _ = evalOnce(dry)
			fake := newFakeDocker(nil, scn, in.Ctrs)
			fake.gated, fake.expect, fake.order = true, dry.callsPer, order
			tr.Ev(scn, "Run", F{"run": run, "order": order, "rep": rep + 1})
			func() {
				defer func() {
					if x := recover(); x != nil {
						tr.Ev(scn, "Panic", F{"detail_txt": fmt.Sprint(x)})
					}
				}()
				data, err := evalOnce(fake)
				if err != nil {
					tr.Ev(scn, "Return", F{"outcome": "err", "kind": "none"})
					return
				}
				tr.Ev(scn, "Return", F{"outcome": "ok", "kind": string(data.Type)})
				var buf bytes.Buffer
				rerr := renderResult(&buf, renderOptions{timestamp: in.Opts[0], container: in.Opts[1], color: false}, data)
				tr.Ev(scn, "Rendered", F{"ok": rerr == nil, "out": B(buf.String())})
			}()
			if fake.hang {
				tr.Ev(scn, "Unschedulable", nil)
			}
			tr.Ev(scn, "RunEnd", F{"run": run})
		}
	}
}

func genE2E(r *rand.Rand) cliIn {
	in := cliIn{Kind: "e2e", Now: []int{0, 0, 0}, Has: []bool{false, false, false, false}, Since: []int{}, Step: []int{}, Streams: []renderStream{},
		Opts: []bool{r.Intn(2) == 0, r.Intn(2) == 0, false}, Reps: 2, Q: []int{}}
	nc := 2 + r.Intn(3)
	sec := 1700000001
	for c := 1; c <= nc; c++ {
		ctr := simpleCtr(fmt.Sprintf("id%d", c), fmt.Sprintf("n%d", c), []Frame{})
		for j := 0; j < 1+r.Intn(3); j++ {
			ctr.Frames = append(ctr.Frames, Frame{Typ: 1, TS: []int{sec, 0}, Msg: B(fmt.Sprintf("c%d-%d", c, j+1))})
			sec++
		}
		in.Ctrs = append(in.Ctrs, ctr)
	}
	if r.Intn(3) == 0 {
		// one or two containers whose lines a parser stage spreads over several streams: the printed order must still be
		// the time order, whatever order the streams come in (Go's map order, re-randomised on every one of the runs)
		nc = 1 + r.Intn(2)
		in.Ctrs = in.Ctrs[:0]
		sec = 1700000001
		for c := 1; c <= nc; c++ {
			ctr := simpleCtr(fmt.Sprintf("id%d", c), fmt.Sprintf("n%d", c), []Frame{})
			for j := 0; j < 3+r.Intn(5); j++ {
				ctr.Frames = append(ctr.Frames, Frame{Typ: 1, TS: []int{sec, 0}, Msg: B(fmt.Sprintf("lvl=%s n=%d a.b=%d a_b=%d", []string{"a", "b", "c", "d"}[r.Intn(4)], j%3, j%2, (j+1)%2))}) // a.b and a_b meet in one label name
				sec++
			}
			in.Ctrs = append(in.Ctrs, ctr)
		}
		in.Q = B("{} | logfmt")
		in.Reps = 6
	}
	// all completion orders
	var rec func(cur []int, used []bool)
	rec = func(cur []int, used []bool) {
		if len(cur) == nc {
			in.Orders = append(in.Orders, append([]int{}, cur...))
			return
		}
		for i := 1; i <= nc; i++ {
			if !used[i] {
				used[i] = true
				rec(append(cur, i), used)
				used[i] = false
			}
		}
	}
	rec(nil, make([]bool, nc+1))
	return in
}

// ---- random drivers

func digitsOf(v int64) []int { return B(strconv.FormatInt(v, 10)) }

func genSpell(r *rand.Rand) *spell {
	// 2001-01-01 .. 2200-01-01
	sec := int64(978307200) + r.Int63n(7258118400-978307200)
	switch r.Intn(6) {
	case 0:
		sec = 999999999 + int64(r.Intn(3)) // the 9 / 10 digit boundary
	case 1:
		sec = 1000000000*int64(1+r.Intn(7)) - int64(r.Intn(2))
	}
	ns := 0
	sp := &spell{}
	switch r.Intn(4) {
	case 0:
		sp.Kind = "sec"
		sp.Txt = digitsOf(sec)
	case 1:
		sp.Kind = "nano"
		ns = r.Intn(1000000000)
		if r.Intn(3) == 0 {
			ns = 0
		}
		sp.Txt = digitsOf(sec*1000000000 + int64(ns))
	case 2:
		sp.Kind = "frac"
		ms := r.Intn(1000)
		ns = ms * 1000000
		sp.Txt = B(fmt.Sprintf("%d.%03d", sec, ms))
	default:
		sp.Kind = "rfc"
		if r.Intn(2) == 0 {
			ns = r.Intn(1000000000)
		}
		sp.Txt = []int{}
	}
	sp.T = []int{int(sec / 1000000000), int(sec % 1000000000), ns}
	return sp
}

var badTimes = []string{"abc", "12x", "1.2.3", "12345678901234567890", "2024-13-01T00:00:00Z", " 123", "123 ", "0x10", "2024-01-01", "10:00", "1,5", "--5", "1700000000s", "now"}
var goodSince = []string{"6h", "1d", "90m", "1h30m", "15s", "1w", "2d12h", "1y", "30m", "1ms", "5m30s", "0s", "0ms", "0h0m", "0d", "0s"}
var badSince = []string{"6", "h", "1h1d", "-1h", "1.5h", "abc", "1 h", "h1", "1hh", "5M"}
var goodStep = []string{"15", "0.5", "1.5", "15s", "1m", "1h30m", "250ms", "2", "1d", "100", "0.001"}
var badStep = []string{"abc", "1q", "7k", "--1", "1.2.3", "0", "-1", "NaN", "0s", "-5", "0.0", "m", "1 s", "-0.5", "0ms", "Inf", "-Inf"}

func genTime(r *rand.Rand) cliIn {
	now := int64(978307200) + r.Int63n(7258118400-978307200)
	in := cliIn{Kind: "time", Now: []int{int(now / 1000000000), int(now % 1000000000), r.Intn(2) * r.Intn(1000000000)}, Has: []bool{r.Intn(2) == 0, r.Intn(2) == 0, r.Intn(2) == 0, r.Intn(2) == 0},
		Since: []int{}, Step: []int{}, Streams: []renderStream{}, Opts: []bool{}, Ctrs: []FakeCtr{}, Orders: [][]int{}}
	in.Start, in.End = genSpell(r), genSpell(r)
	if r.Intn(3) == 0 {
		// end around now (before / after)
		d := int64(r.Intn(7200)) - 3600
		e := now + d
		in.End = &spell{Kind: "sec", T: []int{int(e / 1000000000), int(e % 1000000000), 0}, Txt: digitsOf(e)}
	}
	in.Since = B(pick2(r, goodSince))
	in.Step = B(pick2(r, goodStep))
	if r.Intn(10) == 0 {
		// no --step: the default step of a range whose whole seconds differ by a multiple of 250 s while the start's fraction
		// is the larger one (the range is a little SHORTER than that multiple)
		sec := int64(978307200) + r.Int63n(7258118400-978307200-100000)
		k := int64(2 + r.Intn(12))
		ms1, ms2 := 500+r.Intn(500), r.Intn(500)
		e := sec + 250*k
		in.Has = []bool{true, true, false, false}
		in.Start = &spell{Kind: "frac", T: []int{int(sec / 1000000000), int(sec % 1000000000), ms1 * 1000000}, Txt: B(fmt.Sprintf("%d.%03d", sec, ms1))}
		in.End = &spell{Kind: "frac", T: []int{int(e / 1000000000), int(e % 1000000000), ms2 * 1000000}, Txt: B(fmt.Sprintf("%d.%03d", e, ms2))}
		in.Now = []int{int((e + 5) / 1000000000), int((e + 5) % 1000000000), 0}
		return in
	}
	switch r.Intn(8) {
	case 0:
		in.Has[0] = true
		in.Start = &spell{Kind: "raw", T: []int{0, 0, 0}, Txt: B(pick2(r, badTimes))}
	case 1:
		in.Has[1] = true
		in.End = &spell{Kind: "raw", T: []int{0, 0, 0}, Txt: B(pick2(r, badTimes))}
	case 2:
		in.Has[2] = true
		in.Since = B(pick2(r, badSince))
	case 3:
		in.Has[3] = true
		in.Step = B(pick2(r, badStep))
	}
	return in
}

func pick2(r *rand.Rand, xs []string) string { return xs[r.Intn(len(xs))] }

func genRender(r *rand.Rand) cliIn {
	in := cliIn{Kind: "render", Now: []int{0, 0, 0}, Has: []bool{false, false, false, false}, Since: []int{}, Step: []int{}, Ctrs: []FakeCtr{}, Orders: [][]int{}, Opts: []bool{r.Intn(2) == 0, r.Intn(2) == 0, r.Intn(2) == 0}}
	nc := r.Intn(14)
	if r.Intn(5) == 0 {
		nc = r.Intn(30)
	}

	sec := 1700000000
	for c := 0; c < nc; c++ {
		st := renderStream{Container: B(fmt.Sprintf("c%d", c)), Entries: [][]any{}}
		if r.Intn(10) == 0 {
			st.Container = B("")
		}
		if r.Intn(15) == 0 {
			st.NoLabel = true
			st.Container = []int{}
		}
		ne := r.Intn(4)
		for k := 0; k < ne; k++ {
			ts := []int{sec + r.Intn(6), []int{0, 0, 500000000, 123456789, 1}[r.Intn(5)]}
			var msg []int
			for m := r.Intn(6); m > 0; m-- {
				msg = append(msg, []int{97, 98, 13, 10, 32, 27, 255, 10, 37, 37, 115, 100}[r.Intn(12)]) // incl. % s d: a message is data, not a layout
			}
			if msg == nil {
				msg = []int{}
			}
			st.Entries = append(st.Entries, []any{ts, msg})
		}
		in.Streams = append(in.Streams, st)
	}
	if in.Streams == nil {
		in.Streams = []renderStream{}
	}
	return in
}

// ---- System (spec/System.tla): the plugin's own command over a fake Docker CLI

type cmdCase struct {
	Ctrs  []FakeCtr `json:"ctrs"`
	Start []int     `json:"start"`
	End   []int     `json:"end"`
	Limit int       `json:"limit"`
	Opts  []bool    `json:"opts"`
	Q     []int     `json:"q"`
	BadFlag []int   `json:"badflag"`
	Since   int     `json:"since"`
}

// fakeCli is a docker CLI of which only Client() is ever asked.
type fakeCli struct {
	command.Cli
	c client.APIClient
}

func (f fakeCli) Client() client.APIClient { return f.c }

func probeCmd(tr *Trace, scn int, raw json.RawMessage) {
	tr.Scenario(scn, raw)
	var in cmdCase
	if err := json.Unmarshal(raw, &in); err != nil {
		tr.Ev(scn, "Args", F{"args_txt": "bad case: " + err.Error()})
		return
	}
	// the window ends spelled as unix seconds or RFC3339, by turns
	spellT := func(p []int, k int) string {
		if (scn+k)%2 == 0 {
			return strconv.Itoa(p[0])
		}
		return time.Unix(int64(p[0]), 0).UTC().Format(time.RFC3339)
	}
	args := []string{"query", "--start", spellT(in.Start, 0), "--end=" + spellT(in.End, 1), "--limit", strconv.Itoa(in.Limit),
		fmt.Sprintf("--timestamp=%v", in.Opts[0]), fmt.Sprintf("--container=%v", in.Opts[1]), fmt.Sprintf("--color=%v", in.Opts[2]), S(in.Q)}
	if in.Since > 0 {
		// the window as --end and --since; the duration spelled in seconds or in minutes and seconds, by turns
		d := fmt.Sprintf("%ds", in.Since)
		if scn%2 == 0 && in.Since >= 60 && in.Since%60 != 0 {
			d = fmt.Sprintf("%dm%ds", in.Since/60, in.Since%60)
		}
		args[1], args[2] = "--since", d
	}
	if in.Limit < 0 && scn%3 == 0 {
		args = append(args[:4:4], args[6:]...) // the default limit is "no limit"
	}
	if len(in.BadFlag) > 0 {
		args = append(args[:len(args)-1:len(args)-1], S(in.BadFlag), args[len(args)-1])
	}
	tr.Ev(scn, "Args", F{"args_txt": fmt.Sprint(args)})
	texts := []F{}
	seen := map[[2]int]bool{}
	for _, c := range in.Ctrs {
		for _, f := range c.Frames {
			k := [2]int{f.TS[0], f.TS[1]}
			if !seen[k] {
				seen[k] = true
				texts = append(texts, F{"ts": []int{f.TS[0], f.TS[1]}, "txt": B(time.Unix(int64(f.TS[0]), int64(f.TS[1])).Format(time.RFC3339Nano))})
			}
		}
	}
	tr.Ev(scn, "TsTexts", F{"texts": texts})
	func() {
		defer func() {
			if x := recover(); x != nil {
				tr.Ev(scn, "Panic", F{"detail_txt": fmt.Sprint(x)})
			}
		}()
		fake := newFakeDocker(nil, scn, in.Ctrs)
		root := rootCmd(fakeCli{c: fake})
		var out, errb bytes.Buffer
		root.SetOut(&out)
		root.SetErr(&errb)
		root.SetArgs(args)
		root.SilenceUsage = true
		err := root.ExecuteContext(context.Background())
		d := ""
		if err != nil {
			d = err.Error()
		}
		tr.Ev(scn, "Exit", F{"ok": err == nil, "detail_txt": d})
		tr.Ev(scn, "Rendered", F{"ok": err == nil, "out": B(out.String())})
	}()
}
