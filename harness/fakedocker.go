package main

import (
	"sync/atomic"
	"context"
	"encoding/binary"
	"errors"
	"io"
	"sort"
	"strconv"
	"sync"
	"time"

	"github.com/docker/docker/api/types"
	apicontainer "github.com/docker/docker/api/types/container"
	"github.com/docker/docker/client"
)

// Frame is one record of Docker's multiplexed log stream.
type Frame struct {
	Typ int   `json:"typ"` // 1 stdout, 2 stderr, 3 systemerr, 0 stdin
	TS  []int `json:"ts"`  // [seconds, nanoseconds]
	Msg []int `json:"msg"`
	// Raw: the payload is Msg verbatim, without a rendered timestamp (corrupt frames: bad timestamp, no space).
	Raw bool `json:"raw"`
}

func (f Frame) Time() time.Time { return time.Unix(int64(f.TS[0]), int64(f.TS[1])).UTC() }

// Payload renders timestamp + space + message the way the daemon does with Timestamps=true.
func (f Frame) Payload() []byte {
	if f.Raw {
		return []byte(S(f.Msg))
	}
	b := f.Time().AppendFormat(nil, time.RFC3339Nano)
	b = append(b, ' ')
	return append(b, S(f.Msg)...)
}

func (f Frame) Encode() []byte {
	p := f.Payload()
	h := make([]byte, 8, 8+len(p))
	h[0] = byte(f.Typ)
	binary.BigEndian.PutUint32(h[4:], uint32(len(p)))
	return append(h, p...)
}

// Fault is injected into one container's stream or open call.
type Fault struct {
	Kind string `json:"kind"` // none | open | cut | readerr | closeerr
	Ctr  int    `json:"ctr"`  // index into the inventory (1-based)
	Pos  int    `json:"pos"`  // byte offset in the (filtered) stream for cut / readerr
	// Round restricts the fault to the n-th SelectLogs (ContainerList) call, 0 = every round.
	Round int `json:"round"`
}

// FakeCtr is one container of the inventory.
type FakeCtr struct {
	ID      string            `json:"-"`
	Name    string            `json:"-"`
	Image   string            `json:"-"`
	ImageID string            `json:"-"`
	Command string            `json:"-"`
	State   string            `json:"-"`
	Status  string            `json:"-"`
	Labels  map[string]string `json:"-"`
	// abstract (byte sequence) forms, as the cases carry them
	BID      []int      `json:"id"`
	BName    []int      `json:"name"`
	BImage   []int      `json:"image"`
	BImageID []int      `json:"imageId"`
	BCommand []int      `json:"command"`
	Created  int        `json:"created"`
	BState   []int      `json:"state"`
	BStatus  []int      `json:"status"`
	LabelKV  [][2][]int `json:"labels"` // [[keyBytes, valueBytes], ...]
	Frames   []Frame    `json:"frames"`
	NoName   bool       `json:"noName"`
	// Alias: a second entry of the container's Names (a legacy --link alias "/other/alias"); the container is still ONE
	// container named by its first name
	Alias []int `json:"alias,omitempty"`
}

// simpleCtr builds a container from Go strings.
func simpleCtr(id, name string, frames []Frame) FakeCtr {
	return FakeCtr{BID: B(id), BName: B(name), BImage: B("img"), BImageID: B("sha"), BCommand: B("cmd"), Created: 1,
		BState: B("running"), BStatus: B("Up"), LabelKV: [][2][]int{}, Frames: frames}
}

// FakeDocker implements the two client.APIClient methods docker-logql uses. Every call is recorded
// with a sequence number taken under the fake's mutex; ContainerLogs calls block on a gate that the
// scheduler opens in the order the case prescribes.
type FakeDocker struct {
	client.APIClient // nil: any other method panics, which the harness would report

	mu      sync.Mutex
	t       *Trace
	scn     int
	ctrs    []FakeCtr
	listErr bool
	faults  []Fault
	frag    []int // read-size pattern, cycled; empty = unlimited
	// endWithData: the read that delivers the last bytes also reports the end of the stream (or the transport error)
	endWithData bool

	round    int
	readerID int
	opened   map[int]bool
	closed   map[int]int

	// gating
	gated     bool
	expect    []int // expected number of ContainerLogs calls per round (from the dry run)
	order     []int // priority order over inventory indices (1-based)
	arrived   map[int]chan struct{}
	arrivedN  int
	roundDone chan struct{}
	callsPer  []int // observed calls per round
	hang      bool
}

func (d *FakeDocker) ev(name string, f F) {
	// caller holds d.mu
	if d.t != nil {
		d.t.Ev(d.scn, name, f)
	}
}

func (d *FakeDocker) idx(id string) int {
	for i, c := range d.ctrs {
		if c.ID == id {
			return i + 1
		}
	}
	return 0
}

// ContainerList implements client.APIClient.
func (d *FakeDocker) ContainerList(_ context.Context, o apicontainer.ListOptions) ([]types.Container, error) {
	d.mu.Lock()
	defer d.mu.Unlock()
	d.round++
	d.callsPer = append(d.callsPer, 0)
	if d.listErr {
		d.ev("ListFail", F{"round": d.round})
		return nil, errors.New("fake: list failed")
	}
	d.ev("List", F{"round": d.round, "all": o.All})
	out := make([]types.Container, 0, len(d.ctrs))
	for _, c := range d.ctrs {
		tc := types.Container{ID: c.ID, Image: c.Image, ImageID: c.ImageID, Command: c.Command,
			Created: int64(c.Created), State: c.State, Status: c.Status, Labels: c.Labels}
		if !c.NoName {
			tc.Names = []string{"/" + c.Name}
			if len(c.Alias) > 0 {
				tc.Names = append(tc.Names, "/"+S(c.Alias))
			}
		}
		out = append(out, tc)
	}
	if d.gated && d.round <= len(d.expect) && d.expect[d.round-1] > 1 {
		d.arrived = map[int]chan struct{}{}
		d.arrivedN = 0
		go d.schedule(d.round, d.expect[d.round-1])
	}
	return out, nil
}

// schedule releases the blocked ContainerLogs calls of one round in the prescribed order.
// unschedulable counts, per process, the rounds whose calls never all arrived: after a few of them the wait is cut short
// (a change that opens the logs in batches would otherwise cost five seconds per forced order)
var unschedulable int32

func (d *FakeDocker) schedule(round, n int) {
	wait := 5 * time.Second
	if atomic.LoadInt32(&unschedulable) >= 3 {
		wait = 300 * time.Millisecond
	}
	deadline := time.Now().Add(wait)
	for {
		d.mu.Lock()
		got := d.arrivedN
		d.mu.Unlock()
		if got >= n {
			break
		}
		if time.Now().After(deadline) {
			atomic.AddInt32(&unschedulable, 1)
			d.mu.Lock()
			d.hang = true
			// release everything so the run can finish (later arrivals are not gated any more); the scenario is marked as not schedulable
			for _, ch := range d.arrived {
				select {
				case <-ch:
				default:
					close(ch)
				}
			}
			d.mu.Unlock()
			return
		}
		time.Sleep(50 * time.Microsecond)
	}
	for _, ci := range d.order {
		d.mu.Lock()
		ch, ok := d.arrived[ci]
		d.mu.Unlock()
		if !ok {
			continue
		}
		done := make(chan struct{})
		d.mu.Lock()
		d.ev("Release", F{"ctr": ci, "round": round})
		d.roundDone = done
		d.mu.Unlock()
		close(ch)
		select {
		case <-done:
		case <-time.After(5 * time.Second):
		}
		// give the released goroutine time to run its tail (iters[idx] = iter; return) before the next release
		time.Sleep(20 * time.Microsecond)
	}
}

func (d *FakeDocker) faultFor(kind string, ci, round int) *Fault {
	for i := range d.faults {
		f := &d.faults[i]
		if f.Kind == kind && f.Ctr == ci && (f.Round == 0 || f.Round == round) {
			return f
		}
	}
	return nil
}

// ContainerLogs implements client.APIClient.
func (d *FakeDocker) ContainerLogs(_ context.Context, id string, o apicontainer.LogsOptions) (io.ReadCloser, error) {
	d.mu.Lock()
	ci := d.idx(id)
	round := d.round
	if round >= 1 {
		d.callsPer[round-1]++
	}
	num := func(x string) int {
		v, err := strconv.ParseInt(x, 10, 64)
		if err != nil || v < 0 || v > 2000000000 {
			return -1
		}
		return int(v)
	}
	d.ev("ContainerLogs", F{"ctr": ci, "round": round, "since": o.Since, "until": o.Until, "sinceN": num(o.Since), "untilN": num(o.Until), "stdout": o.ShowStdout,
		"stderr": o.ShowStderr, "timestamps": o.Timestamps, "tail": o.Tail, "follow": o.Follow, "details": o.Details})
	var gate chan struct{}
	if d.gated && !d.hang && d.arrived != nil && round <= len(d.expect) && d.expect[round-1] > 1 {
		// (a container opened a second time in one round is not gated: the first call holds the gate, and the trace shows both)
		if _, dup := d.arrived[ci]; !dup {
			gate = make(chan struct{})
			d.arrived[ci] = gate
			d.arrivedN++
		}
	}
	d.mu.Unlock()
	if gate != nil {
		<-gate
	}

	d.mu.Lock()
	defer d.mu.Unlock()
	defer func() {
		if gate != nil && d.roundDone != nil {
			close(d.roundDone)
			d.roundDone = nil
		}
	}()
	if ci == 0 {
		d.ev("OpenFail", F{"ctr": 0, "round": round, "injected": false})
		return nil, errors.New("fake: no such container")
	}
	if d.faultFor("open", ci, round) != nil {
		d.ev("OpenFail", F{"ctr": ci, "round": round, "injected": true})
		return nil, errors.New("fake: open failed")
	}
	c := d.ctrs[ci-1]
	var since, until int64 = -1 << 62, 1 << 62
	if o.Since != "" {
		if v, err := strconv.ParseInt(o.Since, 10, 64); err == nil {
			since = v * 1e9
		}
	}
	if o.Until != "" {
		if v, err := strconv.ParseInt(o.Until, 10, 64); err == nil {
			until = v*1e9 + 999999999 // whole-second granularity: the fake never cuts inside the asked second
		}
	}
	var stream []byte
	for _, f := range c.Frames {
		if !f.Raw && f.Typ != 3 {
			ns := f.Time().UnixNano()
			if ns < since || ns > until {
				continue
			}
			if (f.Typ == 1 && !o.ShowStdout) || (f.Typ == 2 && !o.ShowStderr) {
				continue
			}
		}
		stream = append(stream, f.Encode()...)
	}
	d.readerID++
	r := &fakeReader{d: d, id: d.readerID, ctr: ci, round: round, data: stream, cut: -1, errAt: -1}
	if f := d.faultFor("cut", ci, round); f != nil && f.Pos <= len(stream) {
		r.cut = f.Pos
	}
	if f := d.faultFor("readerr", ci, round); f != nil && f.Pos <= len(stream) {
		r.errAt = f.Pos
	}
	d.opened[r.id] = true
	d.ev("OpenOk", F{"ctr": ci, "round": round, "reader": r.id, "len": len(stream)})
	return r, nil
}

type fakeReader struct {
	d      *FakeDocker
	id     int
	ctr    int
	round  int
	data   []byte
	pos    int
	nread  int
	cut    int // stream ends (EOF) at this offset
	errAt  int // Read returns a non-EOF error at this offset
	hit    bool
	closed bool
}

var errFakeRead = errors.New("fake: connection reset")

func (r *fakeReader) Read(p []byte) (int, error) {
	r.d.mu.Lock()
	defer r.d.mu.Unlock()
	if len(p) == 0 {
		return 0, nil
	}
	limit := len(r.data)
	if r.cut >= 0 && r.cut < limit {
		limit = r.cut
	}
	if r.errAt >= 0 && r.errAt < limit {
		limit = r.errAt
	}
	if r.pos >= limit {
		if r.errAt >= 0 && r.pos == r.errAt {
			if !r.hit {
				r.hit = true
				r.d.ev("FaultHit", F{"reader": r.id, "ctr": r.ctr, "kind": "readerr", "pos": r.pos})
			}
			return 0, errFakeRead
		}
		if !r.hit {
			r.hit = true
			r.d.ev("Eof", F{"reader": r.id, "ctr": r.ctr, "pos": r.pos, "cut": r.cut >= 0 && r.pos == r.cut && r.cut < len(r.data)})
		}
		return 0, io.EOF
	}
	n := len(p)
	if len(r.d.frag) > 0 {
		if k := r.d.frag[r.nread%len(r.d.frag)]; k > 0 && k < n {
			n = k
		}
	}
	r.nread++
	if n > limit-r.pos {
		n = limit - r.pos
	}
	copy(p, r.data[r.pos:r.pos+n])
	r.pos += n
	if r.d.endWithData && r.pos >= limit {
		// the io.Reader contract allows the last bytes to come together with the end (or the error): n > 0 and err != nil
		if r.errAt >= 0 && r.pos == r.errAt {
			if !r.hit {
				r.hit = true
				r.d.ev("FaultHit", F{"reader": r.id, "ctr": r.ctr, "kind": "readerr", "pos": r.pos})
			}
			return n, errFakeRead
		}
		if !r.hit {
			r.hit = true
			r.d.ev("Eof", F{"reader": r.id, "ctr": r.ctr, "pos": r.pos, "cut": r.cut >= 0 && r.pos == r.cut && r.cut < len(r.data)})
		}
		return n, io.EOF
	}
	return n, nil
}

func (r *fakeReader) Close() error {
	r.d.mu.Lock()
	defer r.d.mu.Unlock()
	r.d.closed[r.id]++
	r.d.ev("Close", F{"reader": r.id, "ctr": r.ctr, "times": r.d.closed[r.id]})
	if r.d.faultFor("closeerr", r.ctr, r.round) != nil {
		// the reader IS closed, but says so with an error: nobody may stop closing the others because of it
		return errors.New("fake: close failed")
	}
	return nil
}

// newFakeDocker prepares a fake over an inventory.
func newFakeDocker(t *Trace, scn int, ctrs []FakeCtr) *FakeDocker {
	cs := make([]FakeCtr, len(ctrs))
	copy(cs, ctrs)
	for i := range cs {
		c := &cs[i]
		c.ID, c.Name, c.Image, c.ImageID = S(c.BID), S(c.BName), S(c.BImage), S(c.BImageID)
		c.Command, c.State, c.Status = S(c.BCommand), S(c.BState), S(c.BStatus)
		cs[i].Labels = map[string]string{}
		for _, kv := range cs[i].LabelKV {
			cs[i].Labels[S(kv[0])] = S(kv[1])
		}
	}
	return &FakeDocker{t: t, scn: scn, ctrs: cs, opened: map[int]bool{}, closed: map[int]int{}}
}

// sortedLabels projects a label map to the abstract domain: array of [name, value] byte sequences sorted by name.
func sortedLabels(m map[string]string) [][2][]int {
	keys := make([]string, 0, len(m))
	for k := range m {
		keys = append(keys, k)
	}
	sort.Strings(keys)
	out := make([][2][]int, 0, len(keys))
	for _, k := range keys {
		out = append(out, [2][]int{B(k), B(m[k])})
	}
	return out
}

func logsAll() apicontainer.LogsOptions {
	return apicontainer.LogsOptions{ShowStdout: true, ShowStderr: true, Timestamps: true, Tail: "all"}
}
