package main

import (
	"sort"
	"encoding/json"
	"fmt"
	"math"
	"math/rand"
	"regexp"
	"strconv"
	"strings"
	"time"

	"github.com/tdakkota/docker-logql/internal/logql"
)

// C05: logql.Parse(text) for query texts written from an AST under a layout (whitespace, comments, quoting,
// redundant parentheses, grouping position, duration spelling) or with a forbidden mutation applied.
// The returned tree is projected to the same vocabulary ("wire" form) and compared by TLC with the AST.
type famParse struct{}

func init() { register("parse", famParse{}) }

type layoutIn struct {
	WS      int  `json:"ws"`      // 0 single spaces, 1 double spaces around punctuation, 2 newlines, 3 tabs, 4 comments
	Raw     bool `json:"raw"`     // back-quoted strings where possible
	Paren   bool `json:"paren"`   // redundant parentheses around the selector / the whole metric expression
	GrpPre  bool `json:"grpPre"`  // vector aggregation grouping before the operand: sum by (a) (x)
	DurComp bool `json:"durComp"` // compound duration spelling: 90s -> 1m30s
	// RangeFirst: the range (and offset) directly behind the selector, the pipeline after it: op({sel} [5m] offset 1m | logfmt | unwrap v)
	RangeFirst bool `json:"rangeFirst"`
}

type parseIn struct {
	Kind   string      `json:"kind"` // log | metric
	Sel    []matcherIn `json:"sel"`
	Stages []stageIn   `json:"stages"`
	Expr   *mexprIn    `json:"expr,omitempty"`
	Layout layoutIn    `json:"layout"`
	Mut    string      `json:"mut"` // "" or the name of a forbidden mutation
}

func durText(sec int, compound bool) string {
	if !compound || sec < 60 {
		return fmt.Sprintf("%ds", sec)
	}
	var sb strings.Builder
	if h := sec / 3600; h > 0 {
		sb.WriteString(fmt.Sprintf("%dh", h))
		sec %= 3600
	}
	if m := sec / 60; m > 0 {
		sb.WriteString(fmt.Sprintf("%dm", m))
		sec %= 60
	}
	if sec > 0 {
		sb.WriteString(fmt.Sprintf("%ds", sec))
	}
	return sb.String()
}

// relayout rewrites the single-space canonical text: separators are varied outside string literals.
func relayout(q string, l layoutIn) string {
	if l.WS == 0 && !l.Raw {
		return q
	}
	sep := []string{" ", "  ", "\n", "\t ", " # c\n"}[l.WS%5]
	var sb strings.Builder
	inStr := false
	for i := 0; i < len(q); i++ {
		c := q[i]
		if inStr {
			sb.WriteByte(c)
			if c == '\\' && i+1 < len(q) {
				i++
				sb.WriteByte(q[i])
			} else if c == '"' {
				inStr = false
			}
			continue
		}
		switch {
		case c == '"':
			// back-quote the literal when its VALUE is printable ASCII without a back quote (a raw literal has no escapes:
			// quotes and backslashes of the value stand for themselves, also at its first and last position)
			if l.Raw {
				j := i + 1
				for j < len(q) && q[j] != '"' {
					if q[j] == '\\' {
						j++
					}
					j++
				}
				if j < len(q) {
					if val, err := strconv.Unquote(q[i : j+1]); err == nil {
						plain := true
						for k := 0; k < len(val); k++ {
							if val[k] == '`' || val[k] < 0x20 || val[k] > 0x7e {
								plain = false
							}
						}
						if plain {
							sb.WriteString("`" + val + "`")
							i = j
							continue
						}
					}
				}
			}
			inStr = true
			sb.WriteByte(c)
		case c == ' ':
			sb.WriteString(sep)
		case l.WS > 0 && strings.ContainsRune("(),[]{}", rune(c)):
			sb.WriteString(sep + string(c) + sep)
		default:
			sb.WriteByte(c)
		}
	}
	return sb.String()
}

func (in *parseIn) text() string {
	var q string
	if in.Kind == "log" {
		parts := []string{renderSelector(in.Sel)}
		for i := range in.Stages {
			parts = append(parts, in.Stages[i].text())
		}
		q = strings.Join(parts, " ")
		if in.Layout.Paren {
			q = "(" + q + ")"
		}
	} else {
		q = in.Expr.textL(in.Layout)
		if in.Layout.Paren {
			q = "(" + q + ")"
		}
	}
	return q
}

// textL renders a metric expression honouring the layout's grouping position and duration spelling.
func (e *mexprIn) textL(l layoutIn) string {
	switch e.T {
	case "range":
		s := e.text()
		s = strings.Replace(s, fmt.Sprintf("[%ds]", e.Range), "["+durText(e.Range, l.DurComp)+"]", 1)
		if e.Offset != 0 {
			s = strings.Replace(s, fmt.Sprintf("offset %ds", e.Offset), "offset "+durText(e.Offset, l.DurComp), 1)
		}
		if l.RangeFirst {
			// move " [range] offset o" from behind the pipeline to directly behind the selector
			ro := " [" + durText(e.Range, l.DurComp) + "]"
			if e.Offset != 0 {
				ro += " offset " + durText(e.Offset, l.DurComp)
			}
			sel := renderLogQuery(e.Sel, nil)
			if i := strings.LastIndex(s, ro); i >= 0 && strings.Contains(s, "("+sel) {
				s = s[:i] + s[i+len(ro):]
				s = strings.Replace(s, "("+sel, "("+sel+ro, 1)
			}
		}
		return s
	case "vecagg":
		inner := e.E.textL(l)
		if e.Op == "topk" || e.Op == "bottomk" {
			inner = fmt.Sprint(e.K) + ", " + inner
		}
		g := e.Grp.text()
		switch {
		case g == "":
			return e.Op + "(" + inner + ")"
		case l.GrpPre:
			return e.Op + " " + g + " (" + inner + ")"
		default:
			return e.Op + "(" + inner + ") " + g
		}
	case "binop":
		op := binText[e.Op]
		if e.Bool {
			op += " bool"
		}
		if e.Mod != nil {
			op += " " + e.Mod.text()
		}
		side := func(x *mexprIn) string {
			if x.T == "binop" {
				return "(" + x.textL(l) + ")"
			}
			return x.textL(l)
		}
		return side(e.A) + " " + op + " " + side(e.B)
	case "lrepl":
		return "label_replace(" + e.E.textL(l) + ", " + strconv.Quote(S(e.Dst)) + ", " + strconv.Quote(S(e.Repl)) + ", " + strconv.Quote(S(e.Src)) + ", " + strconv.Quote(S(e.Regex)) + ")"
	}
	return e.text()
}

// ---- mutations: each turns a valid query into a text the grammar or its static rules forbid
// outsideStrings returns the offsets of tok in q that lie outside string literals.
func outsideStrings(q, tok string) []int {
	var out []int
	inStr := byte(0)
	for i := 0; i < len(q); i++ {
		c := q[i]
		switch {
		case inStr != 0:
			if c == '\\' && inStr == '"' {
				i++
			} else if c == inStr {
				inStr = 0
			}
		case c == '"' || c == '`':
			inStr = c
		case strings.HasPrefix(q[i:], tok):
			out = append(out, i)
		}
	}
	return out
}

func mutate(in *parseIn, q string) (string, bool) {
	cutLast := func(s, tok string) (string, bool) {
		at := outsideStrings(s, tok)
		if len(at) == 0 {
			return s, false
		}
		i := at[len(at)-1]
		return s[:i] + s[i+len(tok):], true
	}
	switch in.Mut {
	case "drop_close_brace":
		// the brace that closes the (first) selector: the first one outside string literals
		inStr := byte(0)
		for i := 0; i < len(q); i++ {
			c := q[i]
			switch {
			case inStr != 0:
				if c == '\\' && inStr == '"' {
					i++
				} else if c == inStr {
					inStr = 0
				}
			case c == '"' || c == '`':
				inStr = c
			case c == '}':
				return q[:i] + q[i+1:], true
			}
		}
		return q, false
	case "drop_close_paren":
		return cutLast(q, ")")
	case "drop_close_bracket":
		return cutLast(q, "]")
	case "double_pipe":
		at := outsideStrings(q, "| ")
		if len(at) == 0 {
			return q, false
		}
		i := at[0]
		return q[:i] + "| | " + q[i+2:], true
	case "trailing_op":
		return q + " |=", true
	case "trailing_junk":
		return q + " }", true
	case "unterminated_string":
		// drop the closing delimiter of the last string literal (quoted or raw; a quote INSIDE a raw literal is not one)
		last := -1
		for i := 0; i < len(q); i++ {
			switch q[i] {
			case '#':
				for i < len(q) && q[i] != '\n' {
					i++
				}
			case '"':
				for i++; i < len(q) && q[i] != '"'; i++ {
					if q[i] == '\\' {
						i++
					}
				}
				last = i
			case '`':
				for i++; i < len(q) && q[i] != '`'; i++ {
				}
				last = i
			}
		}
		if last < 0 || last >= len(q) {
			return q, false
		}
		return q[:last] + q[last+1:], true
	case "bad_regex":
		if in.Kind != "log" {
			return q, false
		}
		return q + " |~ \"(\"", true
	case "bad_label_regex":
		if in.Kind != "log" {
			return q, false
		}
		if strings.HasPrefix(q, "{}") || strings.HasPrefix(q, "({}") {
			return strings.Replace(q, "}", "zz=~\"[\"}", 1), true
		}
		return strings.Replace(q, "}", ", zz=~\"[\"}", 1), true
	case "upper_stage":
		// a stage keyword in upper case is an identifier: `| JSON` begins a label filter that never ends
		if in.Kind != "log" {
			return q, false
		}
		for _, kw := range []string{"| json", "| logfmt", "| unpack", "| decolorize", "| drop ", "| keep ", "| distinct ", "| pattern ", "| regexp ", "| line_format ", "| label_format "} {
			if at := outsideStrings(q, kw); len(at) > 0 {
				// (`| JSON != "x"` would be a label filter on a label named JSON: a valid text)
				rest := strings.TrimLeft(q[at[0]+len(kw):], " \t\r\n")
				for strings.HasPrefix(rest, "#") { // a comment runs to the end of its line
					if nl := strings.IndexByte(rest, '\n'); nl >= 0 {
						rest = strings.TrimLeft(rest[nl+1:], " \t\r\n")
					} else {
						rest = ""
					}
				}
				if strings.HasPrefix(rest, "!=") || strings.HasPrefix(rest, "!~") {
					continue
				}
				return q[:at[0]] + strings.ToUpper(kw) + q[at[0]+len(kw):], true
			}
		}
		return q, false
	case "unwrap_in_log":
		if in.Kind != "log" {
			return q, false
		}
		return q + " | unwrap v", true
	case "dup_label_format":
		if in.Kind != "log" {
			return q, false
		}
		return q + " | label_format d=a, d=b", true
	case "dup_label_format_mixed":
		if in.Kind != "log" {
			return q, false
		}
		return q + " | label_format d=a, e=b, d=\"t\"", true
	case "dup_label_format_mixed2":
		if in.Kind != "log" {
			return q, false
		}
		return q + " | label_format d=\"t\", d=a", true
	case "dup_label_format_tmpl":
		if in.Kind != "log" {
			return q, false
		}
		return q + " | label_format d=\"t\", e=a, d=\"u\"", true
	case "empty_selector_matcher":
		return strings.Replace(q, "{", "{,", 1), strings.Contains(q, "{")
	case "quantile_no_param", "param_not_allowed", "topk_no_param", "topk_zero", "sort_grouping", "range_grouping", "unwrap_missing", "unwrap_forbidden", "missing_range",
		"lrepl_bad_regex", "lrepl_three_args", "lrepl_bare_arg", "on_without_labels", "group_without_on", "upper_keyword":
		if in.Kind != "metric" {
			return q, false
		}
		base := "{a=\"b\"}"
		switch in.Mut {
		case "upper_keyword":
			for _, kw := range []string{" by ", " without ", " unwrap ", " offset ", " bool ", " on ", " ignoring "} {
				if at := outsideStrings(q, kw); len(at) > 0 {
					return q[:at[0]] + strings.ToUpper(kw) + q[at[0]+len(kw):], true
				}
			}
			return q, false
		case "lrepl_bad_regex":
			return "label_replace(" + q + ", \"d\", \"$1\", \"s\", \"(\")", true
		case "lrepl_three_args":
			return "label_replace(" + q + ", \"d\", \"$1\", \"s\")", true
		case "lrepl_bare_arg":
			return "label_replace(" + q + ", d, \"$1\", \"s\", \"(.*)\")", true
		case "on_without_labels":
			return "(" + q + ") / on count_over_time(" + base + " [5s])", true
		case "group_without_on":
			return "(" + q + ") / group_left count_over_time(" + base + " [5s])", true
		case "quantile_no_param":
			return "quantile_over_time(" + base + " | unwrap v [5s])", true
		case "param_not_allowed":
			return "sum_over_time(0.5, " + base + " | unwrap v [5s])", true
		case "topk_no_param":
			return "topk(" + q + ")", true
		case "topk_zero":
			return "topk(0, " + q + ")", true
		case "sort_grouping":
			return "sort by (a) (" + q + ")", true
		case "range_grouping":
			return "count_over_time(" + base + " [5s]) by (a)", true
		case "unwrap_missing":
			return "sum_over_time(" + base + " [5s])", true
		case "unwrap_forbidden":
			return "count_over_time(" + base + " | unwrap v [5s])", true
		case "missing_range":
			return "count_over_time(" + base + ")", true
		}
	}
	return q, false
}

func (famParse) Exec(scn int, raw json.RawMessage, t *Trace, _ map[string]string) error {
	var in parseIn
	if err := json.Unmarshal(raw, &in); err != nil {
		return err
	}
	t.Scenario(scn, raw)
	q := relayout(in.text(), in.Layout)
	applied := true
	if in.Mut != "" {
		q, applied = mutate(&in, q)
	}
	t.Ev(scn, "Text", F{"txt": q, "applied": applied})
	func() {
		defer func() {
			if x := recover(); x != nil {
				t.Ev(scn, "Panic", F{"detail_txt": fmt.Sprint(x)})
			}
		}()
		expr, err := logql.Parse(q, logql.ParseOptions{})
		if err != nil {
			t.Ev(scn, "Parsed", F{"err": true, "ast": F{"t": "none"}, "detail_txt": err.Error()})
			return
		}
		t.Ev(scn, "Parsed", F{"err": false, "ast": wireExpr(expr)})
	}()
	return nil
}

// ---- projection of the parser's tree to the wire vocabulary

func wireOp(op logql.BinOp) string {
	switch op {
	case logql.OpEq:
		return "eq"
	case logql.OpNotEq:
		return "neq"
	case logql.OpRe:
		return "re"
	case logql.OpNotRe:
		return "nre"
	case logql.OpGt:
		return "gt"
	case logql.OpGte:
		return "gte"
	case logql.OpLt:
		return "lt"
	case logql.OpLte:
		return "lte"
	case logql.OpAnd:
		return "and"
	case logql.OpOr:
		return "or"
	case logql.OpUnless:
		return "unless"
	case logql.OpAdd:
		return "add"
	case logql.OpSub:
		return "sub"
	case logql.OpMul:
		return "mul"
	case logql.OpDiv:
		return "div"
	case logql.OpMod:
		return "mod"
	case logql.OpPow:
		return "pow"
	}
	return "?"
}

func ratPair(v float64) []int {
	r := ratOf(v)
	if r["t"] != "rat" {
		return []int{0, 0}
	}
	return []int{r["n"].(int), r["d"].(int)}
}

// reText: the text of the compiled expression a regex position carries (anchored for matchers, as written for line
// filters), empty where there is none.
func reText(re *regexp.Regexp) []int {
	if re == nil {
		return []int{}
	}
	return B(re.String())
}

func wireMatchers(ms []logql.LabelMatcher) []F {
	out := []F{}
	for _, m := range ms {
		out = append(out, F{"label": B(string(m.Label)), "op": wireOp(m.Op), "val": B(m.Value), "re": reText(m.Re)})
	}
	return out
}

func wireLabels(ls []logql.Label) [][]int {
	out := [][]int{}
	for _, l := range ls {
		out = append(out, B(string(l)))
	}
	return out
}

func wirePred(p logql.LabelPredicate) F {
	switch p := p.(type) {
	case *logql.LabelPredicateParen:
		return wirePred(p.X)
	case *logql.LabelPredicateBinOp:
		return F{"t": wireOp(p.Op), "a": wirePred(p.Left), "b": wirePred(p.Right)}
	case *logql.LabelMatcher:
		return F{"t": "m", "label": B(string(p.Label)), "op": wireOp(p.Op), "val": B(p.Value), "re": reText(p.Re)}
	case *logql.NumberFilter:
		return F{"t": "num", "label": B(string(p.Label)), "op": wireOp(p.Op), "val": ratPair(p.Value)}
	case *logql.DurationFilter:
		return F{"t": "dur", "label": B(string(p.Label)), "op": wireOp(p.Op), "val": ratPair(p.Value.Seconds())}
	case *logql.BytesFilter:
		return F{"t": "bytes", "label": B(string(p.Label)), "op": wireOp(p.Op), "val": []int{int(p.Value), 1}}
	case *logql.IPFilter:
		return F{"t": "ip", "label": B(string(p.Label)), "op": wireOp(p.Op), "val": B(p.Value)}
	}
	return F{"t": "?"}
}

func wireStages(stages []logql.PipelineStage) []F {
	out := []F{}
	for _, st := range stages {
		switch st := st.(type) {
		case *logql.LineFilter:
			if st.IP {
				out = append(out, F{"t": "lineip", "op": wireOp(st.Op), "val": B(st.Value)})
			} else {
				out = append(out, F{"t": "line", "op": wireOp(st.Op), "val": B(st.Value), "re": reText(st.Re)})
			}
		case *logql.LabelFilter:
			out = append(out, F{"t": "label", "pred": wirePred(st.Pred)})
		case *logql.JSONExpressionParser:
			ex := [][][]int{}
			for _, e := range st.Exprs {
				ex = append(ex, [][]int{B(string(e.Label)), B(e.Expr)})
			}
			out = append(out, F{"t": "json", "labels": wireLabels(st.Labels), "exprs": ex})
		case *logql.LogfmtExpressionParser:
			ex := [][][]int{}
			for _, e := range st.Exprs {
				ex = append(ex, [][]int{B(string(e.Label)), B(e.Expr)})
			}
			out = append(out, F{"t": "logfmt", "labels": wireLabels(st.Labels), "exprs": ex})
		case *logql.PatternLabelParser:
			out = append(out, F{"t": "pattern", "txt": B(st.Pattern)})
		case *logql.RegexpLabelParser:
			// named groups with the index of their capturing group
			idx := make([]int, 0, len(st.Mapping))
			for i := range st.Mapping {
				idx = append(idx, i)
			}
			sort.Ints(idx)
			names := []any{}
			for _, i := range idx {
				names = append(names, []any{i, B(string(st.Mapping[i]))})
			}
			out = append(out, F{"t": "regexp", "txt": B(st.Regexp.String()), "names": names})
		case *logql.UnpackLabelParser:
			out = append(out, F{"t": "unpack"})
		case *logql.DecolorizeExpr:
			out = append(out, F{"t": "decolorize"})
		case *logql.LineFormat:
			out = append(out, F{"t": "linefmt", "txt": B(st.Template)})
		case *logql.LabelFormatExpr:
			rn, tp := [][][]int{}, [][][]int{}
			for _, r := range st.Labels {
				rn = append(rn, [][]int{B(string(r.To)), B(string(r.Label))}) // [dst, src]
			}
			for _, v := range st.Values {
				tp = append(tp, [][]int{B(string(v.Label)), B(v.Template)})
			}
			out = append(out, F{"t": "labelfmt", "renames": rn, "tmpls": tp})
		case *logql.DropLabelsExpr:
			out = append(out, F{"t": "drop", "labels": wireLabels(st.Labels), "matchers": wireMatchers(st.Matchers)})
		case *logql.KeepLabelsExpr:
			out = append(out, F{"t": "keep", "labels": wireLabels(st.Labels), "matchers": wireMatchers(st.Matchers)})
		case *logql.DistinctFilter:
			out = append(out, F{"t": "distinct", "labels": wireLabels(st.Labels)})
		default:
			out = append(out, F{"t": "?"})
		}
	}
	return out
}

func wireGrp(g *logql.Grouping) F {
	if g == nil {
		return F{"mode": "none", "labels": [][]int{}}
	}
	mode := "by"
	if g.Without {
		mode = "without"
	}
	return F{"mode": mode, "labels": wireLabels(g.Labels)}
}

func wireExpr(e logql.Expr) F {
	switch e := logql.UnparenExpr(e).(type) {
	case *logql.LogExpr:
		return F{"t": "log", "sel": wireMatchers(e.Sel.Matchers), "stages": wireStages(e.Pipeline)}
	case *logql.RangeAggregationExpr:
		uw := F{"on": false, "label": []int{}, "conv": "", "filters": []F{}}
		if u := e.Range.Unwrap; u != nil {
			uw = F{"on": true, "label": B(string(u.Label)), "conv": u.Op, "filters": wireMatchers(u.Filters)}
		}
		param := []int{0, 1}
		if e.Parameter != nil {
			param = ratPair(*e.Parameter)
		}
		off := 0
		if e.Range.Offset != nil {
			off = int(e.Range.Offset.Duration / time.Second)
		}
		rng := int(e.Range.Range / time.Second)
		if e.Range.Range%time.Second != 0 {
			rng = -1
		}
		return F{"t": "range", "op": e.Op.String(), "sel": wireMatchers(e.Range.Sel.Matchers), "stages": wireStages(e.Range.Pipeline), "range": rng,
			"offset": off, "unwrap": uw, "param": param, "grp": wireGrp(e.Grouping)}
	case *logql.VectorAggregationExpr:
		k := 0
		if e.Parameter != nil {
			k = *e.Parameter
		}
		return F{"t": "vecagg", "op": e.Op.String(), "k": k, "grp": wireGrp(e.Grouping), "e": wireExpr(e.Expr)}
	case *logql.BinOpExpr:
		m := e.Modifier
		return F{"t": "binop", "op": wireOp(e.Op), "bool": m.ReturnBool, "a": wireExpr(e.Left), "b": wireExpr(e.Right),
			"mod": F{"op": m.Op, "labels": wireLabels(m.OpLabels), "group": m.Group, "include": wireLabels(m.Include)}}
	case *logql.LabelReplaceExpr:
		re := ""
		if e.Re != nil {
			re = e.Re.String()
		}
		return F{"t": "lrepl", "e": wireExpr(e.Expr), "dst": B(e.DstLabel), "repl": B(e.Replacement), "src": B(e.SrcLabel), "regex": B(e.Regex), "re": B(re)}
	case *logql.LiteralExpr:
		if math.IsNaN(e.Value) {
			return F{"t": "lit", "v": []int{0, 0}}
		}
		return F{"t": "lit", "v": ratPair(e.Value)}
	case *logql.VectorExpr:
		return F{"t": "vector", "v": ratPair(e.Value)}
	}
	return F{"t": "?"}
}

// ---- random driver: log queries from the log-query generator, metric queries from the metric generators

var parseMuts = []string{"drop_close_brace", "drop_close_paren", "drop_close_bracket", "double_pipe", "trailing_op", "trailing_junk", "unterminated_string",
	"bad_regex", "bad_label_regex", "unwrap_in_log", "dup_label_format", "dup_label_format_mixed", "dup_label_format_mixed2", "dup_label_format_tmpl", "empty_selector_matcher", "quantile_no_param", "param_not_allowed", "topk_no_param",
	"topk_zero", "sort_grouping", "range_grouping", "unwrap_missing", "unwrap_forbidden", "missing_range",
	"lrepl_bad_regex", "lrepl_three_args", "lrepl_bare_arg", "on_without_labels", "group_without_on", "upper_keyword", "upper_stage"}

func (famParse) Gen(r *rand.Rand, n int, _ map[string]string) []any {
	out := make([]any, 0, n)
	for i := 0; i < n; i++ {
		in := parseIn{Sel: []matcherIn{}, Stages: []stageIn{}, Layout: layoutIn{WS: r.Intn(5), Raw: r.Intn(3) == 0, Paren: r.Intn(4) == 0, GrpPre: r.Intn(2) == 0, DurComp: r.Intn(2) == 0, RangeFirst: r.Intn(3) == 0}}
		switch r.Intn(5) {
		case 0:
			in.Kind = "log"
			lq := genLogq(r, "select")
			in.Sel, in.Stages = lq.Sel, lq.Stages
		case 1:
			in.Kind = "log"
			if r.Intn(2) == 0 {
				in.Stages = genExtract(r).Stages
			} else {
				in.Stages = genRewrite(r).Stages
			}
		case 2:
			in.Kind = "metric"
			e := genRange(r, 1, true)
			e.Range = []int{1, 5, 60, 90, 300, 3600, 5400}[r.Intn(7)]
			if e.Offset != 0 {
				e.Offset = []int{1, 30, 90, 3600}[r.Intn(4)]
			}
			in.Expr = e
		case 3:
			in.Kind = "metric"
			_, e, _ := genVecAggCase(r)
			in.Expr = &e
		default:
			in.Kind = "metric"
			_, e, _ := genBinOpCase(r)
			in.Expr = &e
		}
		if r.Intn(4) == 0 {
			// label names that read like keywords or function names but for their case: identifiers, not keywords
			kw := []string{"Offset", "JSON", "By", "ON", "Keep", "Pattern", "Drop", "Bool", "IP", "Unwrap", "Logfmt", "Without", "Duration", "Bytes", "Sum", "Rate", "Topk",
				"Vector", "AND", "Or", "Unless", "Ignoring", "Group_left", "Label_format", "Line_format", "Decolorize", "Distinct", "Count_over_time", "Regexp", "Unpack", "oR", "bY"}
			m := map[string]string{}
			ren := func(x []int) []int {
				k := S(x)
				if _, ok := m[k]; !ok {
					m[k] = k
					if r.Intn(2) == 0 {
						m[k] = pick(r, kw)
					}
				}
				return B(m[k])
			}
			renameIdentLabels(&in, ren)
		}
		if in.Kind == "metric" {
			decorateParseExpr(r, in.Expr, 0)
			if r.Intn(8) == 0 {
				in.Expr = genLabelReplace(r, in.Expr)
			}
		}
		// literal values whose first or last byte is a quote or a backslash (both quoting styles must keep them)
		edgy := []string{"\"error\"", "\"", "x\"", "\"x", "a\\b", "\\", "\"\"", "'\"'", "\\\""}
		for k := range in.Stages {
			if in.Stages[k].T == "line" && (in.Stages[k].Op == "eq" || in.Stages[k].Op == "neq") && r.Intn(3) == 0 {
				in.Stages[k].Val = B(pick(r, edgy))
			}
		}
		for k := range in.Sel {
			if (in.Sel[k].Op == "eq" || in.Sel[k].Op == "neq") && r.Intn(3) == 0 {
				in.Sel[k].Val = B(pick(r, edgy))
			}
		}
		if r.Intn(4) == 0 {
			in.Mut = parseMuts[r.Intn(len(parseMuts))]
		}
		out = append(out, in)
	}
	return out
}

// decorateParseExpr gives some binary operations between two vectors a vector-matching modifier (the parser keeps them;
// the engine refuses to evaluate them, so only C05 sees them) and wraps some operands in label_replace.
func decorateParseExpr(r *rand.Rand, e *mexprIn, depth int) {
	if e == nil {
		return
	}
	switch e.T {
	case "binop":
		if r.Intn(3) == 0 {
			names := []string{"app", "zone", "k", "a", "level"}
			ls := func(n int) IntsList {
				out := IntsList{}
				for i := 0; i < n; i++ {
					out = append(out, B(pick(r, names)))
				}
				return out
			}
			m := &modIn{Op: []string{"on", "ignoring"}[r.Intn(2)], Labels: ls(r.Intn(3)), Include: IntsList{}}
			if r.Intn(2) == 0 {
				m.Group = []string{"left", "right"}[r.Intn(2)]
				switch r.Intn(3) {
				case 0:
					m.Include = ls(1 + r.Intn(2))
				case 1:
					m.EmptyParens = 1
				}
			}
			e.Mod = m
		}
		for _, side := range []**mexprIn{&e.A, &e.B} {
			decorateParseExpr(r, *side, depth+1)
			if (*side).T != "lit" && depth < 2 && r.Intn(10) == 0 {
				*side = genLabelReplace(r, *side)
			}
		}
	case "vecagg":
		decorateParseExpr(r, e.E, depth+1)
		if depth < 2 && r.Intn(10) == 0 {
			e.E = genLabelReplace(r, e.E)
		}
	case "lrepl":
		decorateParseExpr(r, e.E, depth+1)
	}
}

func genLabelReplace(r *rand.Rand, inner *mexprIn) *mexprIn {
	return &mexprIn{T: "lrepl", E: inner, Sel: []matcherIn{}, Stages: []stageIn{}, Param: Ints{0, 1}, V: Ints{0, 1},
		Grp: grpIn{Mode: "none", Labels: IntsList{}},
		Dst:   B(pick(r, []string{"dst", "app", "zone", "a b", ""})),
		Repl:  B(pick(r, []string{"$1", "${1}-x", "fixed", "", "$2:$1", "a\"b"})),
		Src:   B(pick(r, []string{"app", "src", "zone", ""})),
		Regex: B(pick(r, []string{"(.*)", "a(b|c)", "(.+)-(.+)", "", "x", "^y$", "(?i)z"}))}
}

// renameIdentLabels applies ren to the label names that the grammar reads as identifiers: selector and drop / keep matchers,
// label predicates, parser label lists, distinct, grouping, unwrap (label_format targets stay: two must not collide).
func renameIdentLabels(in *parseIn, ren func([]int) []int) {
	var pred func(p *predIn)
	pred = func(p *predIn) {
		if p == nil {
			return
		}
		if p.A != nil || p.B != nil {
			pred(p.A)
			pred(p.B)
			return
		}
		p.Label = ren(p.Label)
	}
	ms := func(m []matcherIn) {
		for i := range m {
			m[i].Label = ren(m[i].Label)
		}
	}
	stages := func(st []stageIn) {
		for i := range st {
			switch st[i].T {
			case "label":
				pred(st[i].Pred)
			case "drop", "keep", "distinct":
				for k := range st[i].Labels {
					st[i].Labels[k] = ren(st[i].Labels[k])
				}
				if len(st[i].Label) > 0 {
					st[i].Label = ren(st[i].Label)
				}
				ms(st[i].Matchers)
			}
		}
	}
	ms(in.Sel)
	stages(in.Stages)
	var ex func(e *mexprIn)
	ex = func(e *mexprIn) {
		if e == nil {
			return
		}
		switch e.T {
		case "range":
			ms(e.Sel)
			stages(e.Stages)
			if e.Unwrap.On {
				e.Unwrap.Label = ren(e.Unwrap.Label)
				ms(e.Unwrap.Filters)
			}
		}
		for k := range e.Grp.Labels {
			e.Grp.Labels[k] = ren(e.Grp.Labels[k])
		}
		ex(e.E)
		ex(e.A)
		ex(e.B)
	}
	ex(in.Expr)
}
