package main

import (
	"encoding/json"
	"fmt"
	"math/rand"
	"strings"
)

// ---- JSON documents in the vocabulary of spec/JsonDoc.tla

type jval struct {
	K      string      `json:"k"` // str | num | bool | null | obj | arr
	S      Ints        `json:"s"`
	Txt    Ints        `json:"txt"`
	B      bool        `json:"b"`
	Fields [][2]any    `json:"fields"` // [[key bytes, value], ...]
	Items  []*jval     `json:"items"`
}

func (v *jval) MarshalJSON() ([]byte, error) {
	m := map[string]any{"k": v.K}
	switch v.K {
	case "str":
		m["s"] = v.S
	case "num":
		m["txt"] = v.Txt
	case "bool":
		m["b"] = v.B
	case "obj":
		f := v.Fields
		if f == nil {
			f = [][2]any{}
		}
		m["fields"] = f
	case "arr":
		it := v.Items
		if it == nil {
			it = []*jval{}
		}
		m["items"] = it
	}
	return json.Marshal(m)
}

func jstr(s string) *jval { return &jval{K: "str", S: B(s)} }
func jnum(s string) *jval { return &jval{K: "num", Txt: B(s)} }

// canonical encoding: must agree byte for byte with EncJson of spec/JsonDoc.tla
func (v *jval) enc() string {
	switch v.K {
	case "str":
		return jsonQuote(S(v.S))
	case "num":
		return S(v.Txt)
	case "bool":
		if v.B {
			return "true"
		}
		return "false"
	case "null":
		return "null"
	case "obj":
		parts := make([]string, 0, len(v.Fields))
		for _, f := range v.Fields {
			parts = append(parts, jsonQuote(S(f[0].(Ints)))+":"+f[1].(*jval).enc())
		}
		return "{" + strings.Join(parts, ",") + "}"
	case "arr":
		parts := make([]string, 0, len(v.Items))
		for _, it := range v.Items {
			parts = append(parts, it.enc())
		}
		return "[" + strings.Join(parts, ",") + "]"
	}
	panic("bad jval")
}

// a different but equivalent encoding: whitespace, \u escapes (checked against encoding/json below)
func (v *jval) encLoose(r *rand.Rand) string {
	sp := func() string { return []string{"", " ", "  ", "\t"}[r.Intn(4)] }
	qs := func(s string) string {
		var sb strings.Builder
		sb.WriteByte('"')
		for i := 0; i < len(s); i++ {
			c := s[i]
			switch {
			case c == '"' || c == '\\':
				sb.WriteByte('\\')
				sb.WriteByte(c)
			case c < 0x80 && r.Intn(6) == 0:
				sb.WriteString(fmt.Sprintf("\\u%04x", c))
			default:
				sb.WriteByte(c)
			}
		}
		sb.WriteByte('"')
		return sb.String()
	}
	switch v.K {
	case "str":
		return qs(S(v.S))
	case "obj":
		parts := make([]string, 0, len(v.Fields))
		for _, f := range v.Fields {
			parts = append(parts, sp()+qs(S(f[0].(Ints)))+sp()+":"+sp()+f[1].(*jval).encLoose(r)+sp())
		}
		return "{" + strings.Join(parts, ",") + "}"
	case "arr":
		parts := make([]string, 0, len(v.Items))
		for _, it := range v.Items {
			parts = append(parts, sp()+it.encLoose(r)+sp())
		}
		return "[" + strings.Join(parts, ",") + "]"
	}
	return v.enc()
}

// toAny gives the document as encoding/json sees it (to assert that a loose encoding denotes the same document)
func (v *jval) toAny() any {
	switch v.K {
	case "str":
		return S(v.S)
	case "num":
		return json.Number(S(v.Txt))
	case "bool":
		return v.B
	case "null":
		return nil
	case "obj":
		m := map[string]any{}
		for _, f := range v.Fields {
			m[S(f[0].(Ints))] = f[1].(*jval).toAny()
		}
		return m
	case "arr":
		out := []any{}
		for _, it := range v.Items {
			out = append(out, it.toAny())
		}
		return out
	}
	return nil
}

var jKeys = []string{"a", "b", "a.b", "1a", "k", "x y"}
var jScalars = []func() *jval{
	func() *jval { return jstr("") }, func() *jval { return jstr("x") }, func() *jval { return jstr("x y") }, func() *jval { return jstr(`q"t`) },
	func() *jval { return jstr(`b\s`) }, func() *jval { return jnum("7") }, func() *jval { return jnum("-1") }, func() *jval { return jnum("1.5") },
	func() *jval { return &jval{K: "bool", B: true} }, func() *jval { return &jval{K: "bool", B: false} }, func() *jval { return &jval{K: "null"} },
	func() *jval { return jnum("0") }, func() *jval { return jstr("10s") },
	// arrays holding nulls
	func() *jval { return &jval{K: "arr", Items: []*jval{{K: "null"}}} }, func() *jval { return &jval{K: "arr", Items: []*jval{jnum("1"), {K: "null"}, jstr("x")}} },
	// integers a float64 cannot hold exactly: the label is the number as written
	func() *jval { return jnum("1700000000123456789") }, func() *jval { return jnum("9007199254740993") },
}

func genJval(r *rand.Rand, depth int) *jval {
	if depth <= 0 || r.Intn(3) != 0 {
		return jScalars[r.Intn(len(jScalars))]()
	}
	if r.Intn(2) == 0 {
		return genObj(r, depth-1, 1+r.Intn(2))
	}
	v := &jval{K: "arr"}
	for n := r.Intn(3); n > 0; n-- {
		v.Items = append(v.Items, genJval(r, depth-1))
	}
	return v
}

func genObj(r *rand.Rand, depth, n int) *jval {
	v := &jval{K: "obj"}
	used := map[string]bool{}
	for i := 0; i < n; i++ {
		k := jKeys[r.Intn(len(jKeys))]
		if used[k] {
			continue // duplicate keys are exercised by the model-generated cases only
		}
		used[k] = true
		v.Fields = append(v.Fields, [2]any{Ints(B(k)), genJval(r, depth)})
	}
	return v
}

func jsonRecord(r *rand.Rand, id int, doc *jval) MemRec {
	rec := MemRec{ID: id, TS: []int{1700000000 + id, 0}, Attrs: [][2][]int{}, Doc: [][2][]int{}}
	raw, _ := json.Marshal(doc)
	rec.Jdoc = raw
	switch r.Intn(5) {
	case 0, 1: // reference encoding
		rec.Line, rec.Jcanon = B(doc.enc()), true
	case 2: // another encoding of the same document (asserted with encoding/json)
		line := doc.encLoose(r)
		var back any
		dec := json.NewDecoder(strings.NewReader(line))
		dec.UseNumber()
		if err := dec.Decode(&back); err != nil || fmt.Sprint(back) != fmt.Sprint(doc.toAny()) {
			line = doc.enc()
			rec.Jcanon = true
		}
		rec.Line = B(line)
		rec.Jcanon = rec.Jcanon || line == doc.enc()
	default: // malformed by construction
		enc := doc.enc()
		var line string
		switch r.Intn(5) {
		case 0:
			line = enc[:r.Intn(len(enc))] // cut anywhere before the end
		case 1:
			line = "{" + enc // unbalanced brace
		case 2:
			line = "garbage " + enc[:len(enc)/2]
		case 3:
			line = strings.Replace(enc, ":", " ", 1)
		default:
			line = enc[:len(enc)-1] + ","
		}
		if json.Valid([]byte(line)) {
			line = "}" + enc // make sure the line is not a JSON document from its first byte on (trailing garbage is left open)
		}
		rec.Line, rec.Jmal = B(line), true
	}
	if r.Intn(3) == 0 {
		rec.Attrs = append(rec.Attrs, [2][]int{B("a"), B("old")})
	}
	return rec
}

func genPath(r *rand.Rand, doc *jval) []selIn {
	// mostly a path that exists, sometimes a missing one
	var path []selIn
	cur := doc
	for d := 0; d < 3; d++ {
		if cur.K == "obj" && len(cur.Fields) > 0 {
			f := cur.Fields[r.Intn(len(cur.Fields))]
			path = append(path, selIn{T: "key", Key: f[0].(Ints)})
			cur = f[1].(*jval)
		} else if cur.K == "arr" && len(cur.Items) > 0 {
			i := r.Intn(len(cur.Items))
			path = append(path, selIn{T: "idx", I: i, Key: Ints{}})
			cur = cur.Items[i]
		} else {
			break
		}
		if r.Intn(2) == 0 {
			break
		}
	}
	if len(path) == 0 || r.Intn(6) == 0 {
		path = append(path, selIn{T: "key", Key: Ints(B("missing"))})
	}
	return path
}

func genExtract(r *rand.Rand) logqIn {
	in := logqIn{Sel: []matcherIn{}, Stages: []stageIn{}, Queries: [][]stageIn{}, Limit: -1, Start: []int{1699999000, 0}, End: []int{1700009000, 0},
		Caps: []CapsIn{{Label: []string{}, Line: []string{}}}}
	n := 1 + r.Intn(4)
	switch r.Intn(6) {
	case 5: // regexp: named groups of the leftmost-first match
		names := []string{"a", "b", "lvl"}[:1+r.Intn(3)]
		var re *ReAST
		for try := 0; ; try++ {
			left := append([]string{}, names...)
			re = genCapRe(r, 2+r.Intn(2), "ab=x ", &left)
			if len(left) < len(names) { // at least one group was placed
				break
			}
		}
		if r.Intn(4) == 0 {
			re = &ReAST{T: "cat", A: &ReAST{T: "bol"}, B: re}
		}
		raw, _ := json.Marshal(re)
		for i := 0; i < n; i++ {
			line := pick(r, []string{"a b", "ab", "a=b x", "xab", "b", "", "aab=", "x0a1", "ba ab", "=", "abab", "a", "xx", "b a=0"})
			rec := MemRec{ID: i + 1, TS: []int{1700000001 + i, 0}, Line: B(line), Attrs: [][2][]int{}, Doc: [][2][]int{}}
			if r.Intn(3) == 0 {
				rec.Attrs = append(rec.Attrs, [2][]int{B("a"), B("old")})
			}
			in.Recs = append(in.Recs, rec)
		}
		in.Stages = []stageIn{{T: "regexp", Val: B(re.Text()), Re: raw}}
	case 0, 1: // json
		var docs []*jval
		for i := 0; i < n; i++ {
			d := genObj(r, 2, 1+r.Intn(3))
			docs = append(docs, d)
			in.Recs = append(in.Recs, jsonRecord(r, i+1, d))
		}
		st := stageIn{T: "json"}
		switch r.Intn(3) {
		case 1:
			for k := 1 + r.Intn(2); k > 0; k-- {
				key := jKeys[r.Intn(len(jKeys))]
				if isIdent(key) {
					st.Labels = append(st.Labels, B(key))
				}
			}
		case 2:
			for k := 1 + r.Intn(2); k > 0; k-- {
				lb := []string{"l1", "l2", "a"}[len(st.Exprs)%3]
				st.Exprs = append(st.Exprs, jexprIn{Label: B(lb), Path: genPath(r, docs[r.Intn(len(docs))])})
			}
			if len(st.Exprs) == 2 && r.Intn(3) == 0 {
				// two labels drawn from ONE path (an object or an array as often as a scalar): both exist
				st.Exprs[1].Path = st.Exprs[0].Path
			}
			if r.Intn(3) == 0 {
				// every expression maps a top-level key to a label of the same name (`| json a="a", k="k"`): still path
				// expressions (a null yields "", a number its text), sometimes beside a bare label
				st.Exprs = nil
				for _, key := range []string{"a", "b", "k"}[r.Intn(2) : 2+r.Intn(2)] {
					st.Exprs = append(st.Exprs, jexprIn{Label: B(key), Path: []selIn{{T: "key", Key: Ints(B(key))}}})
				}
				if r.Intn(3) == 0 {
					st.Labels = append(st.Labels, B("b"))
				}
				// an older label of that name must be overwritten, also by a null
				for i := range in.Recs {
					if r.Intn(2) == 0 {
						in.Recs[i].Attrs = append(in.Recs[i].Attrs, [2][]int{B(pick(r, []string{"a", "k"})), B("old")})
					}
				}
			}
		}
		in.Stages = []stageIn{st}
	case 2: // unpack
		for i := 0; i < n; i++ {
			d := &jval{K: "obj"}
			if r.Intn(4) != 0 {
				d.Fields = append(d.Fields, [2]any{Ints(B("_entry")), jstr(pick(r, []string{"the line", "", "x=1", `q"`}))})
			}
			for k := r.Intn(3); k > 0; k-- {
				key := []string{"app", "k", "lvl", "n"}[r.Intn(4)]
				dup := false
				for _, f := range d.Fields {
					dup = dup || S(f[0].(Ints)) == key
				}
				if !dup {
					d.Fields = append(d.Fields, [2]any{Ints(B(key)), []*jval{jstr("v"), jstr(""), jnum("7"), {K: "bool", B: true}, jstr("x y")}[r.Intn(5)]})
				}
			}
			r.Shuffle(len(d.Fields), func(a, b int) { d.Fields[a], d.Fields[b] = d.Fields[b], d.Fields[a] })
			in.Recs = append(in.Recs, jsonRecord(r, i+1, d))
		}
		in.Stages = []stageIn{{T: "unpack"}}
	case 3: // logfmt with quoting, field lists, renamed keys, malformed lines
		for i := 0; i < n; i++ {
			rec := MemRec{ID: i + 1, TS: []int{1700000001 + i, 0}, Attrs: [][2][]int{}, Doc: [][2][]int{}}
			var parts []string
			used := map[string]bool{}
			for k := 1 + r.Intn(3); k > 0; k-- {
				key := pick(r, lqKeys)
				if used[key] {
					continue
				}
				used[key] = true
				val := pick(r, []string{"a", "x y", "", `q"t`, "7", "a=b", "10s"})
				rec.Doc = append(rec.Doc, [2][]int{B(key), B(val)})
				if val == "" || strings.ContainsAny(val, " \"=") {
					parts = append(parts, key+"="+jsonQuote(val))
				} else {
					parts = append(parts, key+"="+val)
				}
			}
			rec.Line = B(strings.Join(parts, " "))
			if r.Intn(5) == 0 {
				rec.Line = B(pick(r, []string{`=v`, `k="unterminated`, `a=b"c`, `k=v =w`}))
				rec.Lmal, rec.Doc = true, [][2][]int{}
			}
			in.Recs = append(in.Recs, rec)
		}
		st := stageIn{T: "logfmt"}
		switch r.Intn(3) {
		case 1:
			st.Labels = IntsList{B(pick(r, lqKeys))}
		case 2:
			st.Lexprs = []lexprIn{{Key: B(pick(r, lqKeys)), Label: B("renamed")}}
			if r.Intn(2) == 0 {
				st.Labels = IntsList{B("k")}
				if S(st.Lexprs[0].Key) == "k" {
					st.Lexprs[0].Key = B("v")
				}
			}
		}
		in.Stages = []stageIn{st}
	default: // pattern
		pats := [][]partIn{
			{{T: "cap", Name: B("a")}, {T: "lit", S: B(" ")}, {T: "cap", Name: B("b")}},
			{{T: "cap", Name: B("_")}, {T: "lit", S: B(" ")}, {T: "cap", Name: B("a")}},
			{{T: "lit", S: B("x")}, {T: "cap", Name: B("a")}, {T: "lit", S: B("y")}},
			{{T: "cap", Name: B("a")}, {T: "lit", S: B("=")}, {T: "cap", Name: B("b")}, {T: "lit", S: B(";")}},
			{{T: "lit", S: B("[")}, {T: "cap", Name: B("lvl")}, {T: "lit", S: B("] ")}, {T: "cap", Name: B("rest")}},
			// angle brackets that are literal text, directly around captures
			{{T: "lit", S: B("[")}, {T: "cap", Name: B("a")}, {T: "lit", S: B("] <")}, {T: "cap", Name: B("lvl")}, {T: "lit", S: B("> ")}, {T: "cap", Name: B("rest")}},
			{{T: "lit", S: B("x <")}, {T: "cap", Name: B("a")}, {T: "lit", S: B(">")}},
			{{T: "cap", Name: B("a")}, {T: "lit", S: B(" < ")}, {T: "cap", Name: B("b")}},
		}
		for i := 0; i < n; i++ {
			line := pick(r, []string{"a b", "a b c", "xay", "xy", "k=v;", "k=v", "[err] boom", "[err]boom", "", " ", "x", "a  b", "[e] ", "=;", "[1] <err> boom", "[1] <<x>> y", "x <v>", "x <>", "1 < 2", "a <b"})
			in.Recs = append(in.Recs, MemRec{ID: i + 1, TS: []int{1700000001 + i, 0}, Line: B(line), Attrs: [][2][]int{}, Doc: [][2][]int{}})
		}
		in.Stages = []stageIn{{T: "pattern", Parts: pats[r.Intn(len(pats))]}}
	}
	return in
}

func genRewrite(r *rand.Rand) logqIn {
	in := logqIn{Sel: []matcherIn{}, Stages: []stageIn{}, Queries: [][]stageIn{}, Limit: -1, Start: []int{1699999000, 0}, End: []int{1700009000, 0},
		Caps: []CapsIn{{Label: []string{}, Line: []string{}}}}
	if r.Intn(8) == 0 {
		// drop / keep by value on labels that a parser stage just extracted from numbers: the value is the label's text as the
		// engine itself shows it (the numbers are written the way the engine prints them: 2.5e-7, 1e+21, 0.5, 12)
		eps, _ := json.Marshal(&ReAST{T: "eps"})
		nums := []string{"2.5e-7", "1e+21", "0.5", "12", "1.5e-9", "-3"}
		for i := 0; i < 1+r.Intn(3); i++ {
			d := &jval{K: "obj"}
			d.Fields = append(d.Fields, [2]any{Ints(B("ratio")), jnum(pick(r, nums))}, [2]any{Ints(B("n")), jnum(pick(r, nums))}, [2]any{Ints(B("k")), jstr("v")})
			rec := jsonRecord(r, i+1, d)
			rec.Line, rec.Jcanon, rec.Jmal = B(d.enc()), true, false
			in.Recs = append(in.Recs, rec)
		}
		st := stageIn{T: []string{"drop", "keep"}[r.Intn(2)], Labels: IntsList{}}
		st.Matchers = []matcherIn{{Label: B(pick(r, []string{"ratio", "n"})), Op: []string{"eq", "neq"}[r.Intn(2)], Val: B(pick(r, nums)), Re: eps}}
		if r.Intn(2) == 0 {
			st.Labels = IntsList{B("k")}
		}
		in.Stages = []stageIn{{T: "json"}, st}
		return in
	}
	names := []string{"a", "b", "c"}
	vals := []string{"", "x", "xy", "X y", " x ", "abab", "Hello aa"}
	n := 1 + r.Intn(4)
	for i := 0; i < n; i++ {
		rec := MemRec{ID: i + 1, TS: []int{1700000001 + i, 0}, Attrs: [][2][]int{}, Doc: [][2][]int{}}
		for _, nm := range names {
			if r.Intn(3) != 0 {
				rec.Attrs = append(rec.Attrs, [2][]int{B(nm), B(pick(r, vals))})
			}
		}
		line := pick(r, []string{"plain", "", "a b"})
		if r.Intn(2) == 0 {
			// SGR colour sequences at the start, in the middle and at the end
			// (introduced by ESC [ or by the 8-bit CSI U+009B; a line may use only the latter)
			csi := pick(r, []string{"\x1b[", "\x1b[", "\u009b", "mix"})
			sgr := func() string {
				c := csi
				if c == "mix" {
					c = pick(r, []string{"\x1b[", "\u009b"})
				}
				return c + pick(r, []string{"0", "31", "1;32", "", "38;5;196"}) + "m"
			}
			line = pick(r, []string{sgr() + "red" + sgr(), "x" + sgr() + "y", sgr(), "t" + sgr() + sgr() + "u", "[31m not esc"})
		}
		rec.Line = B(line)
		in.Recs = append(in.Recs, rec)
	}
	if r.Intn(3) == 0 {
		// all records carry the same attributes (the store hands out ONE map for them, as the Docker storage does for the
		// records of a container): what a stage writes for one record must not show up in the next
		for i := 1; i < len(in.Recs); i++ {
			in.Recs[i].Attrs = in.Recs[0].Attrs
		}
		for len(in.Recs) < 3 {
			rec := in.Recs[0]
			rec.ID, rec.TS = len(in.Recs)+1, []int{1700000001 + len(in.Recs), 0}
			in.Recs = append(in.Recs, rec)
		}
	}
	if r.Intn(3) == 0 {
		// twins: the same instant and line under other labels - a drop / keep / rename may make them equal, never one
		in.Recs = withTwins(r, in.Recs)
	}
	tpl := func() []partIn {
		var ps []partIn
		for k := 1 + r.Intn(3); k > 0; k-- {
			switch r.Intn(8) {
			case 6, 7:
				// a function of one label's value
				nm := B(pick(r, append(names, "nolabel")))
				switch r.Intn(8) {
				case 0:
					ps = append(ps, partIn{T: "lower", Name: nm, S: Ints{}})
				case 1:
					ps = append(ps, partIn{T: "trimspace", Name: nm, S: Ints{}})
				case 2:
					ps = append(ps, partIn{T: "trunc", Name: nm, S: Ints{}, N: []int{0, 1, 2, 5, -1, -2, -9}[r.Intn(7)]})
				case 3:
					ps = append(ps, partIn{T: "replace", Name: nm, S: B(pick(r, []string{"x", "ab", "a", " ", "aa"})), B2: B(pick(r, []string{"", "y", "xx", "a"}))})
				case 4:
					ps = append(ps, partIn{T: "alignleft", Name: nm, S: Ints{}, N: []int{0, 1, 3, 6, -1}[r.Intn(5)]})
				case 5:
					ps = append(ps, partIn{T: "alignright", Name: nm, S: Ints{}, N: []int{0, 1, 3, 6, -1}[r.Intn(5)]})
				case 6:
					ps = append(ps, partIn{T: "default", Name: nm, S: B(pick(r, []string{"d", "", "n/a"}))})
				default:
					ps = append(ps, partIn{T: "repeat", Name: nm, S: Ints{}, N: r.Intn(4)})
				}
			case 0:
				ps = append(ps, partIn{T: "lit", S: B(pick(r, []string{"-", "v=", " ", "z"})), Name: Ints{}})
			case 1, 2:
				ps = append(ps, partIn{T: "label", Name: B(pick(r, append(names, "nolabel"))), S: Ints{}})
			case 3:
				ps = append(ps, partIn{T: "line", S: Ints{}, Name: Ints{}})
			case 4:
				ps = append(ps, partIn{T: "upper", Name: B(pick(r, names)), S: Ints{}})
			default:
				if r.Intn(3) == 0 {
					ps = append(ps, partIn{T: "fail", Name: B(pick(r, names)), S: Ints{}})
				} else {
					ps = append(ps, partIn{T: "lit", S: B("k"), Name: Ints{}})
				}
			}
		}
		return ps
	}
	eps, _ := json.Marshal(&ReAST{T: "eps"})
	switch r.Intn(5) {
	case 0: // renames: single, chains (b=a, c=b), swaps
		st := stageIn{T: "labelfmt"}
		switch r.Intn(4) {
		case 0:
			st.Renames = []renameIn{{Dst: B("d"), Src: B(pick(r, names))}}
		case 1:
			st.Renames = []renameIn{{Dst: B("b"), Src: B("a")}, {Dst: B("c"), Src: B("b")}}
		case 2:
			st.Renames = []renameIn{{Dst: B("t"), Src: B("a")}, {Dst: B("a"), Src: B("b")}}
		default:
			st.Renames = []renameIn{{Dst: B("d"), Src: B("nolabel")}}
		}
		if r.Intn(3) == 0 {
			st.Tmpls = []tmplIn{{Dst: B("e"), Parts: tpl()}}
		}
		in.Stages = []stageIn{st}
	case 1: // templates against one snapshot
		st := stageIn{T: "labelfmt", Tmpls: []tmplIn{{Dst: B(pick(r, []string{"d", "a"})), Parts: tpl()}}}
		if r.Intn(2) == 0 {
			st.Tmpls = append(st.Tmpls, tmplIn{Dst: B("e"), Parts: tpl()})
		}
		in.Stages = []stageIn{st}
	case 2:
		in.Stages = []stageIn{{T: "linefmt", Parts: tpl()}}
	case 3:
		st := stageIn{T: []string{"drop", "keep"}[r.Intn(2)]}
		for k := r.Intn(3); k > 0; k-- {
			st.Labels = append(st.Labels, B(pick(r, append(names, "msg", "nolabel"))))
		}
		for k := r.Intn(3); k > 0; k-- {
			m := matcherIn{Label: B(pick(r, names)), Op: allOps[r.Intn(4)], Re: eps}
			if m.Op == "eq" || m.Op == "neq" {
				m.Val = B(pick(r, vals))
			} else {
				re := genReA(r, 2, "xyX ")
				m.Val = B(re.Text())
				m.Re, _ = json.Marshal(re)
			}
			st.Matchers = append(st.Matchers, m)
		}
		if len(st.Labels) == 0 && len(st.Matchers) == 0 {
			st.Labels = IntsList{B("a")}
		}
		in.Stages = []stageIn{st}
		if r.Intn(3) == 0 {
			// two or three stages of the same kind in a row: each works on what the previous one left
			// (keep after keep leaves the intersection, drop after drop the complement of the union)
			for k := 1 + r.Intn(2); k > 0; k-- {
				st2 := stageIn{T: st.T, Labels: IntsList{}}
				for m := 1 + r.Intn(2); m > 0; m-- {
					st2.Labels = append(st2.Labels, B(pick(r, append(names, "msg"))))
				}
				in.Stages = append(in.Stages, st2)
			}
		}
	default:
		in.Stages = []stageIn{{T: "decolorize"}}
	}
	return in
}
