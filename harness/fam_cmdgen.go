package main

import (
	"encoding/json"
	"fmt"
	"math/rand"
)

// System cases (spec/System.tla): the plugin's own command line over an inventory.  This family only PREPARES cases:
// it draws random ones (or takes the model's), writes the query text from the structured selector and stages, and
// emits the completed case as its Scenario event; the overlay probe in cmd/docker-logql (kind "cmd") executes them.
type famCmdgen struct{}

func init() { register("cmdgen", famCmdgen{}) }

type cmdIn struct {
	Kind   string      `json:"kind"` // "cmd"
	Ctrs   []FakeCtr   `json:"ctrs"`
	Sel    []matcherIn `json:"sel"`
	Stages []stageIn   `json:"stages"`
	Start  []int       `json:"start"` // [seconds, 0]
	End    []int       `json:"end"`
	Limit  int         `json:"limit"`
	Opts   []bool      `json:"opts"` // [timestamp, container, color]
	Q      Ints        `json:"q"`    // the query text (filled in here)
	// BadFlag: one more command-line argument that the command must reject (a malformed flag value)
	BadFlag Ints `json:"badflag"`
	// Since > 0: the window is given as --end and --since=<Since seconds> (Start is then ignored)
	Since int `json:"since"`
	// Metric: the log query is wrapped into count_over_time(... [1m]); the command cannot print samples and must fail
	Metric bool `json:"metric"`
}

func (famCmdgen) Gen(r *rand.Rand, n int, opt map[string]string) []any {
	// focus=limit (C08): 3-7 containers with interleaved frames, always a positive limit
	focusLimit := opt["focus"] == "limit"
	out := make([]any, 0, n)
	eps, _ := json.Marshal(&ReAST{T: "eps"})
	for i := 0; i < n; i++ {
		in := cmdIn{Kind: "cmd", Sel: []matcherIn{}, Stages: []stageIn{}, Start: []int{1700000000, 0}, End: []int{1700000100, 0}, Limit: -1,
			Opts: []bool{r.Intn(2) == 0, r.Intn(2) == 0, r.Intn(4) == 0}}
		nc := 1 + r.Intn(4)
		if focusLimit {
			nc = 4 + r.Intn(5)
		}
		// distinct timestamps over the whole inventory; every frame at least two seconds away from the window's ends
		slots := r.Perm(60)
		k := 0
		for c := 1; c <= nc; c++ {
			ctr := simpleCtr(fmt.Sprintf("id%d", c), fmt.Sprintf("n%d", c), []Frame{})
			ctr.LabelKV = [][2][]int{}
			if r.Intn(4) != 0 {
				ctr.LabelKV = append(ctr.LabelKV, [2][]int{B("app"), B(pick(r, []string{"a", "b", "web"}))})
			}
			if r.Intn(3) == 0 {
				ctr.LabelKV = append(ctr.LabelKV, [2][]int{B("com.example/role"), B(pick(r, []string{"r", "db"}))})
			}
			var secs []int
			nf := r.Intn(5)
			if focusLimit {
				nf = 2 + r.Intn(4)
			}
			for j := nf; j > 0 && k < len(slots); j-- {
				s := 1700000003 + slots[k]*3/2
				k++
				switch r.Intn(6) {
				case 0:
					s -= 200 // before the window
				case 1:
					s += 200 // after it
				}
				secs = append(secs, s)
			}
			sortInts(secs)
			for j, s := range secs {
				msg := fmt.Sprintf("c%d-%d %s", c, j+1, pick(r, []string{"ok", "err", "warn x", "", "100% done", "%s %d %%", "50%"}))
				if r.Intn(8) == 0 {
					msg += "\r\n"
				}
				ctr.Frames = append(ctr.Frames, Frame{Typ: 1 + r.Intn(2), TS: []int{s, r.Intn(2) * 500000000}, Msg: B(msg)})
			}
			in.Ctrs = append(in.Ctrs, ctr)
		}
		switch r.Intn(5) {
		case 0:
			in.Sel = []matcherIn{{Label: B("app"), Op: allOps[r.Intn(2)], Val: B(pick(r, []string{"a", "b", ""})), Re: eps}}
		case 1:
			in.Sel = []matcherIn{{Label: B("container"), Op: "neq", Val: B("n1"), Re: eps}}
		case 2:
			re := &ReAST{T: "alt", A: &ReAST{T: "lit", C: 'a'}, B: &ReAST{T: "cat", A: &ReAST{T: "lit", C: 'w'}, B: &ReAST{T: "star", A: &ReAST{T: "any"}}}}
			raw, _ := json.Marshal(re)
			in.Sel = []matcherIn{{Label: B("app"), Op: []string{"re", "nre"}[r.Intn(2)], Val: B(re.Text()), Re: raw}}
		case 3:
			in.Sel = []matcherIn{{Label: B("com_example_role"), Op: "eq", Val: B("r"), Re: eps}}
		}
		for j := r.Intn(3); j > 0; j-- {
			if r.Intn(5) == 0 {
				// stages that change what the renderer is given: the container name is the label's value at the end of the pipeline
				switch r.Intn(4) {
				case 0:
					in.Stages = append(in.Stages, stageIn{T: "drop", Labels: IntsList{B(pick(r, []string{"container", "app", "image"}))}})
				case 1:
					in.Stages = append(in.Stages, stageIn{T: "keep", Labels: IntsList{B(pick(r, []string{"container", "app"})), B("msg")}[:1+r.Intn(2)]})
				case 2:
					in.Stages = append(in.Stages, stageIn{T: "labelfmt", Renames: []renameIn{{Dst: B("container"), Src: B("container_id")}}})
				default:
					in.Stages = append(in.Stages, stageIn{T: "linefmt", Parts: []partIn{{T: "label", Name: B("container")}, {T: "lit", S: B("> ")}, {T: "line"}}})
				}
				// (a line filter with != right behind drop / keep would read as a drop matcher)
				if t := in.Stages[len(in.Stages)-1].T; (t == "drop" || t == "keep") && j > 1 {
					in.Stages = append(in.Stages, stageIn{T: "line", Op: "eq", Val: B(pick(r, []string{"c", "ok", ""})), Re: eps})
					j--
				}
			} else if r.Intn(3) == 0 {
				in.Stages = append(in.Stages, stageIn{T: "label", Pred: &predIn{T: "m", Label: B(pick(r, []string{"app", "container"})), Op: allOps[r.Intn(2)], Val: B(pick(r, []string{"a", "n2", "web"})), Re: eps}})
			} else {
				in.Stages = append(in.Stages, stageIn{T: "line", Op: []string{"eq", "neq"}[r.Intn(2)], Val: B(pick(r, []string{"err", "-1", "c2", "x", ""})), Re: eps})
			}
		}
		if r.Intn(8) == 0 {
			// a window that is one instant (no frame lies on it): nothing is printed, in particular not what was logged just before
			in.Start = []int{1700000050, 0}
			in.End = []int{1700000050, 0}
			for c := range in.Ctrs {
				for j := range in.Ctrs[c].Frames {
					if d := in.Ctrs[c].Frames[j].TS[0] - 1700000050; d > -2 && d < 2 {
						in.Ctrs[c].Frames[j].TS[0] += 4
					}
				}
				fr := in.Ctrs[c].Frames
				for a := 1; a < len(fr); a++ {
					for b := a; b > 0 && fr[b].TS[0] < fr[b-1].TS[0]; b-- {
						fr[b], fr[b-1] = fr[b-1], fr[b]
					}
				}
			}
		}
		in.Limit = []int{-1, -1, 1, 2, 3, 5, 100}[r.Intn(7)]
		if focusLimit {
			// anywhere inside the merged stream (a limit beyond it cuts nothing)
			total := 0
			for c := range in.Ctrs {
				for _, f := range in.Ctrs[c].Frames {
					if f.TS[0] >= in.Start[0] && f.TS[0] <= in.End[0] {
						total++
					}
				}
			}
			in.Limit = 1
			if total > 2 {
				in.Limit = 1 + r.Intn(total-1)
			}
		}
		if focusLimit {
			// (no other window forms, no metric wrapper)
		} else if in.Start[0] != in.End[0] && r.Intn(5) == 0 {
			// --end and --since: the window starts `since` before its end; frames closer than two seconds to that start move
			in.Since = []int{30, 45, 60, 90}[r.Intn(4)]
			ws := in.End[0] - in.Since
			for c := range in.Ctrs {
				fr := in.Ctrs[c].Frames
				for j := range fr {
					if d := fr[j].TS[0] - ws; d > -2 && d < 2 {
						fr[j].TS[0] = ws + 2
					}
				}
				for a := 1; a < len(fr); a++ {
					for b := a; b > 0 && (fr[b].TS[0] < fr[b-1].TS[0] || (fr[b].TS[0] == fr[b-1].TS[0] && fr[b].TS[1] < fr[b-1].TS[1])); b-- {
						fr[b], fr[b-1] = fr[b-1], fr[b]
					}
				}
			}
		} else if r.Intn(12) == 0 {
			in.Metric = true
		}
		in.BadFlag = Ints{}
		if r.Intn(10) == 0 {
			// the help texts of the flags ("now", "`end - since`") are not values; nor are these
			in.BadFlag = B(pick(r, []string{"--end=now", "--start=`end - since`", "--step=abc", "--step=-5s", "--limit=x", "--end=yesterday", "--start=1e400", "--step=0"}))
		}
		out = append(out, in)
	}
	return out
}

func sortInts(a []int) {
	for i := 1; i < len(a); i++ {
		for j := i; j > 0 && a[j] < a[j-1]; j-- {
			a[j], a[j-1] = a[j-1], a[j]
		}
	}
}

func (famCmdgen) Exec(scn int, raw json.RawMessage, t *Trace, _ map[string]string) error {
	var in cmdIn
	if err := json.Unmarshal(raw, &in); err != nil {
		return err
	}
	in.Kind = "cmd"
	if in.Sel == nil {
		in.Sel = []matcherIn{}
	}
	if in.Stages == nil {
		in.Stages = []stageIn{}
	}
	in.Q = B(renderLogQuery(in.Sel, in.Stages))
	if in.Metric {
		in.Q = B("count_over_time(" + renderLogQuery(in.Sel, in.Stages) + " [1m])")
	}
	if in.BadFlag == nil {
		in.BadFlag = Ints{}
	}
	done, err := json.Marshal(in)
	if err != nil {
		return err
	}
	t.Scenario(scn, done)
	return nil
}
