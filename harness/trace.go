package main

import (
	"bufio"
	"encoding/json"
	"sync"
)

// Trace writes ndjson events. TLC's JSON reader has 32-bit integers, no null and no floats, so
// every value written here is a small int, a bool, a string, an array or an object.
type Trace struct {
	mu sync.Mutex
	w  *bufio.Writer
	n  int
}

// F is an event's field set.
type F map[string]any

// Scenario opens a scenario; `in` is echoed so that the trace is self-contained and replayable.
func (t *Trace) Scenario(scn int, in json.RawMessage) {
	t.mu.Lock()
	defer t.mu.Unlock()
	t.w.WriteString(`{"ev":"Scenario","scn":`)
	t.w.WriteString(itoa(scn))
	t.w.WriteString(`,"in":`)
	t.w.Write(in)
	t.w.WriteString("}\n")
	t.n++
}

// Ev records one observation.
func (t *Trace) Ev(scn int, ev string, f F) {
	if f == nil {
		f = F{}
	}
	f["ev"] = ev
	f["scn"] = scn
	b, err := json.Marshal(f)
	if err != nil {
		panic(err)
	}
	t.mu.Lock()
	defer t.mu.Unlock()
	t.w.Write(b)
	t.w.WriteByte('\n')
	t.n++
}

func itoa(i int) string {
	b, _ := json.Marshal(i)
	return string(b)
}

// B projects a Go string to the abstract byte sequence.
func B(s string) []int {
	r := make([]int, len(s))
	for i := 0; i < len(s); i++ {
		r[i] = int(s[i])
	}
	return r
}

// S builds a Go string from an abstract byte sequence.
func S(b []int) string {
	r := make([]byte, len(b))
	for i, x := range b {
		r[i] = byte(x)
	}
	return string(r)
}
