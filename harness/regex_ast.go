package main

import (
	"encoding/json"
	"math/rand"
)

// ReAST mirrors the regex algebra of spec/Regex.tla. The harness only renders it to text
// (the rendering is re-checked by TLC: MatcherWellFormed).
type ReAST struct {
	T   string
	C   int
	Set []int
	Neg bool
	A   *ReAST
	B   *ReAST
}

func (r *ReAST) MarshalJSON() ([]byte, error) {
	switch r.T {
	case "lit":
		return json.Marshal(map[string]any{"t": r.T, "c": r.C})
	case "cls":
		set := r.Set
		if set == nil {
			set = []int{}
		}
		return json.Marshal(map[string]any{"t": r.T, "set": set, "neg": r.Neg})
	case "cat", "alt":
		return json.Marshal(map[string]any{"t": r.T, "a": r.A, "b": r.B})
	case "star", "plus", "opt":
		return json.Marshal(map[string]any{"t": r.T, "a": r.A})
	}
	return json.Marshal(map[string]any{"t": r.T})
}

const reMeta = `\.+*?()|[]{}^$`

func (r *ReAST) Text() string {
	grp := func(x string) string { return "(?:" + x + ")" }
	sub := func(x *ReAST) string {
		if x.T == "alt" {
			return grp(x.Text())
		}
		return x.Text()
	}
	switch r.T {
	case "eps":
		return ""
	case "lit":
		for i := 0; i < len(reMeta); i++ {
			if int(reMeta[i]) == r.C {
				return "\\" + string(rune(r.C))
			}
		}
		return string(rune(r.C))
	case "any":
		return "."
	case "cls":
		s := "["
		if r.Neg {
			s += "^"
		}
		return s + S(r.Set) + "]"
	case "cat":
		return sub(r.A) + sub(r.B)
	case "alt":
		return r.A.Text() + "|" + r.B.Text()
	case "star":
		return grp(r.A.Text()) + "*"
	case "plus":
		return grp(r.A.Text()) + "+"
	case "opt":
		return grp(r.A.Text()) + "?"
	case "bol":
		return "^"
	case "eol":
		return "$"
	}
	panic("bad regex node " + r.T)
}

// genReA: genRe, one time in four anchored at the beginning, the end or both (^ and $ without the m flag).
func genReA(r *rand.Rand, depth int, alphabet string) *ReAST {
	re := genRe(r, depth, alphabet)
	switch r.Intn(8) {
	case 0:
		return &ReAST{T: "cat", A: &ReAST{T: "bol"}, B: re}
	case 1:
		return &ReAST{T: "cat", A: re, B: &ReAST{T: "eol"}}
	case 2:
		return &ReAST{T: "cat", A: &ReAST{T: "bol"}, B: &ReAST{T: "cat", A: re, B: &ReAST{T: "eol"}}}
	}
	return re
}

// genRe draws a random regex over a small ASCII alphabet.
func genRe(r *rand.Rand, depth int, alphabet string) *ReAST {
	if depth <= 0 || r.Intn(3) == 0 {
		switch r.Intn(6) {
		case 0:
			return &ReAST{T: "any"}
		case 1:
			n := 1 + r.Intn(3)
			set := []int{}
			seen := map[int]bool{}
			for len(set) < n {
				c := int(alphabet[r.Intn(len(alphabet))])
				if !seen[c] && ((c >= 'a' && c <= 'z') || (c >= '0' && c <= '9')) {
					seen[c] = true
					set = append(set, c)
				} else if !seen['a'] {
					seen['a'] = true
					set = append(set, 'a')
				} else {
					break
				}
			}
			return &ReAST{T: "cls", Set: set, Neg: r.Intn(3) == 0}
		case 2:
			return &ReAST{T: "eps"}
		default:
			return &ReAST{T: "lit", C: int(alphabet[r.Intn(len(alphabet))])}
		}
	}
	switch r.Intn(6) {
	case 0, 1:
		return &ReAST{T: "cat", A: genRe(r, depth-1, alphabet), B: genRe(r, depth-1, alphabet)}
	case 2:
		return &ReAST{T: "alt", A: genRe(r, depth-1, alphabet), B: genRe(r, depth-1, alphabet)}
	case 3:
		return &ReAST{T: "star", A: genRe(r, depth-1, alphabet)}
	case 4:
		return &ReAST{T: "plus", A: genRe(r, depth-1, alphabet)}
	default:
		return &ReAST{T: "opt", A: genRe(r, depth-1, alphabet)}
	}
}
