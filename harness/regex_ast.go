package main

import (
	"encoding/json"
	"math/rand"
)

// ReAST mirrors the regex algebra of spec/Regex.tla. The harness only renders it to text
// (the rendering is re-checked by TLC: MatcherWellFormed).
type ReAST struct {
	T   string
	C   int
	Set []int
	Neg bool
	N   []int // cap: group name
	A   *ReAST
	B   *ReAST
}

func (r *ReAST) MarshalJSON() ([]byte, error) {
	switch r.T {
	case "lit":
		return json.Marshal(map[string]any{"t": r.T, "c": r.C})
	case "cls":
		set := r.Set
		if set == nil {
			set = []int{}
		}
		return json.Marshal(map[string]any{"t": r.T, "set": set, "neg": r.Neg})
	case "cat", "alt":
		return json.Marshal(map[string]any{"t": r.T, "a": r.A, "b": r.B})
	case "star", "plus", "opt", "grp", "ci":
		return json.Marshal(map[string]any{"t": r.T, "a": r.A})
	case "cap":
		return json.Marshal(map[string]any{"t": r.T, "name": r.N, "a": r.A})
	}
	return json.Marshal(map[string]any{"t": r.T})
}

const reMeta = `\.+*?()|[]{}^$`

func (r *ReAST) Text() string {
	grp := func(x string) string { return "(?:" + x + ")" }
	sub := func(x *ReAST) string {
		if x.T == "alt" {
			return grp(x.Text())
		}
		return x.Text()
	}
	switch r.T {
	case "eps":
		return ""
	case "lit":
		for i := 0; i < len(reMeta); i++ {
			if int(reMeta[i]) == r.C {
				return "\\" + string(rune(r.C))
			}
		}
		return string(rune(r.C))
	case "any":
		return "."
	case "cls":
		s := "["
		if r.Neg {
			s += "^"
		}
		return s + S(r.Set) + "]"
	case "cat":
		return sub(r.A) + sub(r.B)
	case "alt":
		return r.A.Text() + "|" + r.B.Text()
	case "star":
		return grp(r.A.Text()) + "*"
	case "plus":
		return grp(r.A.Text()) + "+"
	case "opt":
		return grp(r.A.Text()) + "?"
	case "cap":
		return "(?P<" + S(r.N) + ">" + r.A.Text() + ")"
	case "grp":
		return "(" + r.A.Text() + ")"
	case "ci":
		return "(?i)" + r.A.Text()
	case "bol":
		return "^"
	case "eol":
		return "$"
	}
	panic("bad regex node " + r.T)
}

// nullable: can the expression match the empty string? (repetition bodies of regexp-stage cases must not)
func (r *ReAST) nullable() bool {
	switch r.T {
	case "eps", "bol", "eol", "star", "opt":
		return true
	case "lit", "any", "cls":
		return false
	case "cap", "grp", "plus":
		return r.A.nullable()
	case "cat":
		return r.A.nullable() && r.B.nullable()
	case "alt":
		return r.A.nullable() || r.B.nullable()
	}
	return true
}

// genCapRe draws an expression with named groups for the regexp stage: groups inside alternatives, options and
// repetitions (so that some take no part in a match), repetition bodies that consume at least one byte.
func genCapRe(r *rand.Rand, depth int, alphabet string, names *[]string) *ReAST {
	leaf := func() *ReAST {
		switch r.Intn(5) {
		case 0:
			return &ReAST{T: "any"}
		case 1:
			return &ReAST{T: "cls", Set: []int{int(alphabet[r.Intn(len(alphabet))]), '0' + r.Intn(3)}, Neg: r.Intn(4) == 0}
		default:
			c := int(alphabet[r.Intn(len(alphabet))])
			return &ReAST{T: "lit", C: c}
		}
	}
	if depth <= 0 {
		return leaf()
	}
	sub := func() *ReAST { return genCapRe(r, depth-1, alphabet, names) }
	switch r.Intn(10) {
	case 9:
		return &ReAST{T: "grp", A: sub()} // unnamed capturing group: takes an index, yields no label
	case 0, 1:
		if len(*names) > 0 {
			n := (*names)[0]
			*names = (*names)[1:]
			return &ReAST{T: "cap", N: B(n), A: sub()}
		}
		return leaf()
	case 2, 3:
		return &ReAST{T: "cat", A: sub(), B: sub()}
	case 4:
		return &ReAST{T: "alt", A: sub(), B: sub()}
	case 5:
		return &ReAST{T: "opt", A: sub()}
	case 6, 7:
		body := sub()
		if body.nullable() {
			body = &ReAST{T: "cat", A: leaf(), B: body}
		}
		return &ReAST{T: []string{"star", "plus"}[r.Intn(2)], A: body}
	}
	return leaf()
}

// genReA: genRe, one time in four anchored at the beginning, the end or both (^ and $ without the m flag).
func genReA(r *rand.Rand, depth int, alphabet string) *ReAST {
	re := genRe(r, depth, alphabet)
	switch r.Intn(9) {
	case 8:
		// ^x|y$ : the anchors belong to the alternatives, not to the whole expression
		return &ReAST{T: "alt", A: &ReAST{T: "cat", A: &ReAST{T: "bol"}, B: re}, B: &ReAST{T: "cat", A: genRe(r, depth-1, alphabet), B: &ReAST{T: "eol"}}}
	case 0:
		return &ReAST{T: "cat", A: &ReAST{T: "bol"}, B: re}
	case 1:
		return &ReAST{T: "cat", A: re, B: &ReAST{T: "eol"}}
	case 2:
		return &ReAST{T: "cat", A: &ReAST{T: "bol"}, B: &ReAST{T: "cat", A: re, B: &ReAST{T: "eol"}}}
	}
	return re
}

// genRe draws a random regex over a small ASCII alphabet.
func genRe(r *rand.Rand, depth int, alphabet string) *ReAST {
	if depth <= 0 || r.Intn(3) == 0 {
		switch r.Intn(6) {
		case 0:
			return &ReAST{T: "any"}
		case 1:
			n := 1 + r.Intn(3)
			set := []int{}
			seen := map[int]bool{}
			for len(set) < n {
				c := int(alphabet[r.Intn(len(alphabet))])
				if !seen[c] && ((c >= 'a' && c <= 'z') || (c >= '0' && c <= '9')) {
					seen[c] = true
					set = append(set, c)
				} else if !seen['a'] {
					seen['a'] = true
					set = append(set, 'a')
				} else {
					break
				}
			}
			return &ReAST{T: "cls", Set: set, Neg: r.Intn(3) == 0}
		case 2:
			return &ReAST{T: "eps"}
		default:
			return &ReAST{T: "lit", C: int(alphabet[r.Intn(len(alphabet))])}
		}
	}
	switch r.Intn(6) {
	case 0, 1:
		return &ReAST{T: "cat", A: genRe(r, depth-1, alphabet), B: genRe(r, depth-1, alphabet)}
	case 2:
		return &ReAST{T: "alt", A: genRe(r, depth-1, alphabet), B: genRe(r, depth-1, alphabet)}
	case 3:
		return &ReAST{T: "star", A: genRe(r, depth-1, alphabet)}
	case 4:
		return &ReAST{T: "plus", A: genRe(r, depth-1, alphabet)}
	default:
		return &ReAST{T: "opt", A: genRe(r, depth-1, alphabet)}
	}
}
