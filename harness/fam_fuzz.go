package main

import (
	"os"
	"encoding/json"
	"fmt"
	"math/rand"
	"strings"
	"time"

	"github.com/tdakkota/docker-logql/internal/logql/logqlengine"
)

// C17: Engine.Eval on arbitrary query bytes against hostile log contents, under recover() and a watchdog.
type famFuzz struct{}

func init() { register("fuzz", famFuzz{}) }

type fuzzIn struct {
	Q       []int  `json:"q"`
	Data    string `json:"data"` // "hostile": the fixed hostile data set; "nolong": the same without lines over 4 KiB; "small": two plain records
	Invalid bool   `json:"invalid"`
}

var hostileLines = func() []string {
	deep := strings.Repeat(`{"a":`, 64) + "1" + strings.Repeat("}", 64)
	deepArr := strings.Repeat("[", 200) + strings.Repeat("]", 200)
	long := strings.Repeat("k=v ", 16*1024)
	return []string{
		``, ` `, `{`, `}`, `{"a":`, `{"a":1e999}`, `{"a":-0}`, `{"a":123456789012345678901234567890}`, `{"a":"\ud800"}`, `{"_entry":1}`, `{"_entry":"x","1bad":"y"}`,
		deep, deepArr, deep[:100], long, "k=\"unterminated", "=v", "a=b\"c", "\xff\xfe\x00", "k=\xff", `{"a":{"b":[1,{"c":null}]}}`, `[1,2,3]`, `"just a string"`, `null`,
		"\x1b[31mred\x1b[0m \x1b[", "10.0.0.1 ::1 999.999.999.999 1:2:3:4:5:6:7:8:9", "v=1e999 d=99999999999h sz=99999999999999999999PB", "v=NaN d=-5s sz=-1", `<a> <b>`, "a\nb\r\n",
		`{"a.b":1,"a_b":2,"1a":3,"":4}`, "level=info msg=\"x\" msg=\"y\"", strings.Repeat("a", 70000),
		`{"a":[null]}`, `{"a":[1,null,2],"b":null}`, `[null]`, `{"a":[[null]],"c":{"d":[null,{"e":null}]}}`, `{"a":[],"b":{}}`,
		// shapes the ip() scanners meet: colons without an address, addresses glued to punctuation, over-long groups
		"::", "std::vector<int> x:: y", "fe80::1: timeout", "addr=::1 addr=10.0.0.1 addr=", "1.2.3.4.5.6 :::: 1:: ::g a:b::c", "[::1]:80 10.0.0.1:8080 256.1.1.1 1.2.3", ":", "::ffff:1.2.3.4 1::2::3",
	}
}()

func hostileRecs() []MemRec {
	recs := make([]MemRec, 0, len(hostileLines))
	for i, l := range hostileLines {
		rec := MemRec{ID: i + 1, TS: []int{1700000000 + i, 0}, Line: B(l), Attrs: [][2][]int{{B("app"), B("a")}, {B("v"), B([]string{"1", "x", "1e999", "", "-0", "0x10"}[i%6])}}, Doc: [][2][]int{}}
		recs = append(recs, rec)
	}
	return recs
}

func (famFuzz) Exec(scn int, raw json.RawMessage, t *Trace, _ map[string]string) error {
	var in fuzzIn
	if err := json.Unmarshal(raw, &in); err != nil {
		return err
	}
	t.Scenario(scn, raw)
	recs := hostileRecs()
	if in.Data == "nolong" {
		short := recs[:0:0]
		for _, rec := range recs {
			if len(rec.Line) <= 4096 {
				short = append(short, rec)
			}
		}
		recs = short
	}
	if in.Data == "small" {
		recs = recs[:2]
	}
	q := S(in.Q)
	params := []logqlengine.EvalParams{
		{Start: tsOf(time.Unix(1700000040, 0)), End: tsOf(time.Unix(1700000040, 0)), Limit: -1},                         // instant
		{Start: tsOf(time.Unix(1699999990, 0)), End: tsOf(time.Unix(1700000050, 0)), Step: 7 * time.Second, Limit: 10}, // positive step
	}
	for i, p := range params {
		t.Ev(scn, "Call", F{"params": i + 1})
		store := &MemStore{recs: recs, caps: CapsIn{Label: []string{}, Line: []string{}}}
		eng := logqlengine.NewEngine(store, logqlengine.Options{})
		t0 := time.Now()
		r := evalWithWatchdog(eng, q, p, 15*time.Second)
		if d := time.Since(t0); d > time.Second && os.Getenv("VERIF_SLOW") != "" {
			fmt.Fprintf(os.Stderr, "slow: %v %q\n", d, q)
		}
		switch {
		case r.Hang:
			t.Ev(scn, "Hang", F{"detail_txt": "watchdog 15s"})
			return nil
		case r.Panic != nil:
			t.Ev(scn, "Panic", F{"detail_txt": fmt.Sprint(r.Panic)})
		case r.Err != nil:
			t.Ev(scn, "Return", F{"outcome": "err"})
		default:
			t.Ev(scn, "Return", F{"outcome": "ok"})
		}
	}
	return nil
}

// random driver: valid queries of every generator (each stage and metric function meets the hostile data), their byte-level
// mutations, their forbidden mutations (must be rejected), and template / pattern / path texts with broken syntax
func (famFuzz) Gen(r *rand.Rand, n int, _ map[string]string) []any {
	out := make([]any, 0, n)
	pf := famParse{}
	for i := 0; i < n; i++ {
		c := pf.Gen(r, 1, nil)[0].(parseIn)
		forbidden := c.Mut != ""
		q := relayout(c.text(), c.Layout)
		applied := true
		if forbidden {
			q, applied = mutate(&c, q)
		}
		in := fuzzIn{Data: "hostile", Invalid: forbidden && applied}
		switch r.Intn(4) {
		case 0: // byte-level mutation of a valid text
			if !forbidden {
				b := []byte(q)
				for k := 1 + r.Intn(3); k > 0 && len(b) > 0; k-- {
					pos := r.Intn(len(b))
					switch r.Intn(4) {
					case 0:
						b = append(b[:pos], b[pos+1:]...)
					case 1:
						b[pos] = byte(r.Intn(256))
					case 2:
						b = append(b[:pos], append([]byte{b[pos]}, b[pos:]...)...)
					default:
						b = append(b[:pos], append([]byte(pick(r, []string{"|", "{", "\"", "(", "[", "`", "\\", "#", "--", "0x", "1e999"})), b[pos:]...)...)
					}
				}
				q = string(b)
			}
		case 1: // broken templates, patterns, paths, regexes inside otherwise valid stages: must be reported, not crash
			if !forbidden {
				q = "{} " + pick(r, []string{
					"| line_format \"{{.a\"", "| line_format \"{{ nosuchfunc .a }}\"", "| label_format x=\"{{ index .a 5 }}\"", "| line_format \"{{ .a | div 1 0 }}\"",
					"| pattern \"<a><b>\"", "| pattern \"\"", "| pattern \"<a> <a>\"", "| json x=\"a[\"", "| json x=\"a..b\"", "| json x=\"[99999999999999999999]\"",
					"| logfmt x=\"\\\"\"", "| regexp \"(?P<a>x)(?P<a>y)\"", "| regexp \"(?P<1a>x)\"", "|= ip(\"999.1.1.1\")", "| addr = ip(\"1.2.3.4-\")", "| addr = ip(\"::/999\")",
					// ranges and prefixes that look like ones and are none
					"|= ip(\"10.0.0.0/33\")", "!= ip(\"10.1.2.9-10.1.2.1\")", "|= ip(\"1.2.3.4/\")", "|= ip(\"a-b\")", "| logfmt | addr = ip(\"10.0.0.0/33\")", "| logfmt | addr != ip(\"10.0.0.9-10.0.0.1\")", "|= ip(\"::1-10.0.0.1\")", "|= ip(\"/8\")", "|= ip(\"-\")",
					"| unwrap v", "| drop", "| keep ,", "| distinct",
					// regular expressions whose ends look like removable wildcards but are not
					"|~ \".*?x\"", "!~ \"a\\\\.*\"", "|~ \".*\"", "|~ \".*.*\"", "|~ \"\\\\.*\"", "|~ \".*?\"", "|~ \"(.*)\"", "|~ \".*|x\"", "|~ \"x|.*\"", "!~ \".*+\"",
					"| a =~ \".*?x\"", "| a !~ \"x\\\\.*\"", "|~ \"^.*$\"", "|~ \".*\\\\\"",
					// well-formed ip() filters over lines full of near-addresses
					"|= ip(\"::1\")", "!= ip(\"192.168.0.0/16\")", "|= ip(\"10.0.0.1-10.0.0.9\")", "|= ip(\"fe80::/10\") != ip(\"1.2.3.4\")", "| logfmt | addr = ip(\"::1\")",
					"| logfmt | addr != ip(\"10.0.0.0/8\")", "|= ip(\"::\")", "|= ip(\"0.0.0.0/0\")", "|= ip(\"::/0\")",
					// the regexp stage: optional and alternative named groups that do not take part in a match, empty matches, nested groups
					"| regexp \"(?P<ok>OK)|(?P<fail>FAIL)\"", "| regexp \"(?P<a>x)?(?P<b>y)\"", "| regexp \"(?P<lvl>\\\\w+)( (?P<rest>.*))?\"", "| regexp \"(?P<e>)\"",
					"| regexp \"^(?P<k>[^=]*)=(?P<v>.*)$\"", "| regexp \"(?P<o>(?P<i>a)|b)+\"", "| regexp \"(?P<n>\\\\d+)?$\"", "| regexp \"(?s)(?P<all>.*)\" | all != \"\"", "| v > 1e999", "| v > 99999999999999999999h", "| line_format \"{{ alignLeft -1 .a }}{{ alignRight 99999 .a }}\"",
					"| line_format \"{{ unixToTime .v }}\"", "| line_format \"{{ .v | int | add 1 | repeat 3 }}\"", "| label_format x=\"{{ regexReplaceAll \\\"(\\\" .a \\\"\\\" }}\"",
				})
			}
		case 2: // every range function on every unwrap conversion against hostile values
			if !forbidden {
				q = pick(r, []string{"sum_over_time", "avg_over_time", "min_over_time", "max_over_time", "stddev_over_time", "stdvar_over_time", "first_over_time", "last_over_time", "rate", "quantile_over_time", "absent_over_time", "rate_counter"})
				inner := "{} | logfmt | unwrap " + pick(r, []string{"v", "bytes(sz)", "duration(d)", "duration_seconds(d)", "bytes(v)"}) + " [" + pick(r, []string{"1s", "5m", "1ns", "9999h"}) + "]"
				if q == "quantile_over_time" {
					inner = pick(r, []string{"0.5", "-1", "2", "0"}) + ", " + inner
				}
				// (k at the edges of int: a size computed from k must not reach make(); mid-range k would really allocate and is left out)
				q = pick(r, []string{"", "sum by (app) (", "topk(2, ", "sort(", "stddev without (v) (", "topk(9223372036854775807, ", "bottomk(4611686018427387904, ",
					"topk(0, ", "bottomk(-1, ", "topk(-9223372036854775808, "}) + q + "(" + inner + ")"
				if strings.Count(q, "(") > strings.Count(q, ")") {
					q += ")"
				}
				q += pick(r, []string{"", " / 0", " % 0", " ^ 0.5", " > bool 0", " or vector(1)", " * on (app) vector(2)"})
			}
		}
		if strings.Contains(q, "ip") {
			// the ip() line scanner is quadratic in the length of a run of hexadecimal digits (it terminates: 2-3 s per
			// evaluation on the 64 KiB lines); those lines are kept for one in eighty of the ip() cases only
			if r.Intn(80) != 0 {
				in.Data = "nolong"
			}
		}
		in.Q = B(q)
		if in.Q == nil {
			in.Q = []int{}
		}
		out = append(out, in)
	}
	return out
}
