package main

import (
	"fmt"
	"encoding/json"
	"math/rand"
	"time"

	"go.opentelemetry.io/collector/pdata/pcommon"

	"github.com/tdakkota/docker-logql/internal/dockerlog"
	"github.com/tdakkota/docker-logql/internal/logql/logqlengine"
	"github.com/tdakkota/docker-logql/internal/logstorage"
	"github.com/tdakkota/docker-logql/internal/otelstorage"
)

// C03: Docker stream decoding through three consumers.
type famDecoder struct{}

func init() { register("decoder", famDecoder{}) }

type decoderIn struct {
	Frames   []Frame `json:"frames"`
	Fault    struct {
		Kind string `json:"kind"`
		Pos  int    `json:"pos"`
	} `json:"fault"`
	Frag     []int  `json:"frag"`
	Consumer string `json:"consumer"`
	// Beside: the query also selects a second, healthy container; only this stream's records are reported
	Beside bool `json:"beside"`
}

func (famDecoder) Gen(r *rand.Rand, n int, _ map[string]string) []any {
	out := make([]any, 0, n)
	consumers := []string{"parselog", "parselog", "evallog", "evalrange"}
	for i := 0; i < n; i++ {
		var in decoderIn
		nf := r.Intn(12)
		if r.Intn(8) == 0 {
			nf = r.Intn(80)
		}
		sec := 1700000000 + r.Intn(50)
		total := 0
		// one case in thirty carries a run of long records (beyond any fixed scratch size a decoder might use)
		longRun, longAt := r.Intn(30) == 0, 0
		if longRun {
			nf = 2 + r.Intn(4)
			longAt = r.Intn(nf - 1)
		}
		for j := 0; j < nf; j++ {
			sec += r.Intn(3)
			f := Frame{Typ: 1 + r.Intn(2), TS: []int{sec, 0}}
			switch r.Intn(4) {
			case 0:
				f.TS[1] = r.Intn(1000000000)
			case 1:
				f.TS[1] = r.Intn(1000) * 1000000
			}
			ml := r.Intn(20)
			if r.Intn(10) == 0 {
				ml = r.Intn(300)
			}
			if longRun && (j == longAt || j == longAt+1 || r.Intn(3) == 0) {
				ml = []int{4060, 4096, 4097, 5000, 8192, 9000, 16385}[r.Intn(7)]
			}
			msg := make([]int, ml)
			for x := range msg {
				switch r.Intn(6) {
				case 0:
					msg[x] = 32
				case 1:
					msg[x] = 10
				case 2:
					msg[x] = r.Intn(256)
				default:
					msg[x] = 97 + r.Intn(26)
				}
			}
			f.Msg = msg
			if r.Intn(25) == 0 {
				// corrupt payloads
				switch r.Intn(5) {
				case 3:
					f.Raw = true // a frame with no payload at all: neither timestamp nor text
					f.Msg = []int{}
				case 4:
					f.Typ = 3
					f.Raw = true
					f.Msg = []int{}
				case 0:
					f.Typ = 3
					f.Raw = true
					f.Msg = B("daemon says no")
				case 1:
					f.Raw = true
					f.Msg = B("not-a-time payload")
				default:
					f.Raw = true
					f.Msg = B("nospace")
				}
			}
			if f.TS == nil {
				f.TS = []int{0, 0}
			}
			in.Frames = append(in.Frames, f)
			total += len(f.Encode())
		}
		in.Fault.Kind = "none"
		if total > 0 {
			switch r.Intn(3) {
			case 0:
				in.Fault.Kind = "cut"
				in.Fault.Pos = r.Intn(total + 1)
			case 1:
				in.Fault.Kind = "readerr"
				in.Fault.Pos = r.Intn(total + 1)
			}
		}
		switch r.Intn(4) {
		case 0:
			in.Frag = []int{}
		case 1:
			in.Frag = []int{1}
		default:
			k := 1 + r.Intn(5)
			for x := 0; x < k; x++ {
				in.Frag = append(in.Frag, 1+r.Intn(40))
			}
		}
		if in.Frag == nil {
			in.Frag = []int{}
		}
		if in.Frames == nil {
			in.Frames = []Frame{}
		}
		in.Consumer = consumers[r.Intn(len(consumers))]
		in.Beside = in.Consumer != "parselog" && r.Intn(2) == 0
		out = append(out, in)
	}
	return out
}

func (famDecoder) Exec(scn int, raw json.RawMessage, t *Trace, _ map[string]string) error {
	var in decoderIn
	if err := json.Unmarshal(raw, &in); err != nil {
		return err
	}
	t.Scenario(scn, raw)
	ctr := simpleCtr("c1", "c1", in.Frames)
	ctrs := []FakeCtr{ctr}
	if in.Beside {
		other := []Frame{{Typ: 1, TS: []int{1700000000, 5}, Msg: B("other-1")}, {Typ: 2, TS: []int{1700000400, 0}, Msg: B("other-2")}}
		if scn%4 >= 2 {
			// the healthy container logs at the very instants of the observed one (every second frame): a tie between two
			// containers costs neither of them a record
			other = other[:1]
			for j, f := range in.Frames {
				if j%2 == 1 && len(f.TS) == 2 && (f.TS[0] > 1700000000 || f.TS[1] > 5) {
					other = append(other, Frame{Typ: 1, TS: []int{f.TS[0], f.TS[1]}, Msg: B(fmt.Sprintf("other-t%d", j))})
				}
			}
		}
		if scn%2 == 0 {
			ctrs = append(ctrs, simpleCtr("c2", "c2", other))
		} else {
			ctrs = []FakeCtr{simpleCtr("c0", "c0", other), ctr}
		}
	}
	fake := newFakeDocker(nil, scn, ctrs) // transport events are not part of this family's vocabulary
	fake.frag = in.Frag
	// every third scenario: the reader reports the end together with the last bytes (both are legal io.Reader behaviour)
	fake.endWithData = scn%3 == 0
	if in.Fault.Kind != "none" {
		fake.faults = []Fault{{Kind: in.Fault.Kind, Ctr: indexOfCtr(ctrs, "c1"), Pos: in.Fault.Pos}}
	}
	switch in.Consumer {
	case "parselog":
		fake.round = 1
		fake.callsPer = []int{0}
		rc, err := fake.ContainerLogs(nil, "c1", logsAll())
		if err != nil {
			return err
		}
		func() {
			defer func() {
				if x := recover(); x != nil {
					t.Ev(scn, "Panic", nil)
				}
			}()
			it := dockerlog.ParseLog(rc, otelstorage.Attrs(pcommon.NewMap()))
			var rec logstorage.Record
			for it.Next(&rec) {
				t.Ev(scn, "Rec", F{"ts": sn(uint64(rec.Timestamp)), "msg": B(rec.Body)})
			}
			t.Ev(scn, "IterEnd", F{"err": it.Err() != nil})
			// a consumer that polls again after the end (mergeIter and the range aggregation both do)
			for i := 0; i < 2; i++ {
				ok := it.Next(&rec)
				t.Ev(scn, "Again", F{"ok": ok, "err": it.Err() != nil})
			}
			_ = it.Close()
		}()
	case "evallog", "evalrange":
		eng := dockerEngine(fake)
		start, end := Base.Add(-10*time.Second), Base.Add(1000*time.Second)
		q := "{}"
		p := logqlengine.EvalParams{Start: tsOf(start), End: tsOf(end), Step: 0, Limit: -1}
		if in.Consumer == "evalrange" {
			q = "count_over_time({}[2000s])"
			p = logqlengine.EvalParams{Start: tsOf(end.Add(-500 * time.Second)), End: tsOf(end), Step: 100 * time.Second}
		}
		r := evalWithWatchdog(eng, q, p, 20*time.Second)
		if in.Consumer == "evallog" && r.Err == nil && r.Panic == nil && !r.Hang {
			if s, ok := r.Data.GetStreamsResult(); ok {
				for _, e := range flatten(s.Result) {
					if e.Labels["container"] != "c1" {
						continue
					}
					t.Ev(scn, "Entry", F{"ts": sn(e.T), "line": B(e.Line)})
				}
			}
		}
		if recordOutcome(t, scn, r, nil) && in.Consumer == "evalrange" {
			if m, ok := r.Data.GetMatrixResult(); ok {
				// last step covers every record: total count over all series
				total := 0
				for _, s := range m.Result {
					if s.Metric.Value["container"] != "c1" {
						continue
					}
					if len(s.Values) > 0 {
						total += int(parseFloatStr(s.Values[len(s.Values)-1].V))
					}
				}
				t.Ev(scn, "Total", F{"n": total})
			}
		}
	}
	return nil
}

// indexOfCtr: 1-based position of the container with the given id in the inventory.
func indexOfCtr(ctrs []FakeCtr, id string) int {
	for i := range ctrs {
		if S(ctrs[i].BID) == id {
			return i + 1
		}
	}
	return 1
}
