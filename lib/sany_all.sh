#!/bin/bash
# Parses every MC_* / Trace_* module of /verif/spec in a scratch copy (SANY litters nothing into /verif); exit 0 iff all parse.
# Run after every edit of a shared specification module: a name introduced in one module may clash in another that extends it.
set -u
cd "$(dirname "$(readlink -f "$0")")/.."
D=$(mktemp -d /tmp/sany-XXXXXX); cp spec/*.tla $D/; RC=0
for m in $(cd $D && ls MC_*.tla Trace_*.tla); do
  out=$(cd $D && tla-sany $m 2>&1 | grep -A4 'Semantic errors\|Fatal errors\|already defined\|Could not' | head -10)
  if [ -n "$out" ]; then echo "== $m"; echo "$out"; RC=1; fi
done
rm -rf $D
[ $RC -eq 0 ] && echo "all modules parse"
exit $RC
