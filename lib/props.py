"""One function per property: wires the family's model, cases, harness command and trace specification."""
import json
import os

import vcheck as V

CHECKS = {}


def prop(pid):
    def deco(f):
        CHECKS[pid] = f
        return f
    return deco


def std(ctx, pid, *, mc, harness_cmd, trace_module, nrand, harness_opts=(), replay=None, rule, assumptions,
        trace_consts=None, nontrivial=None, extra_cov=None, race=False, chunk_events=4000, exhaustive=False, extra=None):
    """The standard pipeline. `mc` is a list of dicts(name, module, consts, invariants, properties, export(bool), ...)."""
    hbin = V.build_harness(ctx, race=race)
    opts = []
    for o in harness_opts:
        opts += ["-opt", o]
    trace = ctx.path("trace.ndjson")
    ncases = 0
    if replay:
        V.run_harness(ctx, hbin, [harness_cmd, "-cases", os.path.abspath(replay), "-out", trace, "-rand", 0] + opts)
    else:
        cases = ctx.path("cases.ndjson")
        with open(cases, "w") as allf:
            for m in mc:
                cfile = ctx.path("cases-%s.ndjson" % m["name"]) if m.get("export", True) else None
                V.model_check(ctx, m["name"], m["module"], m["consts"], invariants=m.get("invariants", ()),
                              properties=m.get("properties", ()), view=m.get("view"), constraint=m.get("constraint"),
                              cases_file=cfile, workers=m.get("workers", 16), timeout=m.get("timeout", 3600),
                              init=m.get("init", "Init"), next_=m.get("next", "Next"))
                if cfile:
                    with open(cfile) as f:
                        for line in f:
                            allf.write(line)
                            ncases += 1
        V.run_harness(ctx, hbin, [harness_cmd, "-cases", cases, "-out", trace, "-rand", nrand, "-seed", ctx.seed] + opts)
    bad, scns, nev = V.validate_trace(ctx, trace_module, trace, consts=trace_consts, chunk_events=chunk_events)
    verdict = V.classify_rejections(ctx, pid, trace_module, hbin, harness_cmd, bad, scns, consts=trace_consts,
                                    extra_args=opts)
    nt = nontrivial(scns) if nontrivial else len(scns)
    cov = dict(traces_validated_against_impl=len(scns) - len(bad), evaluations=len(scns), events=nev,
               cases_from_model=ncases, cases_random=len(scns) - ncases if not replay else 0,
               distinct_nontrivial=nt, rule=rule, samples=V.sample_scenarios(scns), exhaustive=exhaustive,
               rejected_scenarios=len(bad))
    if extra_cov:
        cov.update(extra_cov)
    if extra and not replay:
        v2, c2 = extra()
        verdict.violations += v2.violations
        verdict.total_violating += v2.total_violating
        verdict.unreproduced += v2.unreproduced
        cov.update(c2)
        cov["traces_validated_against_impl"] += c2.get("system_scenarios", 0) - c2.get("system_rejected", 0)
        cov["evaluations"] += c2.get("system_scenarios", 0)
    return V.finish(ctx, pid, verdict, cov, assumptions)


def T(ctx, quick, thorough):
    return quick if ctx.tier == "quick" else thorough


# ---------------------------------------------------------------------------------------------


@prop("C20")
def c20(ctx, replay):
    def nontrivial(scns):
        # distinct keys that the mapping must change (contain a byte outside [A-Za-z0-9_] or start with a digit)
        seen = set()
        for sid, lines in scns:
            k = tuple(json.loads(lines[0])["in"]["key"])
            if not k:
                continue
            okb = lambda b: b == 95 or 48 <= b <= 57 or 65 <= b <= 90 or 97 <= b <= 122
            if (48 <= k[0] <= 57) or not all(okb(b) for b in k):
                seen.add(k)
        return len(seen)
    return std(ctx, "C20",
               mc=[dict(name="sanitize", module="MC_Sanitize",
                        consts=dict(MaxLen=T(ctx, 3, 5), SymSet=V.tla_str(T(ctx, "quick", "full"))),
                        invariants=["ImplMatchesDecl", "AlwaysValid", "IdentityOnValid", "Idempotent", "RuneLength"])],
               harness_cmd="sanitize", trace_module="Trace_Sanitize", nrand=T(ctx, 3000, 60000), replay=replay,
               nontrivial=nontrivial, exhaustive=True,
               rule="step 1: KeyToLabel's fast/slow path state machine vs declarative Sanitize for every key of 1..MaxLen "
                    "symbols over the representative alphabet (exhaustive); step 2/3: otelstorage.KeyToLabel run on every "
                    "exported key plus seeded random keys up to 64 bytes and validated by Trace_Sanitize; non-trivial = "
                    "distinct keys the mapping must change",
               assumptions=["UTF-8 decoding of Go's range loop is transcribed in Utf8.tla (RuneAt)",
                            "empty key left open", "reserved-word collisions of sanitised names are out of scope (DESIGN 6/C20)"])


@prop("C03")
def c03(ctx, replay):
    def nontrivial(scns):
        # distinct (frames, fault) pairs with a byte-level fault or a corrupt frame
        seen = set()
        for sid, lines in scns:
            i = json.loads(lines[0])["in"]
            if i["fault"]["kind"] != "none" or any(f["raw"] or f["typ"] == 3 for f in i["frames"]):
                seen.add(json.dumps([i["frames"], i["fault"]], sort_keys=True))
        return len(seen)
    return std(ctx, "C03",
               mc=[dict(name="decoder", module="MC_Decoder",
                        consts=dict(MaxFrames=T(ctx, 2, 3), PoolSet=V.tla_str(T(ctx, "quick", "full"))),
                        invariants=["TypeOK", "MatchesDecode", "PrefixAlways"])],
               harness_cmd="decoder", trace_module="Trace_Decoder", nrand=T(ctx, 3000, 40000), replay=replay,
               nontrivial=nontrivial, exhaustive=True,
               rule="step 1: streamIter.parseNext as a state machine over a transport delivering arbitrary fragments "
                    "(chunk sizes 1,3,7,64 chosen by TLC at every read) with a cut or transport error at every byte offset and "
                    "daemon-error / corrupt frames at every index, checked against Decode(frames, fault); every (frames, fault) "
                    "pair is exported x 5 read-size patterns x 3 consumers (ParseLog, Engine.Eval log query, range aggregation) "
                    "and replayed on the real code together with seeded random streams (up to 80 frames, messages up to 300 "
                    "arbitrary bytes); non-trivial = distinct (frames, fault) with a fault or a corrupt frame",
               assumptions=["RFC3339Nano rendering of the frame timestamps by time.Format is trusted (harness side)",
                            "error text left open; records compared up to the first fault",
                            "the fake daemon's reader returns EOF/err persistently after the fault"])


@prop("C04")
def c04(ctx, replay):
    def nontrivial(scns):
        # inventories with a timestamp tie across containers or an unsorted / empty log
        n = 0
        for sid, lines in scns:
            i = json.loads(lines[0])["in"]
            tss = [[tuple(f["ts"]) for f in c["frames"]] for c in i["ctrs"]]
            allts = [t for l in tss for t in l]
            if len(set(allts)) < len(allts) or any(l != sorted(l) or not l for l in tss):
                n += 1
        return n
    quick = ctx.tier == "quick"
    inv = ["PerSourcePrefix", "Conservation", "TimeOrder", "SlotsIndexAddressed"]
    mcs = [dict(name="merge3", module="MC_Merge", consts=dict(NC=3, MaxRec=2, TSMax=3), invariants=inv, properties=["SlotWriteOnce"])]
    if not quick:
        mcs.append(dict(name="merge3b", module="MC_Merge", consts=dict(NC=3, MaxRec=3, TSMax=2), invariants=inv, properties=["SlotWriteOnce"]))
        mcs.append(dict(name="merge4", module="MC_Merge", consts=dict(NC=4, MaxRec=2, TSMax=2), invariants=inv, properties=["SlotWriteOnce"]))
    return std(ctx, "C04", mc=mcs, harness_cmd="docker", harness_opts=["mode=merge"], trace_module="Trace_Merge",
               nrand=T(ctx, 150, 2500), replay=replay, nontrivial=nontrivial, exhaustive=True, chunk_events=20000,
               rule="step 1: SelectLogs' concurrent open (every interleaving of the per-container completions) + mergeIter with "
                    "container/heap transcribed, for every inventory of 3 containers x <=2 records over 3 timestamps (quick) plus 3 x <=3 "
                    "and 4 containers x <=2 records over 2 timestamps (thorough), timestamps with ties, sorted/unsorted/empty logs; step 2/3: every inventory is "
                    "run through dockerlog.Querier.SelectLogs under ALL completion orders (forced by gating the fake daemon's "
                    "ContainerLogs calls) and seeded random inventories (<=8 containers x <=50 records, 2-5 random orders); "
                    "non-trivial = inventories with cross-container timestamp ties, unsorted or empty logs",
               assumptions=["the completion order is forced by releasing blocked ContainerLogs calls one at a time (20us apart); "
                            "a run whose calls did not all arrive is marked Unschedulable and not compared",
                            "tie order among equal timestamps of different containers is left open but must not vary between orders"])


@prop("C02")
def c02(ctx, replay):
    def nontrivial(scns):
        # distinct (inventory, selector) where the selector has at least one matcher
        seen = set()
        for sid, lines in scns:
            i = json.loads(lines[0])["in"]
            if i["sel"]:
                seen.add(json.dumps([[(c["name"], c["labels"]) for c in i["ctrs"]], i["sel"]], sort_keys=True))
        return len(seen)
    inv = ["SelectionExact", "CasesWellFormed", "MatchersWellFormed"]
    mcs = [dict(name="select2", module="MC_Select", consts=dict(MaxCtr=2, Pools=V.tla_str(T(ctx, "quick", "full"))), invariants=inv)]
    if ctx.tier != "quick":
        mcs.append(dict(name="select3", module="MC_Select", consts=dict(MaxCtr=3, Pools=V.tla_str("quick")), invariants=inv))
    return std(ctx, "C02", mc=mcs, harness_cmd="docker", harness_opts=["mode=select"], trace_module="Trace_Select",
               nrand=T(ctx, 1500, 30000), replay=replay, nontrivial=nontrivial, exhaustive=True, chunk_events=20000,
               rule="step 1: fetchContainers/Match loop vs declarative Selected(inventory, matchers) over inventories of <=2 (full "
                    "pools) and <=3 (reduced pools) containers (names a/ab/b, Docker label keys k, k.x, 1k, values '', a, ab) and "
                    "selectors of 0..2 matchers over present/sanitised/absent labels x 4 operators x values/regexes, 3 time ranges "
                    "(on/off second boundaries, instant); step 2/3: Engine.Eval over dockerlog.Querier and the fake daemon; the "
                    "fake records which containers are opened with which options, TLC validates them and the labels of every "
                    "entry; random driver: <=8 containers, <=3 Docker labels, <=3 matchers with generated regexes; non-trivial = "
                    "distinct (inventory, non-empty selector)",
               assumptions=["which value wins when two Docker keys sanitise to one name (or shadow a built-in) is left open: cases avoid it",
                            "regexes are drawn from the algebra of Regex.tla; the rendering ReText is checked against the case by TLC"])


@prop("C14")
def c14(ctx, replay):
    def nontrivial(scns):
        n = 0
        for sid, lines in scns:
            i = json.loads(lines[0])["in"]
            if i["listErr"] or i["faults"] or any(f["raw"] for c in i["ctrs"] for f in c["frames"]):
                n += 1
        return n
    inv = ["NoLeak", "Surfaces", "NoSpuriousError", "AllFaultsSurface"]
    shapes = [(1, "log"), (1, "metric"), (2, "log"), (2, "metric"), (2, "binop"), (3, "log"), (3, "metric")]
    if ctx.tier != "quick":
        shapes += [(3, "binop"), (4, "log"), (4, "metric"), (1, "binop")]
    mcs = [dict(name="lc-%d-%s" % (nc, sh), module="MC_Lifecycle", consts=dict(NC=nc, Shape=V.tla_str(sh)), invariants=inv,
                properties=["CloseAfterOpen"], workers=4) for nc, sh in shapes]
    return std(ctx, "C14", mc=mcs, harness_cmd="docker", harness_opts=["mode=lifecycle"], trace_module="Trace_Lifecycle",
               nrand=T(ctx, 400, 6000), replay=replay, nontrivial=nontrivial, exhaustive=True, chunk_events=20000,
               rule="step 1: reader life cycle (list, concurrent opens completing in any order, Wait, cleanup on open failure, "
                    "iteration to the first stream error, error check, Close of the iterator tree, closeOnError for binary "
                    "operations) for 1..3 (quick) / 1..4 (thorough) containers x {log, metric, binop} x every single fault (list, "
                    "open of container i in round r, stream of container i broken with/without error after k records); every fault "
                    "is exported in each concrete realisation (cut in header / in body, transport error at a frame boundary / in a "
                    "body, daemon-error frame, corrupt timestamp) x all completion orders and replayed on Engine.Eval over the fake "
                    "daemon; random driver: <=5 containers, 5 query shapes incl. instant, random fault positions and read sizes; "
                    "non-trivial = scenarios with a fault",
               assumptions=["limit -1: every stream is consumed, so every error-kind fault is reached or preceded by another error",
                            "double Close and the error text are left open",
                            "a failure of only the second ContainerList call is model-checked but not replayed (the fake fails all or none)"])


def _lq_nontrivial(scns):
    # distinct (records, query) whose stages filter or rewrite something
    seen = set()
    for sid, lines in scns:
        i = json.loads(lines[0])["in"]
        if i["stages"] or i["sel"] or i.get("queries"):
            seen.add(json.dumps([i["recs"], i["sel"], i["stages"], i.get("queries"), i["limit"]], sort_keys=True))
    return len(seen)


def _lq_models(ctx):
    inv = ["ResultExact", "StagesWellFormed"]
    mcs = [dict(name="lq-2x2", module="MC_LogQuery", consts=dict(MaxRec=2, MaxStages=2, Pools=V.tla_str("quick")), invariants=inv)]
    if ctx.tier != "quick":
        mcs.append(dict(name="lq-2x3", module="MC_LogQuery", consts=dict(MaxRec=2, MaxStages=3, Pools=V.tla_str("quick")), invariants=inv))
        mcs.append(dict(name="lq-3x2", module="MC_LogQuery", consts=dict(MaxRec=3, MaxStages=2, Pools=V.tla_str("quick")), invariants=inv))
        mcs.append(dict(name="lq-full", module="MC_LogQuery", consts=dict(MaxRec=1, MaxStages=2, Pools=V.tla_str("full")), invariants=inv))
    return mcs


def _ip_model(ctx):
    # ip("...") filters on IPv4 and IPv6 (every spelling): patterns x addresses around their edges x the ways an address stands in a line / a label
    return dict(name="ip", module="MC_Ip", consts=dict(Pools=V.tla_str(T(ctx, "quick", "full"))),
                invariants=["WellFormed", "MatchIsInterval", "TextRoundTrip", "ScannerFindsIt", "NearAddressesAreNone", "LineFilterMeaning",
                            "NegationIsComplement", "LabelFilterMeaning", "NeverChangesLine", "FamiliesApart", "SpellingIsImmaterial"])


@prop("C01")
def c01(ctx, replay):
    return std(ctx, "C01", mc=_lq_models(ctx) + [_ip_model(ctx)], harness_cmd="logq", harness_opts=["mode=select"], trace_module="Trace_LogQuery",
               trace_consts=dict(CheckStreams=False), nrand=T(ctx, 1500, 25000), replay=replay, nontrivial=_lq_nontrivial, exhaustive=True, chunk_events=20000,
               rule="step 1: extractQueryConditions (offload split with barriers) + storage + entryIterator loop vs declarative "
                    "LogResult for every record set (<=2-3 logfmt records with attributes), pipeline (<=2-3 stages from line "
                    "filters with all four operators, string and number label filters, logfmt, distinct), selector, limit and "
                    "capability set of the pools; every case is replayed through Engine.Eval over the in-memory storage under 6 "
                    "capability configurations, plus seeded random cases (<=60 records, <=4 stages incl. nested and/or "
                    "predicates, number/duration/bytes comparisons, generated regexes, drop/keep, arbitrary bytes) under 3 "
                    "configurations each; non-trivial = distinct (records, query) with at least one stage or matcher",
               assumptions=["number/duration/byte-size label values outside the modelled sub-grammars (Num.tla) make the scenario "
                            "'open': then entries are not compared (only C19's relations apply)",
                            "IP filters, json/regexp/pattern/unpack parsers and line_format are covered by C06/C07, not here",
                            "mixed unparenthesised and/or chains are always parenthesised by the generators"])


@prop("C08")
def c08(ctx, replay):
    if replay and json.loads(open(replay).readline())["in"].get("kind") == "cmd":
        verdict, cov = system_stage(ctx, "C08", replay)
        cov.update(traces_validated_against_impl=cov["system_scenarios"] - cov["system_rejected"], evaluations=cov["system_scenarios"], rule=cov["system_rule"])
        return V.finish(ctx, "C08", verdict, cov, [])
    inv = ["KeyInjective", "Partition", "TimeOrderInStream", "LimitHonoured"]
    mcs = [dict(name="streams", module="MC_Streams", consts=dict(MaxRec=T(ctx, 3, 4), Pools=V.tla_str(T(ctx, "quick", "full")) if ctx.tier == "quick" else V.tla_str("quick")), invariants=inv)]
    if ctx.tier != "quick":
        mcs.append(dict(name="streams-full", module="MC_Streams", consts=dict(MaxRec=3, Pools=V.tla_str("full")), invariants=inv))
    mcs += [m for m in _lq_models(ctx)[:1]]
    mcs[-1] = dict(mcs[-1], export=False)
    return std(ctx, "C08", mc=mcs, harness_cmd="logq", harness_opts=["mode=limit"], trace_module="Trace_LogQuery",
               trace_consts=dict(CheckStreams=True), nrand=T(ctx, 2500, 40000), replay=replay, nontrivial=_lq_nontrivial,
               exhaustive=True, chunk_events=20000,
               rule="step 1: limit guard + groupEntries (map keyed by the sorted, quoted label rendering, per-stream time order) for "
                    "every sequence of <=3-4 records (timestamp ties) whose attribute sets collide under an unquoted or unsorted key, "
                    "x {no stage, drop, keep} x limit in {-1, 0, 1, N-1, N, N+1}; MC_LogQuery re-checks the limit prefix on the full "
                    "engine loop; every case and seeded random ones (<=60 records, tricky values, logfmt+drop/keep, limits around N) run "
                    "through Engine.Eval; TLC validates entries (= LogResult), stream partition (no two streams share a label set, each "
                    "entry in the stream of exactly its labels, time order inside a stream) and the limit rule; non-trivial = distinct "
                    "cases with a stage or a limit",
               assumptions=["which records with the timestamp of the cut are returned, the order of streams and of equal timestamps "
                            "inside a stream are left open", "strconv.Quote is modelled as escaping of quote and backslash only (step 1)",
                            "system stage: distinct timestamps over the whole inventory"],
               # the limit over the REAL storage: 3-7 containers with interleaved frames through the plugin's own command,
               # the first `limit` entries of the merged stream are printed (System!Printed)
               extra=lambda: system_stage(ctx, "C08", model=False, gen_opts=["focus=limit"], nrand=T(ctx, 400, 6000), chunk_events=T(ctx, 125, 1500)))


@prop("C19")
def c19(ctx, replay):
    inv = ["SubMultiset", "NegationSplits", "Commute", "Idempotent", "TrueIsNeutral", "AndIsIntersection", "OrIsUnion"]
    mcs = [dict(name="algebra", module="MC_Algebra", consts=dict(MaxRec=2, Pools=V.tla_str(T(ctx, "quick", "full"))), invariants=inv)]

    def nontrivial(scns):
        # families in which the filter keeps some records and drops some (the relation is not vacuous)
        n = 0
        for sid, lines in scns:
            sizes = []
            cur = None
            for l in lines[1:]:
                if '"ev":"Run"' in l:
                    cur = 0
                elif '"ev":"Entry"' in l and cur is not None:
                    cur += 1
                elif '"ev":"Return"' in l and cur is not None:
                    sizes.append(cur)
            if len(set(sizes)) > 1:
                n += 1
        return n
    return std(ctx, "C19", mc=mcs, harness_cmd="logq", harness_opts=["mode=algebra"], trace_module="Trace_Algebra",
               nrand=T(ctx, 1200, 30000), replay=replay, nontrivial=nontrivial, exhaustive=True, chunk_events=20000,
               rule="step 1: the reference semantics satisfies the filter algebra for every record set (<=2 records) x base pipeline x "
                    "pair of filters / pair of predicates of the pools; every family (8 related queries for filters f, g; 5 for "
                    "predicates a, b) is evaluated through Engine.Eval, and seeded random families with arbitrary needle bytes, "
                    "arbitrary valid Go regular expressions (not interpreted by the specification), label filters with all operators and "
                    "base pipelines of <=3 stages; TLC checks the relations on the OBSERVED result sets; non-trivial = families whose "
                    "related queries return differently sized results",
               assumptions=["records of a scenario have distinct timestamps, so result multisets are sets of (timestamp, line)",
                            "stateful distinct is excluded from commutation, as the property says"])


def _metric_nontrivial(scns):
    seen = set()
    for sid, lines in scns:
        i = json.loads(lines[0])["in"]
        if i["recs"] or i.get("flat"):
            seen.add(json.dumps([i["recs"], i.get("expr"), i.get("flat")], sort_keys=True))
    return len(seen)


@prop("C09")
def c09(ctx, replay):
    inv = ["WindowExact", "StampOnGrid", "GridComplete", "NoSampleLost"]
    q = V.tla_str
    if ctx.tier == "quick":
        consts = dict(MaxSamples=3, TMax=4, Ranges={1, 2}, Steps={1, 2, 3}, Starts={0, 1}, Offsets={0, 1}, Ops={q("count_over_time")})
    else:
        consts = dict(MaxSamples=4, TMax=5, Ranges={1, 2, 3}, Steps={1, 2, 3, 4}, Starts={0, 1, 2}, Offsets={0, 1, 2},
                      Ops={q("count_over_time"), q("max_over_time"), q("last_over_time")})
    mcs = [dict(name="window", module="MC_Window", consts=consts, invariants=inv)]
    return std(ctx, "C09", mc=mcs, harness_cmd="metric", harness_opts=["mode=window"], trace_module="Trace_Metric",
               nrand=T(ctx, 2500, 40000), replay=replay, nontrivial=_metric_nontrivial, exhaustive=True, chunk_events=20000,
               rule="step 1: stepper + clearWindow + fillWindow with its one-sample look-ahead as a state machine; WindowExact (retained "
                    "samples = {T-o-r <= ts <= T-o}) after every emitted step for every sample multiset (<=3 over 0..4 quick, <=4 over "
                    "0..5 thorough; ties, samples on both edges), range, step (<, =, > range), start, end, offset; every explored "
                    "(samples, range, offset, start, end, step) is replayed on Engine.Eval as a range query plus instant queries at both "
                    "ends; random driver: all 13 range functions (unwrap with by/without grouping, quantile parameters, the conversions bytes() / duration() / duration_seconds(), label matchers behind the unwrap expression), sub-second "
                    "timestamps just inside/outside the edges, 2-4 evaluations with different grids per scenario; TLC checks every "
                    "returned point against the declarative window value (Metric.tla); non-trivial = distinct (records, expression)",
               assumptions=["observed float64 values are projected to the simplest rational within 1e-9 relative; stddev is compared through its square",
                            "rate() over an unwrapped label and unparsable unwrap values are left open (outside the listed functions)",
                            "first/last among equal timestamps follow storage order"])


@prop("C10")
def c10(ctx, replay):
    mcs = [dict(name="serieskey", module="MC_SeriesKey", consts=dict(MaxLabels=2, ValSet=V.tla_str(T(ctx, "tiny", "quick"))),
                invariants=["KeyIsLabelSet"])]
    if ctx.tier != "quick":
        mcs.append(dict(name="serieskey-3", module="MC_SeriesKey", consts=dict(MaxLabels=3, ValSet=V.tla_str("tiny")), invariants=["KeyIsLabelSet"], export=False))
        mcs.append(dict(name="serieskey-vals", module="MC_SeriesKey", consts=dict(MaxLabels=1, ValSet=V.tla_str("full")), invariants=["KeyIsLabelSet"]))
    return std(ctx, "C10", mc=mcs, harness_cmd="metric", harness_opts=["mode=series"], trace_module="Trace_Metric",
               nrand=T(ctx, 600, 8000), replay=replay, nontrivial=_metric_nontrivial, exhaustive=True, chunk_events=20000,
               rule="step 1: the grouping key (pairs sorted by name, length-prefixed, visible labels of the by/without clause) fed to an "
                    "injective hash equals the visible label set, for every pair of label sets of <=2 (quick) / <=3 (thorough) labels "
                    "over names {a, ab, b} and values that are prefixes/concatenations of one another, every materialisation order and "
                    "5 grouping clauses; every pair is replayed as three records (L1, L2, L1) evaluated 6x per evaluation (Go re-randomises "
                    "map iteration per range) as instant and range query; random driver: 2-11 records over 2-5 label sets of <=5 labels, "
                    "shuffled attribute order, 8 repetitions; TLC checks every point against the declarative series (no label set "
                    "twice, values conserved); non-trivial = distinct (records, expression)",
               assumptions=["64-bit hash collisions are outside the model (hash abstracted as injective on its input bytes)",
                            "map iteration orders are sampled by repetition, not enumerated"])


@prop("C11")
def c11(ctx, replay):
    inv = ["CompositionExact", "NoResurrection", "HeapKeepsKBest"]
    q = V.tla_str
    mcs = [dict(name="vecagg-pool", module="MC_VecAgg", consts=dict(MaxSeries=3, Depth=3, Pools=q(T(ctx, "quick", "full")), VecMode=q("pool")), invariants=inv)]
    if ctx.tier != "quick":
        mcs.append(dict(name="vecagg-free", module="MC_VecAgg", consts=dict(MaxSeries=3, Depth=2, Pools=q("quick"), VecMode=q("free")), invariants=inv))
    # the bounded heap with three levels: one group of N distinct values arriving in every order, every k
    mcs.append(dict(name="topk-orders", module="MC_TopK", consts=dict(N=T(ctx, 6, 7), Reps=T(ctx, 6, 12)), invariants=["KeepsKBest", "RootIsWorst"]))
    return std(ctx, "C11", mc=mcs, harness_cmd="metric", harness_opts=["mode=vecagg"], trace_module="Trace_Metric",
               nrand=T(ctx, 2000, 30000), replay=replay, nontrivial=_metric_nontrivial, exhaustive=True, chunk_events=20000,
               rule="step 1: nested by/without refinement of one label list (impl-shaped) vs set algebra applied level by level to output "
                    "labels, group aggregation per key, and the bounded heap of topk/bottomk vs the k extreme values, for input vectors of "
                    "1-4 series over two labels with value ties, 3 (quick) / 7 (thorough) operators, 9 clauses (none, by (), without (), "
                    "existing and non-existent labels) and nestings to depth three; thorough adds every input vector of <=3 series at depth "
                    "two; each case is replayed as logs yielding that input vector (instant: vector order observable; range); random "
                    "driver: <=10 records, unwrapped and counted inputs, all 7 operators + topk/bottomk k in {1,2,5} + sort/sort_desc, one case in six a single group of 6-9 series with distinct values under topk/bottomk k in 3..6 evaluated 6x; MC_TopK: every arrival order of 6 (quick) / 7 (thorough) distinct values into the bounded heap for every k, one replayed case per (k, operator) evaluated 6x / 12x (the arrival order in the code is Go's map order); TLC "
                    "checks every point against the declarative result; non-trivial = distinct (records, expression)",
               assumptions=["which members tie-break into topk/bottomk and the order of equal values in sort are left open",
                            "inputs lie inside every window (window edges are C09's subject)"])


@prop("C12")
def c12(ctx, replay):
    inv = ["ArithMatches", "SetOpsMatch", "JoinShape", "SideMatters", "DivModByZero", "NaNOnlyUnequal"]
    mcs = [dict(name="binop", module="MC_BinOp", consts=dict(Pools=V.tla_str(T(ctx, "quick", "full"))), invariants=inv)]
    return std(ctx, "C12", mc=mcs, harness_cmd="metric", harness_opts=["mode=binop"], trace_module="Trace_Metric",
               nrand=T(ctx, 2000, 30000), replay=replay, nontrivial=_metric_nontrivial, exhaustive=True, chunk_events=20000,
               rule="step 1: binOpIterator (map of left samples, walk of right samples), and/or/unless on key sets and the literal "
                    "iterator (literal on its written side) vs the declarative join, for every pair of vectors over the label zone with "
                    "counts 0..2 per series (overlapping, disjoint, empty; 2 zone values quick, 3 incl. 'no zone' thorough), all 15 "
                    "operators, scalars {0, 2, -3, 1/2}, both sides, with and without bool; every case is replayed as two selections "
                    "({app=a}, {app=b}) aggregated by zone, instant and over a range; random driver: differently grouped sides, "
                    "bytes/count inputs, nested arithmetic, comparisons between vectors; TLC checks every point (a comparison that does "
                    "not hold: absent or 0); non-trivial = distinct (records, expression)",
               assumptions=["fractional exponents and scalar o scalar expressions are outside the modelled domain (generators avoid them)",
                            "where a comparison does not hold the series may be absent or 0, with or without bool"])


@prop("C13")
def c13(ctx, replay):
    q = V.tla_str
    mcs = [dict(name="prec3", module="MC_Prec", consts=dict(MaxOperands=3, OpSet=q("all")), invariants=["ClimbingIsConventional"]),
           dict(name="prec4", module="MC_Prec", consts=dict(MaxOperands=4, OpSet=q("some")), invariants=["ClimbingIsConventional"])]
    if ctx.tier != "quick":
        mcs = [dict(name="prec5", module="MC_Prec", consts=dict(MaxOperands=5, OpSet=q("all")), invariants=["ClimbingIsConventional"], timeout=5400)]

    def nontrivial(scns):
        # chains with at least two operators (a grouping decision exists)
        seen = set()
        for sid, lines in scns:
            f = json.loads(lines[0])["in"].get("flat")
            if f and len(f["ops"]) >= 2:
                seen.add(json.dumps(f, sort_keys=True))
        return len(seen)
    return std(ctx, "C13", mc=mcs, harness_cmd="metric", harness_opts=["mode=prec"], trace_module="Trace_Metric",
               nrand=T(ctx, 3000, 40000), replay=replay, nontrivial=nontrivial, exhaustive=True, chunk_events=20000,
               rule="step 1: precedence climbing (as intended: inner loop absorbs tighter operators, and equally tight ones only for the "
                    "right-associative ^) = conventional tree, for every chain of <=3 operands over all 15 operators and <=4 over 9 "
                    "representative operators (quick) / <=5 over all 15 (thorough), with and without one parenthesised sub-chain; every "
                    "chain is evaluated as vector(a) op vector(b) ... by Engine.Eval and TLC checks the value against the set of outcomes "
                    "of the conventionally grouped tree (comparison false: absent or 0); random driver: random operand values and "
                    "parentheses; non-trivial = distinct chains with >=2 operators",
               assumptions=["values outside exact arithmetic (fractional exponents, magnitudes beyond 3e4) are 'open': any result accepted",
                            "known finding C13/equal-prec-right is recognised through the deviation constant EqualPrecRight"])


# ---------------------------------------------------------------------------------------------
# families observed through a test mapped into cmd/docker-logql with `go test -overlay` (package main)

OVERLAY_FILES = {"zz_trace_test.go": "harness/trace.go", "zz_probe_test.go": "harness/cmdprobe/probe_test.go",
                 "zz_fakedocker_test.go": "harness/fakedocker.go"}


def run_probe(ctx, mode, cases, out, nrand):
    import subprocess
    ov = ctx.path("overlay-%s.json" % mode)
    with open(ov, "w") as f:
        json.dump({"Replace": {os.path.join(V.REPO, "cmd/docker-logql", k): os.path.join(V.VERIF, v) for k, v in OVERLAY_FILES.items()}}, f)
    e = dict(os.environ, **V.GOENV, VERIF_TRACE=out, VERIF_CASES=cases or "", VERIF_RAND=str(nrand), VERIF_SEED=str(ctx.seed),
             VERIF_MODE=mode, TZ="UTC", NO_COLOR="")
    p = subprocess.run(["go", "test", "-vet=off", "-count=1", "-overlay", ov, "-run", "TestVerifProbe", "-timeout", "30m", "./cmd/docker-logql"],
                       cwd=V.REPO, env=e, stdout=subprocess.PIPE, stderr=subprocess.STDOUT, text=True)
    if p.returncode != 0:
        raise V.MachineryError("overlay probe failed (does cmd/docker-logql still compile?):\n" + p.stdout[-3000:])
    V.log("[run] overlay probe mode=%s: %s" % (mode, p.stdout.strip().splitlines()[0] if p.stdout.strip() else ""))


def std_probe(ctx, pid, *, mc, mode, trace_module, nrand, replay, rule, assumptions, nontrivial=None, chunk_events=20000, extra=None):
    trace = ctx.path("trace.ndjson")
    ncases = 0
    if replay:
        run_probe(ctx, mode, os.path.abspath(replay), trace, 0)
    else:
        cases = ctx.path("cases.ndjson")
        with open(cases, "w") as allf:
            for m in mc:
                cfile = ctx.path("cases-%s.ndjson" % m["name"]) if m.get("export", True) else None
                V.model_check(ctx, m["name"], m["module"], m["consts"], invariants=m.get("invariants", ()), properties=m.get("properties", ()),
                              cases_file=cfile, workers=m.get("workers", 16), timeout=m.get("timeout", 3600))
                if cfile:
                    for line in open(cfile):
                        allf.write(line)
                        ncases += 1
        run_probe(ctx, mode, cases, trace, nrand)
    bad, scns, nev = V.validate_trace(ctx, trace_module, trace, chunk_events=chunk_events)

    def reexec(cf_, tf):
        run_probe(ctx, mode, cf_, tf, 0)
    verdict = V.classify_rejections(ctx, pid, trace_module, None, None, bad, scns, reexec=reexec)
    cov = dict(traces_validated_against_impl=len(scns) - len(bad), evaluations=len(scns), events=nev, cases_from_model=ncases,
               cases_random=len(scns) - ncases if not replay else 0, distinct_nontrivial=nontrivial(scns) if nontrivial else len(scns),
               rule=rule, samples=V.sample_scenarios(scns), exhaustive=True, rejected_scenarios=len(bad))
    if extra and not replay:
        v2, c2 = extra()
        verdict.violations += v2.violations
        verdict.total_violating += v2.total_violating
        verdict.unreproduced += v2.unreproduced
        cov.update(c2)
        cov["traces_validated_against_impl"] += c2.get("system_scenarios", 0) - c2.get("system_rejected", 0)
        cov["evaluations"] += c2.get("system_scenarios", 0)
    return V.finish(ctx, pid, verdict, cov, assumptions)


def system_stage(ctx, pid, replay=None, model=True, gen_opts=(), nrand=None, chunk_events=8000):
    """The composed system (spec/System.tla) through the plugin's own command line: rootCmd over a fake Docker CLI.
    Returns (verdict, coverage-dict). Cases: MC_System's plus seeded random ones, completed (query text) by the harness."""
    inv = ["WellFormed", "FromSelectedInWindow", "InTimeOrderOnce", "LimitIsPrefix", "MergeCommutes"]
    trace = ctx.path("trace-system.ndjson")
    ncases = 0
    if replay:
        cases = os.path.abspath(replay)
    else:
        hbin = V.build_harness(ctx)
        mcases = ctx.path("cases-system-model.ndjson")
        if model:
            V.model_check(ctx, "system", "MC_System", dict(Pools=V.tla_str(T(ctx, "quick", "full"))), invariants=inv, cases_file=mcases, timeout=5400)
        else:
            open(mcases, "w").close()
        ncases = sum(1 for _ in open(mcases))
        cases = ctx.path("cases-system.ndjson")
        gopts = []
        for o in gen_opts:
            gopts += ["-opt", o]
        V.run_harness(ctx, hbin, ["cmdgen", "-cases", mcases, "-out", cases, "-rand", nrand or T(ctx, 600, 8000), "-seed", ctx.seed] + gopts)
    run_probe(ctx, "cmd", cases, trace, 0)
    bad, scns, nev = V.validate_trace(ctx, "Trace_System", trace, chunk_events=chunk_events)

    def reexec(cf_, tf):
        run_probe(ctx, "cmd", cf_, tf, 0)
    verdict = V.classify_rejections(ctx, pid, "Trace_System", None, None, bad, scns, reexec=reexec)
    cov = dict(system_scenarios=len(scns), system_cases_from_model=ncases, system_events=nev, system_rejected=len(bad),
               system_rule="the composed specification System.tla (flags -> window -> container selection -> frames in the window merged in time "
                           "order -> pipeline -> limit -> rendering) executed through the plugin's own cobra command (rootCmd over a fake Docker "
                           "CLI: query --start --end --limit --timestamp --container --color <text>); MC_System checks the composition on "
                           "two-container inventories (printed entries stem from selected containers inside the window, time order, limit is a "
                           "prefix, filtering commutes with merging) and exports every case; random inventories of 1-4 containers; TLC "
                           "recognises the printed bytes as the rendering of System!Printed")
    return verdict, cov


@prop("C16")
def c16(ctx, replay):
    if replay and json.loads(open(replay).readline())["in"].get("kind") == "cmd":
        verdict, cov = system_stage(ctx, "C16", replay)
        cov.update(traces_validated_against_impl=cov["system_scenarios"] - cov["system_rejected"], evaluations=cov["system_scenarios"], rule=cov["system_rule"])
        return V.finish(ctx, "C16", verdict, cov, [])
    inv = ["ResolveMatches", "SpellingsAgree", "MalformedRejected", "StepPositive"]
    mcs = [dict(name="resolve", module="MC_Resolve", consts=dict(Pools=V.tla_str(T(ctx, "quick", "full"))), invariants=inv)]

    def nontrivial(scns):
        seen = set()
        for sid, lines in scns:
            i = json.loads(lines[0])["in"]
            if any(i["has"]):
                seen.add(lines[0])
        return len(seen)
    return std_probe(ctx, "C16", mc=mcs, mode="time", trace_module="Trace_CLI", nrand=T(ctx, 4000, 60000), replay=replay, nontrivial=nontrivial,
                     rule="step 1: parseTimeRange step by step (since, end, end-or-now, start) vs the declarative Resolve, spelling "
                          "agreement of unix seconds / nanoseconds / fractional seconds (instants as <<hi, lo, ns>> because 2001-2200 "
                          "exceeds 32 bits; grid on the 9/10-digit and 2^31 boundaries), all 16 presence patterns, durations, every class "
                          "of malformed value, StepDenote/DefaultStep; each case + seeded random ones (random instants 2001-2200 in four "
                          "spellings, end before/after now, good and malformed since/step) run through the real parseTimeRange / parseStep "
                          "via a test mapped into cmd/docker-logql with -overlay (now injected); non-trivial = distinct cases with at least "
                          "one flag present",
                     assumptions=["RFC3339 text is rendered by time.Format from the intended instant (trusted)",
                                  "fractional seconds are written with exactly three digits (finer digits left open); exponent spellings left open",
                                  "an empty flag value counts as absent",
                                  "system stage: both window ends given as flags, frames at least two seconds away from them"],
                     extra=lambda: system_stage(ctx, "C16"))


@prop("C15")
def c15(ctx, replay):
    inv = ["PaletteIndexInRange", "OutputParses", "ColoursArePalette", "NoEscapeWithoutColour"]
    q = V.tla_str
    mcs = [dict(name="render-entries", module="MC_Render", consts=dict(MaxCtr=2, MaxEntries=T(ctx, 2, 3), Mode=q("entries")), invariants=inv),
           dict(name="render-many", module="MC_Render", consts=dict(MaxCtr=T(ctx, 20, 40), MaxEntries=0, Mode=q("many")), invariants=inv)]

    def nontrivial(scns):
        seen = set()
        for sid, lines in scns:
            i = json.loads(lines[0])["in"]
            if sum(len(s["entries"]) for s in i["streams"]) >= 2 or len(i["streams"]) > 7:
                seen.add(lines[0])
        return len(seen)
    return std_probe(ctx, "C15", mc=mcs, mode="render", trace_module="Trace_Render", nrand=T(ctx, 2500, 40000), replay=replay, nontrivial=nontrivial,
                     rule="step 1: renderResult as colour assignment + flatten, sort by timestamp, format; palette index inside the table for "
                          "0..20 (quick) / 0..40 (thorough) containers, output parses as one line per entry in time order with consistent "
                          "palette colours (CanParse) for <=2 containers x <=2-3 entries (timestamp ties, messages with embedded / trailing "
                          "CR LF, empty) x 8 option combinations; every case + seeded random results (<=30 containers, missing container "
                          "label, arbitrary message bytes incl. ESC) are rendered by the real renderResult through an overlay test and TLC "
                          "parses the produced bytes; non-trivial = distinct results with >=2 entries or more than 7 containers",
                     assumptions=["the RFC3339Nano text of each distinct timestamp is supplied by time.Format (trusted) with TZ=UTC",
                                  "order of equal timestamps and which palette colour a container gets are left open"])


@prop("C06")
def c06(ctx, replay):
    inv = ["NeverDropped", "LineUntouched", "MalformedFlagged", "WellFormedNotFlagged", "OthersUntouched", "SomeIsRestriction"]
    mcs = [dict(name="extract", module="MC_Extract", consts=dict(MaxFields=2, Pools=V.tla_str(T(ctx, "quick", "full"))), invariants=inv, timeout=5400)]
    # the regexp stage: leftmost-first submatches for every (expression, line) of the pools
    mcs.append(dict(name="regexp", module="MC_Regexp", consts=dict(MaxLen=T(ctx, 3, 4), Pools=V.tla_str(T(ctx, "quick", "full"))),
                    invariants=["WellFormed", "PrioAgreesWithEnds", "FoundIffSearch", "NeverDroppedNorChanged", "NoMatchNoChange", "GroupsAreSpans",
                                "OthersUntouched", "OnlyGroups"]))
    return std(ctx, "C06", mc=mcs, harness_cmd="logq", harness_opts=["mode=extract"], trace_module="Trace_LogQuery",
               trace_consts=dict(CheckStreams=False), nrand=T(ctx, 3000, 40000), replay=replay, nontrivial=_lq_nontrivial, exhaustive=True,
               chunk_events=20000,
               rule="step 1: the parser stages on documents - every JSON object of <=2 fields over keys {a, a.b, 1a(, b)} (duplicates "
                    "included) and values {strings incl. quote, numbers, bool, null, nested object, array}, its reference encoding and every "
                    "proper prefix of it (malformed), x {json, json a, three path expressions, json a + renamed path, unpack} x {existing "
                    "label a or not}: never dropped, line unchanged (except unpack/_entry), malformed kept + flagged, other labels "
                    "untouched, requested field = restriction of full extraction; each case is replayed through Engine.Eval; random "
                    "driver: nested documents (depth 2), alternative encodings (whitespace, \\\\u escapes; asserted equal with "
                    "encoding/json), 5 malformed constructions, unpack with shuffled fields, logfmt with quoted values / field lists / "
                    "renamed keys / malformed lines, pattern with 5 templates, regexp with random expressions of 1-3 named groups inside alternatives, options and repetitions; MC_Regexp: 7 (quick) / 11 (thorough) expression shapes x every line over {a,b,x} up to length 3 / 4 x {existing label a or not}, Prio (backtracking order) checked against the set-valued Ends; TLC checks count, line and labels of every entry; "
                    "non-trivial = distinct (records, stage)",
               assumptions=["text of nested values under json without arguments, labels extracted from the readable prefix of a malformed "
                            "line, a missing path (absent or empty) and the error details are left open",
                            "regexp: repetition bodies consume at least one byte (RE2's treatment of empty iterations is not transcribed); a group that took no part in the match is left optional; JSON strings in cases avoid control bytes"])


@prop("C07")
def c07(ctx, replay):
    inv = ["NeverDropped", "RenameMoves", "KeepDropSplit", "FailingTemplate", "LineOnlyByLineStages", "DecolorizeClean"]
    mcs = [dict(name="rewrite", module="MC_Rewrite", consts=dict(Pools=V.tla_str(T(ctx, "quick", "full"))), invariants=inv)]
    return std(ctx, "C07", mc=mcs, harness_cmd="logq", harness_opts=["mode=rewrite"], trace_module="Trace_LogQuery",
               trace_consts=dict(CheckStreams=False), nrand=T(ctx, 3000, 40000), replay=replay, nontrivial=_lq_nontrivial, exhaustive=True,
               chunk_events=20000,
               rule="step 1: label_format (renames incl. chains and swaps, templates against one snapshot, failing templates), "
                    "line_format, drop/keep (plain lists and value matchers, all four operators), decolorize on every label set over "
                    "{a, b, c} x {absent, '', x, xy}: never dropped, rename moves the value and removes the source, keep X / drop X split "
                    "the set, failing template leaves the line and flags __error__, decolorize idempotent; every case is replayed on "
                    "Engine.Eval with the stage written as query text (so which side of = is the source is the parser's choice); random "
                    "driver: 1-4 records, random templates of <=3 parts, random matcher regexes, SGR sequences at start/middle/end; "
                    "non-trivial = distinct (records, stage)",
               assumptions=["a template reading a label assigned in the same stage sees the snapshot taken after the renames",
                            "only SGR sequences (ESC [ params m) are used in decolorize cases; rename with identical source and target is left open"])


@prop("C18")
def c18(ctx, replay):
    import glob
    import hashlib
    import subprocess
    q = V.tla_str
    maxn = T(ctx, 4, 5)
    hbin = V.build_harness(ctx, race=True)
    racedir = ctx.path("race")
    os.makedirs(racedir, exist_ok=True)
    env = {"GORACE": "log_path=%s/race halt_on_error=0 exitcode=0" % racedir}
    trace = ctx.path("trace.ndjson")
    cases = ctx.path("cases.ndjson")
    ncases = 0
    if replay:
        V.run_harness(ctx, hbin, ["docker", "-cases", os.path.abspath(replay), "-out", trace, "-rand", 0, "-opt", "mode=determinism"], env=env)
    else:
        V.model_check(ctx, "schedules", "MC_Schedules", dict(MaxN=maxn, Reps=T(ctx, 2, 4)), invariants=["AllOrdersReachJoin"], cases_file=cases)
        V.model_check(ctx, "merge-orders", "MC_Merge", dict(NC=3, MaxRec=1, TSMax=2), invariants=["SlotsIndexAddressed", "Conservation"],
                      properties=["SlotWriteOnce"])
        V.model_check(ctx, "key-orders", "MC_SeriesKey", dict(MaxLabels=2, ValSet=q("tiny")), invariants=["KeyIsLabelSet"])
        ncases = sum(1 for _ in open(cases))
        V.run_harness(ctx, hbin, ["docker", "-cases", cases, "-out", trace, "-rand", T(ctx, 70, 400), "-seed", ctx.seed, "-opt", "mode=determinism"], env=env)
    bad, scns, nev = V.validate_trace(ctx, "Trace_Determinism", trace, chunk_events=20000)
    verdict = V.classify_rejections(ctx, "C18", "Trace_Determinism", hbin, "docker", bad, scns, extra_args=["-opt", "mode=determinism"])
    # the race detector observed every forced schedule
    races = [f for f in glob.glob(racedir + "/race*") if "DATA RACE" in open(f, errors="replace").read()]
    if races:
        d = os.path.join(V.VERIF, "replays", "C18")
        os.makedirs(d, exist_ok=True)
        rp = os.path.join(d, "race-%s.ndjson" % hashlib.sha1(open(races[0], "rb").read()).hexdigest()[:10])
        import shutil
        shutil.copyfile(cases if not replay else os.path.abspath(replay), rp)
        shutil.copyfile(races[0], rp + ".report.txt")
        verdict.violations.append((rp, "data race reported by the race detector under the forced schedules"))
    # end to end: rendered bytes of the plugin's own renderer under every completion order
    nprobe = 0
    if not replay:
        t2 = ctx.path("trace-e2e.ndjson")
        run_probe(ctx, "e2e", None, t2, T(ctx, 40, 400))
        bad2, scns2, nev2 = V.validate_trace(ctx, "Trace_Determinism", t2, chunk_events=20000)
        nprobe = len(scns2)
        nev += nev2

        def reexec(cf_, tf):
            run_probe(ctx, "e2e", cf_, tf, 0)
        v2 = V.classify_rejections(ctx, "C18", "Trace_Determinism", None, None, bad2, scns2, reexec=reexec)
        verdict.violations += v2.violations
        verdict.total_violating += v2.total_violating
        verdict.unreproduced += v2.unreproduced
        bad = bad + bad2
    runs = 0
    for sid, lines in scns:
        runs += sum(1 for l in lines if '"ev":"Run"' in l[:40] or l.startswith('{"ev":"Run"'))
    cov = dict(traces_validated_against_impl=len(scns) + nprobe - len(bad), evaluations=len(scns) + nprobe, events=nev, cases_from_model=ncases,
               cases_random=len(scns) - ncases if not replay else 0, distinct_nontrivial=len(scns) + nprobe, runs_under_race_detector=runs,
               race_reports=len(races), e2e_render_scenarios=nprobe,
               rule="step 1: every completion order of the concurrent opens reaches the same joined state (MC_Schedules), the merge "
                    "reads an index-addressed, write-once slice (MC_Merge) and the grouping key ignores materialisation order "
                    "(MC_SeriesKey); step 2/3: for 2..%d containers EVERY completion order (up to %d) is forced on Engine.Eval through the "
                    "gated fake daemon, each %d times (map order), for a log query, a range aggregation and a grouped sum, with the "
                    "harness built with -race; random inventories (2-5 containers, 3 Docker labels each); the full path through "
                    "renderResult is repeated in an overlay test for all orders; TLC checks that every run equals the first (result set, "
                    "outcome, rendered bytes); a race report is a violation; every scenario is non-trivial (>= 2 orders)" % (maxn, 120 if maxn == 5 else 24, T(ctx, 2, 4)),
               samples=V.sample_scenarios(scns, 2), exhaustive=True, rejected_scenarios=len(bad))
    return V.finish(ctx, "C18", verdict, cov,
                    ["goroutine interleavings are those the race detector observes under the forced completion orders",
                     "map iteration orders are sampled by repetition", "rendered output compared with colour off and distinct timestamps"])


@prop("C05")
def c05(ctx, replay):
    inv = ["GeneratedAreWellFormed", "MutationsKnown"]
    mcs = [dict(name="parse", module="MC_Parse", consts=dict(MaxStages=T(ctx, 2, 3), Pools=V.tla_str(T(ctx, "quick", "full")) if ctx.tier == "quick" else V.tla_str("quick")),
                invariants=inv, timeout=5400)]
    if ctx.tier != "quick":
        mcs.append(dict(name="parse-full", module="MC_Parse", consts=dict(MaxStages=2, Pools=V.tla_str("full")), invariants=inv))

    def nontrivial(scns):
        seen = set()
        for sid, lines in scns:
            i = json.loads(lines[0])["in"]
            seen.add(json.dumps([i["kind"], i["sel"], i["stages"], i.get("expr"), i["mut"]], sort_keys=True))
        return len(seen)
    return std(ctx, "C05", mc=mcs, harness_cmd="parse", trace_module="Trace_Parse", nrand=T(ctx, 6000, 80000), replay=replay,
               nontrivial=nontrivial, exhaustive=True, chunk_events=20000,
               rule="step 1: ASTs drawn per syntactic position from pools (4 selectors, every stage kind in sequences of <=2 (quick) / "
                    "<=3 (thorough), 60 range aggregations over all 13 operations with unwrap/conversion/parameter/grouping/range/offset, 40 "
                    "vector aggregations, 40 binary operations, vector()); static rules hold for each; every AST is exported under 6 "
                    "layouts (spaces, newlines, tabs, comments between all tokens, back-quoted strings, redundant parentheses, grouping "
                    "before/after the operand, compound durations, the range written directly behind the selector or behind the pipeline; random driver also: raw literals with edge quotes, regexp stages with named and unnamed groups, ip() filters, unwrap filters) and with every applicable forbidden mutation (9 for log, 14 for metric "
                    "queries); logql.Parse is run on each text and TLC compares the projected tree with the AST's wire form (valid) or "
                    "requires rejection (mutated); random driver: queries of the C01/C06/C07/C09/C11/C12 generators under random "
                    "layouts and mutations; non-trivial = distinct (AST, mutation)",
               assumptions=["texts are written by the harness from the AST (renderer errors show up as mismatches and are investigated)",
                            "error messages, the tree shape of equal-precedence binary chains (C13) and the grouping of unparenthesised "
                            "mixed and/or predicates are left open (operands of binary operations are parenthesised)",
                            "on/ignoring, label_replace, parser flags, ip() and the regexp stage are not generated"])


@prop("C17")
def c17(ctx, replay):
    q = V.tla_str
    mcs = [dict(name="fuzz", module="MC_Fuzz", consts=dict(MaxLen=T(ctx, 3, 4), AlphaSet=q(T(ctx, "quick", "full"))), invariants=["AlwaysAnOutcome"], timeout=5400)]

    def nontrivial(scns):
        # queries that got past the parser at least once (some evaluation code ran on the hostile data)
        n = 0
        for sid, lines in scns:
            if any('"outcome":"ok"' in l for l in lines):
                n += 1
        return n
    return std(ctx, "C17", mc=mcs, harness_cmd="fuzz", trace_module="Trace_Fuzz", nrand=T(ctx, 6000, 120000), replay=replay,
               nontrivial=nontrivial, exhaustive=True, chunk_events=40000,
               rule="step 1: Call -> Return(ok|err) two-state machine; TLC enumerates every byte string of <=3 symbols over 16 "
                    "lexer/parser-relevant bytes incl. NUL and 0xFF (quick) / <=4 over 25 (thorough); each is evaluated by Engine.Eval "
                    "(instant and positive step) against 33 hostile records (64-deep JSON, 200-deep arrays, every kind of truncation, 1e999, "
                    "-0, 30-digit integers, lone surrogates, invalid UTF-8, empty, 64 KiB and 70 kB lines, malformed logfmt, bogus IPs) "
                    "under recover() and a 15 s watchdog; random driver: valid queries of all generators (every stage kind and metric "
                    "function meets the hostile data), their byte-level mutations, their forbidden mutations (must return an error), "
                    "broken templates / patterns / JSON paths / regexes / ip() arguments, all unwrap conversions with extreme "
                    "parameters; non-trivial = scenarios whose query was evaluated (returned ok at least once)",
               assumptions=["'all byte strings' beyond the enumerated alphabet/length and the mutated grammar is not reachable by a model",
                            "a hang is a call that does not return within 15 s"])
