#!/usr/bin/env python3
"""Writes /verif/MANIFEST.json from the table below + the registered checks (keeps the two in sync)."""
import json
import os
import sys

sys.path.insert(0, os.path.dirname(os.path.abspath(__file__)))
import props  # noqa: E402

VERIF = os.path.dirname(os.path.dirname(os.path.abspath(__file__)))

TECH = "explicit TLA+ specification: TLC model checking of the bounded design + TLC trace validation of the real code's recorded executions"

INFO = {
    "C20": dict(
        text="TLC exhaustively checks KeyToLabel's fast/slow-path state machine against the declarative mapping (valid name, "
             "identity on valid names, idempotence, one underscore per offending rune) for every key of up to 3 (quick) / 5 "
             "(thorough) symbols over a 15-symbol alphabet incl. multi-byte and invalid UTF-8; the same keys plus seeded "
             "random keys are run through otelstorage.KeyToLabel and every observed result is validated by TLC against "
             "the specification (Trace_Sanitize)."
             " Each key is also put on a container of the fake daemon as a Docker label and the container must be the one selected by "
             "{sanitised(key)=\"v\"} through the Docker-backed storage.",
        note="Trusts the transcription of Go's UTF-8 range decoding (Utf8.tla) and TLC; bounded alphabet/length + random longer keys; empty key left open.",
        ref="6/C20"),
    "C03": dict(
        text="TLC checks the frame decoder (ReadFull header / CopyN body / type test / payload parse) as a state machine against "
             "the declarative Decode(frames, fault) for every fragmentation of reads, every cut / transport-error offset and every "
             "position of a daemon-error or corrupt frame within the bounds (<=2 frames quick, <=3 thorough); every explored "
             "(frames, fault) pair is replayed through dockerlog.ParseLog and through Engine.Eval (log query and range aggregation) "
             "with 5 read-size patterns, plus seeded random streams, and each recorded execution is validated by TLC "
             "(Trace_Decoder): records byte- and nanosecond-exact, in order, prefix up to the fault, error iff the fault is an "
             "error kind, and the error stays reported when the iterator is polled again."
             " Every case is also run with a second, healthy container selected beside the observed one (its failure is still the query's failure).",
        note="Trusts time.Format for RFC3339Nano text, the fake daemon's transport, TLC; bounded frames + random larger streams.",
        ref="6/C03"),
    "C04": dict(
        text="TLC checks the design (goroutine-per-container open into an index-addressed slice, then a container/heap merge "
             "transcribed swap by swap) for per-source order, exactly-once delivery, time order for sorted logs and slot "
             "write-once, over every small inventory and every interleaving of the open completions; every such inventory is "
             "then executed on dockerlog.Querier.SelectLogs under all completion orders forced through the fake daemon, plus "
             "random larger inventories, and TLC validates each recorded run (Trace_Merge) including equality of the merged "
             "sequence across orders.",
        note="Trusts the gate-based scheduler of the fake daemon to realise the completion order, and TLC; bounded inventories + random larger ones.",
        ref="6/C04"),
    "C02": dict(
        text="TLC checks the container-selection loop (label map derivation, per-operator comparison with early exit, missing "
             "label = empty string, fully anchored regexes from an explicit regex algebra) against the declarative Selected() for "
             "every bounded inventory x selector x time range; the same cases and random larger ones run through Engine.Eval over "
             "the Docker-backed storage with a fake daemon, and TLC validates on the recorded trace that exactly the selected "
             "containers are opened, with since/until = whole-second floor of the window (30 s look-back for instant log queries), "
             "stdout+stderr+timestamps, and that every returned line carries exactly the label set of its container of origin.",
        note="Trusts the fake Docker API client and TLC; regex semantics limited to the algebra in Regex.tla; sanitised-name collisions left open.",
        ref="6/C02"),
    "C14": dict(
        text="TLC explores the reader life cycle of one query (list, concurrent opens in every completion order, Wait, deferred "
             "cleanup, iteration, error check, Close / closeOnError) for log, metric and binary-operation shapes with every single "
             "fault, checking NoLeak, Surfaces and close-after-open on the design; every fault is replayed in each concrete byte-level "
             "realisation and every completion order on Engine.Eval over a fake Docker client that records each open, fault delivery "
             "and Close under its mutex, and TLC validates the recorded trace: at Return all opened readers are closed, error-kind "
             "faults produced an error, an ok log result is complete.",
        note="Trusts the fake Docker client's event order (taken under its mutex) and TLC; single-fault scenarios; limit -1.",
        ref="6/C14"),
    "C01": dict(
        text="TLC checks the engine's log path as a state machine (offload split of selector matchers and line filters by storage "
             "capability with barriers at line-rewriting/stateful stages, storage answer, limit guard, prefilter, pipeline with "
             "first-reject short-circuit) against the declarative LogResult over every record set, pipeline, selector, limit and "
             "capability set of bounded pools; every case runs through Engine.Eval over an in-memory storage under several "
             "capability configurations together with seeded random record sets and pipelines, and TLC validates each recorded run: "
             "bag of entries = LogResult (each matching record once, none else, original timestamp and line, final labels), the "
             "storage's own answer being checked as an environment step. ip(\"...\") line and label filters on IPv4 and IPv6 (MC_Ip: patterns x "
             "addresses around their edges in every spelling, prefix containment against the network..broadcast interval, the line "
             "scanner, families kept apart), the regexp stage, and the labels a record starts with (own / scope / resource attributes, "
             "ids, severity, typed values) are part of the stage semantics.",
        note="Stage semantics are those of Pipeline.tla/Num.tla/Regex.tla/Ip.tla (sub-grammars for numbers, durations, byte sizes, regexes with anchors and groups, IPv4 / IPv6); values outside them (an address with a zone or an IPv4 tail under ip()) make a scenario open (not compared).",
        ref="6/C01"),
    "C08": dict(
        text="TLC checks the limit guard and groupEntries (stream map keyed by the canonical sorted+quoted label rendering) on every "
             "small record sequence with colliding label renderings, timestamp ties and limits around the number of matches: key "
             "injective, streams partition entries by final label set, time order per stream, first min(L,N) records; the cases and "
             "random larger ones run through Engine.Eval and TLC validates entries against LogResult plus the partition and limit "
             "rules on the recorded result. Second stage: the limit through the plugin's own command over 4-8 fake containers with "
             "interleaved frames; TLC recognises the printed bytes as the first `limit` entries of System!Printed.",
        note="Trusts the in-memory storage fake (itself checked as an environment step) and TLC; tie-breaking at the cut and stream order left open.",
        ref="6/C08"),
    "C19": dict(
        text="TLC proves on bounded pools that the specification's own stage semantics is a Boolean algebra of filters (sub-multiset, "
             "negation splits, commutation, idempotence, and = intersection, or = union, |= \"\" neutral) and then evaluates the same "
             "relations on the result sets OBSERVED from Engine.Eval for every exported family and for random families with arbitrary "
             "bytes and arbitrary valid regular expressions, over the in-memory storage and over the Docker storage - relations between "
             "several executions of the real code, judged by TLC (Trace_Algebra).",
        note="Relations are checked on observed results only (no semantic model of the regex needed); distinct timestamps per scenario.",
        ref="6/C19"),
    "C09": dict(
        text="TLC checks the sliding-window iterator (stepper, eviction, admission, one-sample look-ahead, skip-early) as a state machine "
             "against Window(T) = {T-o-r <= ts <= T-o} after every step and the stamping of steps on the grid, for every bounded history of "
             "sliding the window; all explored parameter combinations and random ones over all range functions are evaluated by Engine.Eval "
             "under several grids and as instant queries, and TLC validates every returned point against the declarative value "
             "(Metric.tla) - which makes the value at T independent of start, step and range-vs-instant evaluation.",
        note="Values compared as exact small rationals recovered from float64 (1e-9); bounded timestamps/ranges + random larger ones.",
        ref="6/C09"),
    "C10": dict(
        text="TLC checks that the grouping key (sorted, length-prefixed visible pairs under an injective hash) identifies exactly the visible "
             "label set for every pair of small label sets, materialisation order and grouping clause; the pairs and random larger label "
             "sets are evaluated repeatedly through Engine.Eval (map order re-randomised per run) and TLC validates that every series "
             "appears once with the conserved value.",
        note="Hash collisions outside the model; map orders sampled by repetition.",
        ref="6/C10"),
    "C11": dict(
        text="TLC compares the implementation-shaped grouping (one label list refined by nested by/without filters, map of streaming "
             "aggregators per key, bounded heap for topk/bottomk) with the declarative level-by-level meaning for every bounded input "
             "vector, operator, clause and nesting to depth three; each case is turned into logs producing that input vector and evaluated "
             "by Engine.Eval (instant and range), random larger cases added, and TLC validates every returned series/value (choices among "
             "topk ties allowed, counts and must-members enforced, sort order checked on instant vectors). MC_TopK drives the bounded heap "
             "with every arrival order of 6 / 7 distinct values for every k (the heap holds the k best, its root is the worst of them); its "
             "cases are evaluated repeatedly because the arrival order in the code is Go's map order.",
        note="Values as exact rationals (stddev via its square); tie-breaking left open; map iteration orders sampled by repetition.",
        ref="6/C11"),
    "C12": dict(
        text="TLC compares the implementation-shaped binary-operation iterators (left map + right walk, key-set merges, literal side) "
             "with the declarative pointwise join for every bounded pair of vectors, operator, scalar and side, and the cases plus random "
             "ones (differently grouped sides, nesting) are evaluated by Engine.Eval instant and per step; TLC validates every returned "
             "series and value (x/0, x%0 = NaN; comparisons 1 where they hold).",
        note="Exact rational arithmetic incl. math.Mod sign and integer powers; fractional exponents out of scope.",
        ref="6/C12"),
    "C13": dict(
        text="TLC shows that precedence climbing as intended yields the conventional tree for every operator chain within the bounds "
             "(with and without a parenthesised sub-chain) and every such chain is evaluated by Engine.Eval over vector() operands; TLC "
             "validates the observed value against the outcome set of the conventional grouping. The code's right-grouping of equal "
             "precedence is a recorded known finding (deviation EqualPrecRight): scenarios it explains print KNOWN-FINDING, any other "
             "mis-grouping is a violation.",
        note="Exact rationals; open values for fractional exponents / large magnitudes.",
        ref="6/C13"),
    "C16": dict(
        text="TLC checks the flag-resolution sequence (since, end, min(end, now), start; default and explicit step) against the "
             "declarative Resolve/StepDenote/DefaultStep over a grid of instants 2001-2200 on the digit-count and 2^31 boundaries, the four "
             "spellings, all presence patterns and malformed classes; every case and random ones are executed by the real parseTimeRange / "
             "parseStep through an overlay test with an injected clock and TLC validates each recorded resolution. A second stage executes the composed specification (System.tla: flags -> window -> container selection -> merged frames -> pipeline -> limit -> rendering) through the plugin's own cobra command over a fake Docker CLI and lets TLC recognise the printed bytes (Trace_System).",
        note="Wide integers as <<hi, lo, ns>> triples; RFC3339 rendering trusted to time.Format; sub-millisecond fractional digits left open.",
        ref="6/C16"),
    "C15": dict(
        text="TLC checks the renderer's palette assignment (index always inside the table for any number of containers) and that the "
             "formatted output of every bounded result parses as exactly one line per entry in time order with consistent colours; all "
             "cases and random results with up to 30 containers are rendered by the real renderResult (overlay test) and TLC parses the "
             "produced bytes with a backtracking recogniser (Render.CanParse): every entry once, time order, trimmed message, optional "
             "name/timestamp, palette colours consistent per container, no escape bytes with colour off, never an error or panic.",
        note="Timestamp text trusted to time.Format; tie order and colour choice left open.",
        ref="6/C15"),
    "C06": dict(
        text="TLC enumerates JSON documents with their reference encoding and every truncation of it, logfmt documents and pattern "
             "templates, checks the stage semantics' own laws (never dropped, line untouched, malformed flagged, override, restriction) "
             "and exports each case; the cases and random ones (alternative encodings asserted equal by encoding/json, nested documents, "
             "malformed constructions, unpack, logfmt quoting, pattern) run through Engine.Eval and TLC validates count, line and label "
             "set of every returned entry against the document (the ground truth), with explicitly open spots for nested values, "
             "malformed prefixes and missing paths.",
        note="Ground truth is the document carried by the case; regexp stage: named groups of the leftmost-first match (MC_Regexp checks the backtracking order Prio against the set-valued Ends; repetition bodies consume at least one byte; a group that took no part is left optional); error detail text left open.",
        ref="6/C06"),
    "C07": dict(
        text="TLC checks the rewriting stages' laws on every small label set (rename moves and removes, keep/drop complement, template "
             "snapshot and failure handling, decolorize idempotent) and exports every case as query TEXT evaluated by Engine.Eval, so that "
             "the parser's choice of source/target, the template engine and the matchers are all in the loop; TLC validates line and labels "
             "of every returned entry.",
        note="Template algebra of five part kinds; SGR sequences only.",
        ref="6/C07"),
    "C18": dict(
        text="TLC shows on the design that the joined state, the merge input slice and the grouping key do not depend on the completion "
             "order / materialisation order; then every completion order for 2..4 (quick) / 2..5 (thorough) containers is forced on the "
             "real code through the gated fake daemon, repeated to sample map orders, for log and metric queries, under the Go race "
             "detector, and once more through renderResult; TLC validates that all runs of a scenario are identical (results, outcome, "
             "rendered bytes) and any race report is a violation.",
        note="Schedules are forced at the ContainerLogs boundary; finer interleavings only as observed by -race.",
        ref="6/C18"),
    "C05": dict(
        text="TLC enumerates query ASTs per syntactic position (every stage kind, every aggregation, literals of every kind) and checks "
             "the static rules on them; each AST is written as text under six layouts and with each forbidden mutation, logql.Parse is run "
             "and TLC validates that a valid text is accepted with exactly the denoted structure (operators, literals after unquoting, "
             "durations, byte sizes, parameters, grouping, range, offset, unwrap) and that a mutated text is rejected; random generators "
             "add arbitrary pipelines and metric expressions under random layouts.",
        note="The text is produced by the harness from the AST; grammar coverage is that of the pools (no on/ignoring, label_replace, ip()).",
        ref="6/C05"),
    "C17": dict(
        text="The property is the two-state machine Call -> Return(ok|err). TLC enumerates all short byte strings over the bytes the "
             "lexer/parser branch on and exports them; these, grammar-derived queries, their byte-level and forbidden mutations and "
             "deliberately broken stage arguments are evaluated by Engine.Eval against a hostile data set under recover() and a watchdog; "
             "TLC validates that every call returned ok or err (err for forbidden mutations) - a panic or hang event is unexplained.",
        note="Enumeration bounded by alphabet and length; beyond that seeded mutation. Watchdog 15 s.",
        ref="6/C17"),
}

NOT_YET = "no check registered yet in this revision (machinery under construction; see DESIGN.md section 6 for the planned model)"


def main():
    ids = [json.loads(l)["id"] for l in open(os.path.join(VERIF, "properties.jsonl")) if l.strip()]
    checks = []
    na = []
    for pid in ids:
        if pid in props.CHECKS and pid in INFO:
            i = INFO[pid]
            checks.append(dict(
                property_id=pid,
                quick_cmd="./check %s --tier quick" % pid,
                thorough_cmd="./check %s --tier thorough" % pid,
                evidence_file="evidence/%s.json" % pid,
                replay_cmd_template="./check %s --replay {path}" % pid,
                engine="tla-tlc",
                level_claimed=dict(category="model_checking", text=i["text"], design_ref="DESIGN.md section " + i["ref"]),
                level_note=i["note"],
                technique=i.get("technique", TECH)))
        else:
            na.append(dict(property_id=pid, reason=NOT_YET))
    m = dict(
        version=1,
        setup_cmd="cd /verif/harness && cp /repo/go.sum . && GOFLAGS=-mod=mod GOPROXY=off GOSUMDB=off GOTOOLCHAIN=local go build -o /dev/null . && tlc -h >/dev/null 2>&1; true",
        hooks=dict(guard="verif", enable="none needed: every observation point is public or reached with go test -overlay (DESIGN.md section 5)",
                   baseline_off_cmd="cd /repo && go test -mod=mod -vet=off -count=1 -timeout 25m ./...",
                   source_commits=[], add_only=True),
        engines=[dict(name="tla-tlc", path="spec/", serves_properties=[c["property_id"] for c in checks],
                      kind_free_text="TLA+ specifications checked with TLC 1.8 (bounded model checking + trace validation); Go harness in harness/ replays model-generated and random cases on the real code")],
        checks=checks,
        notes="Exit 0 held / only known findings; exit 1 + VIOLATION line; exit 2 machinery failure (never a verdict). VERIF_SEED seeds the random driver.",
        not_applicable=na)
    with open(os.path.join(VERIF, "MANIFEST.json"), "w") as f:
        json.dump(m, f, indent=1)
        f.write("\n")
    print("MANIFEST.json: %d checks, %d not claimed" % (len(checks), len(na)))


if __name__ == "__main__":
    main()
