#!/bin/bash
# usage: confirm_mutant.sh <ID> <property-check-id> [suffix]   (suffix b = second-round mutant: /tmp/mut/<ID>b, /verif/seeded/<ID>b)
# 1. confirms in the agent's scratch worktree /tmp/wt-<ID> that the demo fails with the change and passes without it,
#    and that the repository's own suite passes with the change;
# 2. applies the patch to /repo, runs ./check <prop> --tier quick, and reverts /repo;
# 3. stores the mutant under /verif/seeded/<ID>/.
set -u
WTID=$1; PROP=${2:-$1}; SUF=${3:-}; WT=/tmp/wt-$WTID; ID=$WTID$SUF; M=/tmp/mut/$ID
export GOFLAGS=-mod=mod GOPROXY=off GOSUMDB=off GOTOOLCHAIN=local
cd $WT || exit 2
DEMO=$(python3 -c "import json;print(json.load(open('$M/meta.json'))['demo_cmd'])")
echo "== demo with change: $DEMO"
(eval "$DEMO") > /tmp/mut/$ID/demo_with.log 2>&1; RC_WITH=$?
grep -q "FAIL\|panic:" /tmp/mut/$ID/demo_with.log && RC_WITH=1
git diff -- . ':(exclude)*_test.go' > /tmp/mut/$ID/src.diff
git apply -R /tmp/mut/$ID/src.diff || { echo "cannot revert"; exit 2; }
echo "== demo without change"
(eval "$DEMO") > /tmp/mut/$ID/demo_without.log 2>&1; RC_WITHOUT=$?
grep -q "FAIL\|panic:" /tmp/mut/$ID/demo_without.log && RC_WITHOUT=1
git apply /tmp/mut/$ID/src.diff
echo "== suite with change"
go build ./... && go test -vet=off -count=1 ./... > /tmp/mut/$ID/suite.log 2>&1; RC_SUITE=$?
# the demo test itself lives in the tree: exclude its package failure from the suite verdict by re-running without it
if [ $RC_SUITE -ne 0 ]; then
  DEMOFILES=$(git status --short | grep '^??' | awk '{print $2}' | grep _test.go)
  mkdir -p /tmp/mut/$ID/hold; for f in $DEMOFILES; do mv $f /tmp/mut/$ID/hold/$(echo $f | tr / _); done
  go test -vet=off -count=1 ./... > /tmp/mut/$ID/suite.log 2>&1; RC_SUITE=$?
  for f in $DEMOFILES; do mv /tmp/mut/$ID/hold/$(echo $f | tr / _) $f; done
fi
echo "demo_with_rc=$RC_WITH demo_without_rc=$RC_WITHOUT suite_rc=$RC_SUITE"
cd /verif
# the check runs against the agent's worktree (change applied), never against /repo
VERIF_REPO=$WT timeout 1800 ./check $PROP --tier quick > /tmp/mut/$ID/check.log 2>&1; RC_CHECK=$?
echo "check_rc=$RC_CHECK  $(grep -c VIOLATION /tmp/mut/$ID/check.log) VIOLATION lines; $(tail -1 /tmp/mut/$ID/check.log)"
mkdir -p /verif/seeded/$ID
cp /tmp/mut/$ID/src.diff /verif/seeded/$ID/patch.diff
cp /tmp/mut/$ID/demo_test.go /verif/seeded/$ID/demo_test.go.txt 2>/dev/null
python3 - <<PY
import json
m=json.load(open('$M/meta.json'))
m.update(dict(confirmed=dict(demo_with_change_rc=$RC_WITH, demo_without_change_rc=$RC_WITHOUT, suite_with_change_rc=$RC_SUITE),
              check_run=dict(cmd="./check $PROP --tier quick", exit=$RC_CHECK, detected=($RC_CHECK==1))))
json.dump(m,open('/verif/seeded/$ID/meta.json','w'),indent=1)
PY
