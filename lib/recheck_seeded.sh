#!/bin/bash
# usage: recheck_seeded.sh [<seeded-id> ...]      (default: every directory under /verif/seeded)
# Regression of the machinery itself: every stored seeded change is applied to a scratch worktree of /repo (never to
# /repo), the property's quick check is run against that worktree (VERIF_REPO) and must exit 1; the worktree is removed.
# Prints one line per seeded change; exit 0 iff every one was detected.
set -u
cd "$(dirname "$(readlink -f "$0")")/.."
IDS=${@:-$(ls -d seeded/*/ | xargs -n1 basename)}
RC=0
for ID in $IDS; do
  PROP=$(python3 -c "import json;print(json.load(open('seeded/$ID/meta.json')).get('property','$ID'[:3]))" 2>/dev/null || echo ${ID:0:3})
  PROP=${ID:0:3}
  WT=$(mktemp -d /tmp/seeded-wt-XXXXXX); rmdir $WT
  git -C /repo worktree add -q --detach $WT HEAD || { echo "$ID: cannot create worktree"; RC=2; continue; }
  if ! git -C $WT apply "$PWD/seeded/$ID/patch.diff" 2>/dev/null && ! git -C $WT apply "$PWD/seeded/$ID/patch.diff"; then
    echo "$ID: patch does not apply to the current tree"; RC=2
  else
    VERIF_REPO=$WT timeout 1800 ./check $PROP --tier quick > /tmp/seeded-check-$ID.log 2>&1; C=$?   # (a seeded change may make the harness crawl: bounded)
    N=$(grep -c '^VIOLATION' /tmp/seeded-check-$ID.log)
    KNOWN=$(python3 -c "import json;print(json.load(open('seeded/$ID/meta.json')).get('verif_status',''))" 2>/dev/null)
    if [ $C -eq 1 ]; then echo "$ID: detected by ./check $PROP --tier quick ($N VIOLATION lines)";
    elif [ -n "$KNOWN" ]; then echo "$ID: not detected, as recorded ($KNOWN)";
    else echo "$ID: NOT detected (exit $C)"; RC=1; fi
    rm -f /tmp/seeded-check-$ID.log
  fi
  git -C /repo worktree remove --force $WT
done
exit $RC
