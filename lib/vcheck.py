#!/usr/bin/env python3
"""Shared machinery of /verif/check.

Pipeline of one check (see DESIGN.md, section 2):

  step 1  TLC model-checks the bounded instance MC_<family> (design-level invariants) and, in the
          same run, exports the explored input space as ndjson cases (POSTCONDITION Export).
  step 2  the Go harness (built from /repo's current working tree) runs the real code on every
          exported case plus seeded random cases of the same vocabulary and records one ndjson
          event per observation.
  step 3  TLC validates the recorded trace against Trace_<family>: a deterministic trace automaton
          that reuses the family's operators.  An event that no action of the specification explains
          puts the scenario into `bad` and the automaton skips to the next scenario, so one run
          examines the whole batch.
  step 4  every rejected scenario is re-run alone on the real code and re-validated; only a
          reproduced rejection counts.  It is then re-validated with the deviations listed in
          known_findings.json switched on (CONSTANT Dev); accepted there => KNOWN-FINDING, otherwise
          VIOLATION.

Exit codes: 0 held / only known findings, 1 violation, 2 the machinery itself failed (never a verdict).
"""
import concurrent.futures as cf
import hashlib
import json
import os
import re
import shutil
import subprocess
import sys
import time

VERIF = os.path.dirname(os.path.dirname(os.path.abspath(__file__)))
REPO = os.environ.get("VERIF_REPO", "/repo")
SPEC = os.path.join(VERIF, "spec")
HARNESS = os.path.join(VERIF, "harness")
GOENV = dict(GOFLAGS="-mod=mod", GOPROXY="off", GOSUMDB="off", GOTOOLCHAIN="local")


class MachineryError(Exception):
    """Raised when the framework (not the system under test) fails: exit 2."""


def log(*a):
    print(*a, flush=True)


class Ctx:
    def __init__(self, pid, tier, seed):
        self.pid = pid
        self.tier = tier
        self.seed = seed
        self.t0 = time.time()
        self.work = os.path.join(VERIF, ".work", "%s-%s-%d" % (pid, tier, os.getpid()))
        shutil.rmtree(self.work, ignore_errors=True)
        os.makedirs(self.work)
        self.states = 0
        self.transitions = 0
        self.mc_runs = []
        self.notes = []

    def path(self, *p):
        return os.path.join(self.work, *p)

    def cleanup(self):
        shutil.rmtree(self.work, ignore_errors=True)


# ---------------------------------------------------------------------------------------------
# Go side


def build_harness(ctx, race=False):
    """Build the harness against REPO's current working tree. Returns the binary path.
    REPO is /repo unless VERIF_REPO points elsewhere (used to try a seeded change in a scratch worktree without
    touching /repo): then the harness sources are staged with the module replacement rewritten."""
    env = dict(os.environ, **GOENV)
    src = HARNESS
    if REPO != "/repo":
        src = ctx.path("harness-src")
        if not os.path.isdir(src):
            shutil.copytree(HARNESS, src)
            gm = os.path.join(src, "go.mod")
            txt = open(gm).read().replace("=> /repo", "=> " + REPO)
            open(gm, "w").write(txt)
    shutil.copyfile(os.path.join(REPO, "go.sum"), os.path.join(src, "go.sum"))
    out = ctx.path("harness-race" if race else "harness")
    cmd = ["go", "build", "-o", out]
    if race:
        cmd.append("-race")
    cmd.append(".")
    t = time.time()
    p = subprocess.run(cmd, cwd=src, env=env, stdout=subprocess.PIPE, stderr=subprocess.STDOUT, text=True)
    if p.returncode != 0:
        raise MachineryError("harness build failed (does the repository still compile?):\n" + p.stdout[-4000:])
    log("[build] harness%s built in %.1fs%s" % (" (-race)" if race else "", time.time() - t, "" if REPO == "/repo" else " against " + REPO))
    return out


def run_harness(ctx, binary, args, timeout=3600, env=None):
    e = dict(os.environ, **GOENV)
    if env:
        e.update(env)
    t = time.time()
    p = subprocess.run([binary] + [str(a) for a in args], cwd=ctx.work, env=e, stdout=subprocess.PIPE,
                       stderr=subprocess.STDOUT, text=True, timeout=timeout)
    if p.returncode != 0:
        raise MachineryError("harness %s failed rc=%d:\n%s" % (args[:2], p.returncode, p.stdout[-4000:]))
    log("[run] harness %s: %.1fs %s" % (" ".join(str(a) for a in args[:2]), time.time() - t,
                                        p.stdout.strip().splitlines()[-1] if p.stdout.strip() else ""))
    return p.stdout


def go_overlay_test(ctx, pkg_dir, overlay_src, dst_name, run, env=None, timeout=1800):
    """Run a _test.go file that lives in /verif inside a package of /repo via -overlay."""
    ov = ctx.path("overlay.json")
    with open(ov, "w") as f:
        json.dump({"Replace": {os.path.join(REPO, pkg_dir, dst_name): overlay_src}}, f)
    e = dict(os.environ, **GOENV)
    if env:
        e.update(env)
    cmd = ["go", "test", "-vet=off", "-count=1", "-overlay", ov, "-run", run, "-timeout", "%ds" % timeout, "./" + pkg_dir]
    p = subprocess.run(cmd, cwd=REPO, env=e, stdout=subprocess.PIPE, stderr=subprocess.STDOUT, text=True,
                       timeout=timeout + 60)
    if p.returncode != 0:
        raise MachineryError("overlay test failed rc=%d:\n%s" % (p.returncode, p.stdout[-4000:]))
    return p.stdout


# ---------------------------------------------------------------------------------------------
# TLC


def _cfg_value(v):
    if isinstance(v, bool):
        return "TRUE" if v else "FALSE"
    if isinstance(v, int):
        return str(v)
    if isinstance(v, str):
        return v  # raw TLA+ text
    if isinstance(v, (set, frozenset)):
        return "{" + ", ".join(sorted(_cfg_value(x) for x in v)) + "}"
    if isinstance(v, (list, tuple)):
        return "<<" + ", ".join(_cfg_value(x) for x in v) + ">>"
    raise TypeError(v)


def tla_str(s):
    return '"%s"' % s


def write_cfg(path, consts=None, spec=None, init=None, next_=None, invariants=(), properties=(),
              constraint=None, post=None, view=None, deadlock=False, symmetry=None):
    L = []
    if spec:
        L.append("SPECIFICATION %s" % spec)
    if init:
        L.append("INIT %s" % init)
    if next_:
        L.append("NEXT %s" % next_)
    if consts:
        L.append("CONSTANTS")
        for k, v in consts.items():
            L.append("  %s = %s" % (k, _cfg_value(v)))
    for i in invariants:
        L.append("INVARIANT %s" % i)
    for p in properties:
        L.append("PROPERTY %s" % p)
    if constraint:
        L.append("CONSTRAINT %s" % constraint)
    if view:
        L.append("VIEW %s" % view)
    if post:
        L.append("POSTCONDITION %s" % post)
    L.append("CHECK_DEADLOCK %s" % ("TRUE" if deadlock else "FALSE"))
    with open(path, "w") as f:
        f.write("\n".join(L) + "\n")


_STATS = re.compile(r"(\d+) states generated, (\d+) distinct states found, (\d+) states left on queue")


def stage_specs(ctx, sub):
    """Copy all spec modules into a scratch dir (TLC litters next to the module)."""
    d = ctx.path(sub)
    os.makedirs(d, exist_ok=True)
    for f in os.listdir(SPEC):
        if f.endswith(".tla"):
            shutil.copyfile(os.path.join(SPEC, f), os.path.join(d, f))
    return d


def tlc(ctx, sub, module, cfg_kwargs, env=None, workers=16, timeout=3600, deque=False, heap=None, quiet=False):
    """Run TLC on spec/<module>.tla with a generated cfg. Returns dict(rc, out, generated, distinct, ok)."""
    d = stage_specs(ctx, sub)
    cfg = os.path.join(d, module + ".cfg")
    write_cfg(cfg, **cfg_kwargs)
    e = dict(os.environ)
    jto = []
    if deque:
        jto.append("-Dtlc2.tool.queue.IStateQueue=StateDeque")
    if heap:
        jto.append("-Xmx%s" % heap)
    jto.append("-Xss512m")
    # TLC creates an (empty) tlc-<n> directory under java.io.tmpdir per run: keep it inside the scratch directory
    os.makedirs(os.path.join(d, "jtmp"), exist_ok=True)
    jto.append("-Djava.io.tmpdir=" + os.path.join(d, "jtmp"))
    e["JAVA_TOOL_OPTIONS"] = " ".join(jto)
    if env:
        e.update({k: str(v) for k, v in env.items()})
    cmd = ["timeout", str(timeout), "tlc", "-workers", str(workers), "-metadir", os.path.join(d, "md"),
           "-config", module + ".cfg", module + ".tla"]
    t = time.time()
    p = subprocess.run(cmd, cwd=d, env=e, stdout=subprocess.PIPE, stderr=subprocess.STDOUT, text=True)
    out = p.stdout
    m = None
    for m in _STATS.finditer(out):
        pass
    res = dict(rc=p.returncode, out=out, generated=int(m.group(1)) if m else 0, distinct=int(m.group(2)) if m else 0,
               wall=time.time() - t, dir=d)
    res["ok"] = p.returncode == 0 and "No error has been found" in out
    shutil.rmtree(os.path.join(d, "md"), ignore_errors=True)
    shutil.rmtree(os.path.join(d, "jtmp"), ignore_errors=True)
    if not quiet:
        log("[tlc] %s/%s: rc=%d generated=%d distinct=%d %.1fs" % (sub, module, p.returncode, res["generated"],
                                                                    res["distinct"], res["wall"]))
    return res


def tlc_error_excerpt(out, n=25):
    lines = [l for l in out.splitlines() if not l.startswith("Linting") and not l.startswith("Semantic processing")
             and not l.startswith("Parsing file") and not l.startswith('<<"CASE"')]
    for i, l in enumerate(lines):
        if l.startswith("Error:") or "xception" in l:
            return "\n".join(lines[i:i + n])[:3000]
    return "\n".join(lines[-n:])[:3000]


def model_check(ctx, name, module, consts, invariants=(), properties=(), init="Init", next_="Next", view=None,
                constraint=None, cases_file=None, env=None, workers=16, timeout=3600, spec=None):
    """Step 1. A violated invariant here is a spec/design error or a counterexample to replay; it is
    reported as a machinery failure unless the caller handles it (verdicts come from real code only)."""
    e = dict(env or {})
    kw = dict(consts=consts, invariants=invariants, properties=properties, view=view, constraint=constraint)
    if spec:
        kw["spec"] = spec
    else:
        kw["init"] = init
        kw["next_"] = next_
    r = tlc(ctx, "mc-" + name, module, kw, env=e, workers=workers, timeout=timeout, heap="16g")
    if not r["ok"]:
        raise MachineryError("step 1 (TLC on %s) did not complete cleanly:\n%s" % (module, tlc_error_excerpt(r["out"])))
    if cases_file:
        # cases are printed by the model's Start action as <<"CASE", "<json>">> (a TLA+ string literal is a JSON string)
        seen = set()
        with open(cases_file, "w") as f:
            for line in r["out"].splitlines():
                if line.startswith('<<"CASE", "') and line.endswith('">>'):
                    js = json.loads(line[len('<<"CASE", '):-2])
                    if js not in seen:
                        seen.add(js)
                        f.write(js + "\n")
        r["ncases"] = len(seen)
        log("[tlc] %s exported %d distinct cases" % (module, len(seen)))
    ctx.states += r["distinct"]
    ctx.transitions += r["generated"]
    ctx.mc_runs.append(dict(name=name, module=module, consts={k: _cfg_value(v) for k, v in consts.items()},
                            distinct=r["distinct"], generated=r["generated"], wall_s=round(r["wall"], 1)))
    return r


# ---------------------------------------------------------------------------------------------
# traces


def read_ndjson(path):
    out = []
    with open(path) as f:
        for line in f:
            line = line.strip()
            if line:
                out.append(json.loads(line))
    return out


def split_scenarios(trace_path):
    """Returns list of (scn_id, [raw lines]) in file order. Every scenario starts with ev=Scenario."""
    scns = []
    cur = None
    with open(trace_path) as f:
        for line in f:
            if not line.strip():
                continue
            # cheap peek without a full parse
            if '"ev":"Scenario"' in line[:200]:
                obj = json.loads(line)
                cur = (obj["scn"], [line])
                scns.append(cur)
            else:
                if cur is None:
                    raise MachineryError("trace does not start with a Scenario event")
                cur[1].append(line)
    return scns


_ENVBAD = re.compile(r'<<\s*"ENVBAD",\s*\{(.*?)\}\s*>>', re.S)
_RESULT = re.compile(r'<<\s*"RESULT",\s*(\d+),\s*(\d+),\s*\{(.*?)\}\s*>>', re.S)


def _validate_chunk(args):
    ctx, idx, module, lines, nscn, dev, consts, timeout = args
    sub = "tv-%s-%d" % (module, idx)
    d = ctx.path(sub)
    os.makedirs(d, exist_ok=True)
    tf = os.path.join(d, "trace.ndjson")
    with open(tf, "w") as f:
        f.writelines(lines)
    c = dict(consts or {})
    c["Dev"] = set(tla_str(x) for x in dev)
    r = tlc(ctx, sub, module, dict(spec="TraceSpec", consts=c), env={"TRACE_FILE": tf}, workers=1, timeout=timeout,
            quiet=True, heap="4g")
    m = _RESULT.search(r["out"])
    if not r["ok"] or not m:
        raise MachineryError("trace validation run failed (%s chunk %d):\n%s" % (module, idx, tlc_error_excerpt(r["out"])))
    nev, nscn_seen = int(m.group(1)), int(m.group(2))
    if nev != len(lines) or nscn_seen != nscn:
        raise MachineryError("trace validation consumed %d/%d events, %d/%d scenarios" % (nev, len(lines), nscn_seen, nscn))
    bad = [int(x) for x in re.sub(r"\s+", "", m.group(3)).split(",") if x]
    me = _ENVBAD.search(r["out"])
    if me and re.sub(r"\s+", "", me.group(1)):
        raise MachineryError("%s: %s scenario(s) are outside the family's assumptions (harness/generator error, not a verdict): %s"
                             % (module, len(me.group(1).split(",")), re.sub(r"\s+", "", me.group(1))[:200]))
    shutil.rmtree(d, ignore_errors=True)
    return bad, r["distinct"]


def validate_trace(ctx, module, trace_path, dev=(), consts=None, chunk_events=4000, procs=12, timeout=1800):
    """Step 3. Returns (bad scenario ids, number of scenarios, number of events)."""
    scns = split_scenarios(trace_path)
    total = sum(len(l) for _, l in scns)
    # JVM start-up (~1.5 s) dominates small chunks: aim at two chunks per process, within [chunk_events, 10x]
    chunk_events = max(chunk_events, min(10 * chunk_events, total // (2 * procs) + 1))
    chunks = []
    cur, cur_n = [], 0
    for sid, lines in scns:
        cur.append((sid, lines))
        cur_n += len(lines)
        if cur_n >= chunk_events:
            chunks.append(cur)
            cur, cur_n = [], 0
    if cur:
        chunks.append(cur)
    jobs = []
    for i, ch in enumerate(chunks):
        lines = [l for _, ls in ch for l in ls]
        jobs.append((ctx, i, module, lines, len(ch), tuple(dev), consts, timeout))
    t = time.time()
    bad = []
    tstates = 0
    with cf.ThreadPoolExecutor(max_workers=procs) as ex:
        for b, st in ex.map(_validate_chunk, jobs):
            bad.extend(b)
            tstates += st
    nev = sum(len(l) for _, l in scns)
    log("[tv] %s: %d scenarios / %d events in %d chunks validated in %.1fs, rejected=%d%s" % (
        module, len(scns), nev, len(chunks), time.time() - t, len(bad), (" dev=%s" % sorted(dev)) if dev else ""))
    return bad, scns, nev


# ---------------------------------------------------------------------------------------------
# known findings, verdicts, evidence


def load_known(pid):
    p = os.path.join(VERIF, "known_findings.json")
    if not os.path.exists(p):
        return []
    with open(p) as f:
        k = json.load(f)
    return [x for x in k.get("findings", []) if x["property"] == pid]


def save_replay(pid, scn_lines):
    d = os.path.join(VERIF, "replays", pid)
    os.makedirs(d, exist_ok=True)
    first = json.loads(scn_lines[0])
    case = {k: v for k, v in first.items() if k not in ("ev",)}
    blob = json.dumps(case, sort_keys=True)
    h = hashlib.sha1(blob.encode()).hexdigest()[:12]
    path = os.path.join(d, h + ".json")
    with open(path, "w") as f:
        f.write(blob + "\n")
    with open(os.path.join(d, h + ".trace.ndjson"), "w") as f:
        f.writelines(scn_lines)
    return path


class Verdict:
    def __init__(self):
        self.violations = []  # (replay path, summary)
        self.known = {}  # finding id -> count
        self.unreproduced = 0
        self.total_violating = 0


def classify_rejections(ctx, pid, module, harness_bin, harness_cmd, bad, scns, consts=None, max_examine=200000,
                        extra_args=(), reexec=None, max_report=25):
    """Step 4: re-run the rejected scenarios on the real code (one batch), keep those rejected again, then
    re-validate them with each known deviation switched on."""
    v = Verdict()
    if not bad:
        return v
    known = load_known(pid)
    by_id = {sid: lines for sid, lines in scns}
    todo = bad[:max_examine]
    if len(bad) > len(todo):
        ctx.notes.append("%d further rejected scenarios not examined individually" % (len(bad) - len(todo)))
    cf_ = ctx.path("replay-cases.ndjson")
    with open(cf_, "w") as f:
        for sid in todo:
            case = json.loads(by_id[sid][0])
            case.pop("ev", None)
            f.write(json.dumps(case) + "\n")
    tf = ctx.path("replay-trace.ndjson")
    if reexec:
        reexec(cf_, tf)
    else:
        run_harness(ctx, harness_bin, [harness_cmd, "-cases", cf_, "-out", tf, "-rand", 0] + list(extra_args))
    b2, scn2, _ = validate_trace(ctx, module, tf, consts=consts)
    v.unreproduced = len(todo) - len(b2)
    remaining = set(b2)
    by_id2 = {sid: lines for sid, lines in scn2}
    hist_replays = {}
    if v.unreproduced:
        # Some rejections vanish when the scenario runs on its own: the behaviour may depend on what the process did BEFORE
        # (state kept between evaluations). Re-run the whole sequence of cases in its original order; what is rejected
        # again is reproducible - with its history - and is reported with a replay file that holds that history.
        gone = [sid for sid in todo if sid not in remaining]
        log("[classify] %d rejections did not reproduce in isolation; re-running the whole sequence" % len(gone))
        order = [sid for sid, _ in scns]
        cf_all = ctx.path("replay-all-cases.ndjson")
        with open(cf_all, "w") as f:
            for sid, lines in scns:
                case = json.loads(lines[0])
                case.pop("ev", None)
                f.write(json.dumps(case) + "\n")
        tf_all = ctx.path("replay-all-trace.ndjson")
        if reexec:
            reexec(cf_all, tf_all)
        else:
            run_harness(ctx, harness_bin, [harness_cmd, "-cases", cf_all, "-out", tf_all, "-rand", 0] + list(extra_args))
        b_all, scn_all, _ = validate_trace(ctx, module, tf_all, consts=consts)
        again = [sid for sid in gone if sid in set(b_all)]
        v.unreproduced = len(gone) - len(again)
        if again:
            by_all = {sid: lines for sid, lines in scn_all}
            first = min(order.index(sid) for sid in again)
            # the shortest history that is certainly sufficient: every case up to the first scenario rejected again
            d = os.path.join(VERIF, "replays", pid)
            os.makedirs(d, exist_ok=True)
            blob = "".join(open(cf_all).readlines()[:first + 1])
            hpath = os.path.join(d, "history-" + hashlib.sha1(blob.encode()).hexdigest()[:12] + ".ndjson")
            with open(hpath, "w") as f:
                f.write(blob)
            for sid in again:
                by_id2[sid] = by_all[sid]
                remaining.add(sid)
                hist_replays[sid] = hpath
        if v.unreproduced:
            log("[classify] %d rejections did not reproduce on re-run (not a verdict)" % v.unreproduced)
    for kf in known:
        if not remaining:
            break
        sub = ctx.path("replay-kf.ndjson")
        with open(sub, "w") as f:
            for sid in sorted(remaining):
                f.writelines(by_id2[sid])
        dev = kf["dev"] if isinstance(kf["dev"], list) else [kf["dev"]]
        b3, _, _ = validate_trace(ctx, module, sub, dev=dev, consts=consts)
        explained = remaining - set(b3)
        if explained:
            v.known[kf["id"]] = len(explained)
            remaining -= explained
    for sid in sorted(remaining)[:max_report]:
        if sid in hist_replays:
            v.violations.append((hist_replays[sid], "(depends on the evaluations before it: the replay file holds the whole sequence; last case is scenario %s)" % sid))
            continue
        path = save_replay(pid, by_id2[sid])
        v.violations.append((path, json.loads(by_id2[sid][0]).get("txt", "")))
    v.total_violating = len(remaining)
    return v


def finish(ctx, pid, verdict, coverage, assumptions, level="model_checking"):
    known = load_known(pid)
    for kf in known:
        if verdict.known.get(kf["id"]):
            log("KNOWN-FINDING: property=%s %s (%d scenarios; %s)" % (pid, kf["what"], verdict.known[kf["id"]], kf["id"]))
    for path, txt in verdict.violations:
        log("VIOLATION property=%s replay=%s %s" % (pid, path, txt))
    if verdict.total_violating > len(verdict.violations):
        log("[verdict] %d scenarios violate in total; first %d reported" % (verdict.total_violating, len(verdict.violations)))
    cov = dict(coverage)
    cov.setdefault("states", ctx.states)
    cov.setdefault("transitions", ctx.transitions)
    cov["model_checking_runs"] = ctx.mc_runs
    cov["known_findings_seen"] = verdict.known
    cov["rejections_not_reproduced"] = verdict.unreproduced
    if ctx.notes:
        cov["notes"] = ctx.notes
    ev = dict(property_id=pid, tier=ctx.tier, seed=ctx.seed, level=level, coverage=cov, assumptions=assumptions,
              wall_s=round(time.time() - ctx.t0, 1), violations=max(len(verdict.violations), verdict.total_violating))
    # evidence describes runs against /repo only: a run against a scratch worktree (VERIF_REPO, used to try seeded
    # changes) leaves its record in the scratch directory
    evdir = os.path.join(VERIF, "evidence") if not os.environ.get("VERIF_REPO") else ctx.path("evidence")
    os.makedirs(evdir, exist_ok=True)
    with open(os.path.join(evdir, pid + ".json"), "w") as f:
        json.dump(ev, f, indent=1, sort_keys=True)
        f.write("\n")
    if verdict.unreproduced and not verdict.violations:
        log("[warn] %d rejections did not reproduce" % verdict.unreproduced)
    return 1 if verdict.violations else 0


def sample_scenarios(scns, k=3):
    out = []
    if not scns:
        return out
    idxs = sorted(set([0, len(scns) // 2, len(scns) - 1]))[:k]
    for i in idxs:
        sid, lines = scns[i]
        evs = [json.loads(l) for l in lines[:6]]
        out.append(evs)
    return out
