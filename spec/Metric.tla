------------------------------- MODULE Metric -------------------------------
(* Declarative meaning of LogQL metric queries (C09 - C13).
   Anchors: internal/logql/logqlengine/{sampler,aggregated_labels}.go, logqlmetric/*.go.
   Time: record timestamps and evaluation times are <<s, ns>>; ranges and offsets are whole seconds.
   Numbers: [k |-> "rat", n, d] exact rationals, [k |-> "irat", n, d] rationals the implementation's binary floating
   point holds only up to rounding (their value is compared with a tolerance, and whatever is discontinuous at them -
   an equality, an ordering of equal values, a modulus whose quotient is whole - is left open), or the tags "nan",
   "pinf", "ninf", "open".
   A vector is a set of [L |-> label set, v |-> number] with distinct L.
   Expressions:
     [t |-> "range", op, sel, stages, range, offset, unwrap |-> [on, label, conv], param |-> <<n, d>>, grp]
     [t |-> "vecagg", op, k, grp, e]        [t |-> "binop", op, bool, a, b]
     [t |-> "lit", v |-> <<n, d>>]          [t |-> "vector", v |-> <<n, d>>]
     grp = [mode |-> "none" | "by" | "without", labels |-> <<names>>] *)
EXTENDS Pipeline

\* a rational is held exactly by a binary float iff its denominator is a power of two (magnitudes are small here)
Dyadic(d) == d \in {1, 2, 4, 8, 16, 32, 64, 128, 256, 512, 1024, 2048, 4096, 8192, 16384}
FromR(r) == [k |-> IF Dyadic(r.d) THEN "rat" ELSE "irat", n |-> r.n, d |-> r.d]
RatV(n, d) == FromR(Norm(n, d))
NaNV == [k |-> "nan", n |-> 0, d |-> 1]
IsRat(x) == x.k \in {"rat", "irat"}
Inexact(x) == x.k = "irat"
Approx(v) == IF v.k = "rat" THEN [v EXCEPT !.k = "irat"] ELSE v
MarkIf(c, v) == IF c THEN Approx(v) ELSE v
R(x) == [n |-> x.n, d |-> x.d]
Zero == RatV(0, 1)
One == RatV(1, 1)

\* ---- arithmetic on numbers (NaN propagates; x / 0 and x % 0 are NaN)
RSub(a, b) == LET g == Gcd(a.d, b.d) IN Norm(a.n * (b.d \div g) - b.n * (a.d \div g), (a.d \div g) * b.d)
RMul(a, b) == LET g1 == Gcd(Abs(a.n), b.d) g2 == Gcd(Abs(b.n), a.d)
                  h1 == IF g1 = 0 THEN 1 ELSE g1  h2 == IF g2 = 0 THEN 1 ELSE g2
              IN Norm((a.n \div h1) * (b.n \div h2), (a.d \div h2) * (b.d \div h1))
RDiv(a, b) == IF b.n > 0 THEN Norm(a.n * b.d, a.d * b.n) ELSE Norm(0 - a.n * b.d, a.d * (0 - b.n))
\* truncation toward zero of a rational
Trunc(a) == IF a.n >= 0 THEN a.n \div a.d ELSE 0 - ((0 - a.n) \div a.d)
\* math.Mod: result has the sign of the dividend
RMod(a, b) == RSub(a, RMulInt(b, Trunc(RDiv(a, b))))
\* arithmetic stays exact only while numerators and denominators are small: beyond that the value is "open"
SmallR(a) == Abs(a.n) <= 30000 /\ a.d <= 30000
RECURSIVE RPowSafe(_, _)
RPowSafe(a, e) == IF e = 0 THEN [ok |-> TRUE, r |-> [n |-> 1, d |-> 1]]
                  ELSE IF e > 31 THEN [ok |-> FALSE, r |-> [n |-> 1, d |-> 1]]
                  ELSE LET p == RPowSafe(a, e - 1) IN
                       IF ~p.ok \/ ~SmallR(p.r) \/ ~SmallR(a) THEN [ok |-> FALSE, r |-> [n |-> 1, d |-> 1]] ELSE [ok |-> TRUE, r |-> RMul(a, p.r)]

\* "open": a value outside the modelled arithmetic (fractional exponent, magnitude beyond exact range): any observed value is accepted for it
OpenV == [k |-> "open", n |-> 0, d |-> 1]
Infinite(x) == x.k \in {"pinf", "ninf"}
Arith(op, x, y) ==
  IF x.k = "open" \/ y.k = "open" THEN OpenV
  \* math.Pow(x, 0) = 1 and math.Pow(1, y) = 1 for EVERY other operand, NaN and the infinities included
  ELSE IF op = "pow" /\ IsRat(y) /\ y.n = 0 /\ ~IsRat(x) THEN (IF Inexact(y) THEN OpenV ELSE One)
  ELSE IF op = "pow" /\ IsRat(x) /\ x.n = 1 /\ x.d = 1 /\ ~IsRat(y) THEN (IF Inexact(x) THEN OpenV ELSE One)
  \* arithmetic on an infinity is outside the modelled domain (the result may be an infinity or NaN)
  ELSE IF Infinite(x) \/ Infinite(y) THEN OpenV
  ELSE IF ~IsRat(x) \/ ~IsRat(y) THEN NaNV
  ELSE LET a == R(x) b == R(y) IN
       IF ~SmallR(a) \/ ~SmallR(b) THEN OpenV ELSE
       LET inx == Inexact(x) \/ Inexact(y) IN          \* an operation on rounded operands is rounded; so is one whose result is not dyadic (FromR)
       CASE op = "add" -> MarkIf(inx, FromR(RAdd(a, b)))
         [] op = "sub" -> MarkIf(inx, FromR(RSub(a, b)))
         [] op = "mul" -> MarkIf(inx, FromR(RMul(a, b)))
         [] op = "div" -> IF b.n = 0 THEN NaNV ELSE MarkIf(inx, FromR(RDiv(a, b)))
         \* math.Mod jumps where the quotient is whole: on rounded operands the result is then anything in [0, |b|)
         [] op = "mod" -> IF b.n = 0 THEN NaNV
                          ELSE IF inx /\ (LET q == RDiv(a, b) IN q.d = 1 \/ Abs(Trunc(q)) > 1000) THEN OpenV
                          ELSE MarkIf(inx, FromR(RMod(a, b)))
         [] op = "pow" -> IF b.d # 1 THEN OpenV                                   \* fractional exponents are outside the modelled domain
                          ELSE IF b.n >= 0 THEN (LET p == RPowSafe(a, b.n) IN IF p.ok THEN MarkIf(inx, FromR(p.r)) ELSE OpenV)
                          ELSE IF a.n = 0 THEN [k |-> "pinf", n |-> 0, d |-> 1]   \* 0 ^ negative
                          ELSE (LET p == RPowSafe(a, 0 - b.n) IN IF p.ok THEN MarkIf(inx, FromR(RDiv([n |-> 1, d |-> 1], p.r))) ELSE OpenV)
CmpOps == {"eq", "neq", "gt", "gte", "lt", "lte"}
Holds(op, x, y) == IF ~IsRat(x) \/ ~IsRat(y) THEN op = "neq" ELSE RCmp(op, R(x), R(y))
\* a comparison of equal values of which one is only known up to rounding can go either way
\* (so can one with an operand outside the modelled arithmetic: an infinity, an open value)
Undet(x, y) == \/ x.k \in {"open", "pinf", "ninf"} \/ y.k \in {"open", "pinf", "ninf"}
               \/ (IsRat(x) /\ IsRat(y) /\ (Inexact(x) \/ Inexact(y)) /\ R(x) = R(y))
IsOpen(x) == x.k = "open"
NumLt(x, y) == IsRat(x) /\ IsRat(y) /\ RLt(R(x), R(y))

\* ---- batch aggregators over a non-empty sequence of rationals in time order
RECURSIVE SumSeq(_)
SumSeq(s) == IF s = <<>> THEN [n |-> 0, d |-> 1] ELSE RAdd(Head(s), SumSeq(Tail(s)))
AvgSeq(s) == RDiv(SumSeq(s), [n |-> Len(s), d |-> 1])
MinSeq(s) == CHOOSE x \in {s[i] : i \in DOMAIN s} : \A i \in DOMAIN s : RLe(x, s[i])
MaxSeq(s) == CHOOSE x \in {s[i] : i \in DOMAIN s} : \A i \in DOMAIN s : RLe(s[i], x)
VarSeq(s) == LET m == AvgSeq(s) IN RDiv(SumSeq([i \in DOMAIN s |-> RMul(RSub(s[i], m), RSub(s[i], m))]), [n |-> Len(s), d |-> 1])
RECURSIVE SortRats(_)
SortRats(s) == IF s = <<>> THEN <<>>
              ELSE LET i == CHOOSE i \in DOMAIN s : \A j \in DOMAIN s : RLe(s[i], s[j])
                   IN <<s[i]>> \o SortRats([j \in 1..(Len(s) - 1) |-> IF j < i THEN s[j] ELSE s[j + 1]])
\* Prometheus' quantile: linear interpolation between the two closest ranks, q in [0, 1]
Quantile(q, s) == LET srt == SortRats(s)
                      n == Len(s)
                      rank == RMulInt(q, n - 1)
                      lo == Trunc(rank)
                      hi == IF lo + 1 > n - 1 THEN n - 1 ELSE lo + 1
                      w == RSub(rank, [n |-> lo, d |-> 1])
                  IN RAdd(RMul(srt[lo + 1], RSub([n |-> 1, d |-> 1], w)), RMul(srt[hi + 1], w))

\* value of a range function on the window's values; "sq" marks values that are compared through their square
RangeValue(e, vals) ==
  LET r == [n |-> e.range, d |-> 1]
      inx == \E i \in DOMAIN vals : ~Dyadic(vals[i].d)       \* some sample was rounded when its text was parsed
      Ex(x) == MarkIf(inx, FromR(x))                          \* one correctly rounded operation on the samples
      Ap(x) == Approx(FromR(x))                               \* computed incrementally (running mean, Welford, interpolation): rounded
  IN
  CASE e.op = "count_over_time" -> [v |-> FromR([n |-> Len(vals), d |-> 1]), sq |-> FALSE]
    [] e.op = "rate" -> [v |-> Ex(RDiv(IF e.unwrap.on THEN SumSeq(vals) ELSE [n |-> Len(vals), d |-> 1], r)), sq |-> FALSE]
    [] e.op \in {"bytes_over_time", "sum_over_time"} -> [v |-> Ex(SumSeq(vals)), sq |-> FALSE]
    [] e.op = "bytes_rate" -> [v |-> Ex(RDiv(SumSeq(vals), r)), sq |-> FALSE]
    [] e.op = "avg_over_time" -> [v |-> Ap(AvgSeq(vals)), sq |-> FALSE]
    [] e.op = "min_over_time" -> [v |-> FromR(MinSeq(vals)), sq |-> FALSE]
    [] e.op = "max_over_time" -> [v |-> FromR(MaxSeq(vals)), sq |-> FALSE]
    [] e.op = "stdvar_over_time" -> [v |-> Ap(VarSeq(vals)), sq |-> FALSE]
    [] e.op = "stddev_over_time" -> [v |-> Ap(VarSeq(vals)), sq |-> TRUE]
    [] e.op = "quantile_over_time" -> [v |-> Ap(Quantile([n |-> e.param[1], d |-> e.param[2]], vals)), sq |-> FALSE]
    [] e.op = "first_over_time" -> [v |-> FromR(vals[1]), sq |-> FALSE]
    [] e.op = "last_over_time" -> [v |-> FromR(vals[Len(vals)]), sq |-> FALSE]

\* ---- what one log line contributes
Conv(conv, s) == CASE conv = "" -> ParseNum(s) [] conv = "bytes" -> ParseBytes(s) [] conv \in {"duration", "duration_seconds"} -> ParseDur(s)
\* [ok: contributes, open: outside the modelled grammar, val]
\* label matchers written behind the unwrap expression: the sample counts only if all of them hold on the entry's labels
UnwrapFilters(e) == IF "filters" \in DOMAIN e.unwrap THEN e.unwrap.filters ELSE <<>>
PostOk(e, ent) == \A k \in DOMAIN UnwrapFilters(e) :
                    LET m == UnwrapFilters(e)[k] IN ValueMatch(m.op, m.val, m.re, Get(ent.L, m.label))
SampleOf(e, ent) ==
  IF e.unwrap.on
    THEN IF ~Has(ent.L, e.unwrap.label) \/ ~PostOk(e, ent) THEN [ok |-> FALSE, open |-> FALSE, val |-> [n |-> 0, d |-> 1]]
         ELSE LET p == Conv(e.unwrap.conv, Get(ent.L, e.unwrap.label)) IN
              [ok |-> TRUE, open |-> p.k # "val", val |-> [n |-> p.n, d |-> p.d]]
  ELSE IF e.op \in {"bytes_over_time", "bytes_rate"} THEN [ok |-> TRUE, open |-> FALSE, val |-> [n |-> Len(ent.line), d |-> 1]]
  ELSE [ok |-> TRUE, open |-> FALSE, val |-> [n |-> 1, d |-> 1]]

\* ---- grouping
Retained(grp, L) == CASE grp.mode = "none" -> L
                      [] grp.mode = "by" -> {p \in L : p[1] \in PairsOf(grp.labels)}
                      [] grp.mode = "without" -> {p \in L : p[1] \notin PairsOf(grp.labels)}
\* a vector aggregation without clause puts every series into one group with no labels
RetainedVec(grp, L) == IF grp.mode = "none" THEN {} ELSE Retained(grp, L)

TsLeq(a, b) == a[1] < b[1] \/ (a[1] = b[1] /\ a[2] <= b[2])

\* entries (time order) of the range expression's log query; computed once per scenario by the trace specification
EntriesOf(e, recs) == LogResult(e.sel, e.stages, recs)

\* the range vector at evaluation time T = <<s, ns>>: samples with T - o - r <= ts <= T - o, grouped by retained labels
\* (ranges and offsets are whole seconds; evaluation times need not be)
RangeAt(e, ents, T) ==
  LET lo == <<T[1] - e.offset - e.range, T[2]>>
      hi == <<T[1] - e.offset, T[2]>>
      inWin == SelectSeq(ents, LAMBDA x : TsLeq(lo, x.ts) /\ TsLeq(x.ts, hi) /\ SampleOf(e, x).ok)
      keys == {Retained(e.grp, inWin[i].L) : i \in DOMAIN inWin}
  IN {[L |-> key,
       v |-> RangeValue(e, LET g == SelectSeq(inWin, LAMBDA x : Retained(e.grp, x.L) = key) IN [i \in DOMAIN g |-> SampleOf(e, g[i]).val]).v,
       sq |-> RangeValue(e, <<[n |-> 0, d |-> 1]>>).sq] : key \in keys}

\* ---- vector aggregations (sum avg min max count stddev stdvar); topk / bottomk / sort are handled at top level
RECURSIVE SetToSeqV(_)
SetToSeqV(S) == IF S = {} THEN <<>> ELSE LET x == CHOOSE x \in S : TRUE IN <<x>> \o SetToSeqV(S \ {x})
AggValue(op, members) ==
  LET vals == [i \in DOMAIN members |-> R(members[i].v)]
      inx == \E i \in DOMAIN members : Inexact(members[i].v)
      Ex(x) == MarkIf(inx, FromR(x))
      Ap(x) == Approx(FromR(x))
  IN
  CASE op = "sum" -> [v |-> Ex(SumSeq(vals)), sq |-> FALSE]
    [] op = "avg" -> [v |-> Ap(AvgSeq(vals)), sq |-> FALSE]
    [] op = "min" -> [v |-> Ex(MinSeq(vals)), sq |-> FALSE]
    [] op = "max" -> [v |-> Ex(MaxSeq(vals)), sq |-> FALSE]
    [] op = "count" -> [v |-> FromR([n |-> Len(vals), d |-> 1]), sq |-> FALSE]
    [] op = "stdvar" -> [v |-> Ap(VarSeq(vals)), sq |-> FALSE]
    [] op = "stddev" -> [v |-> Ap(VarSeq(vals)), sq |-> TRUE]
VecAgg(op, grp, V) ==
  LET keys == {RetainedVec(grp, s.L) : s \in V} IN
  {LET a == AggValue(op, SetToSeqV({s \in V : RetainedVec(grp, s.L) = key})) IN [L |-> key, v |-> a.v, sq |-> a.sq] : key \in keys}

\* ---- binary operations
LitV(p) == RatV(p[1], p[2])
BinVec(op, A, B) ==
  CASE op = "and" -> {a \in A : \E b \in B : b.L = a.L}
    [] op = "or" -> A \cup {b \in B : ~\E a \in A : a.L = b.L}
    [] op = "unless" -> {a \in A : ~\E b \in B : b.L = a.L}
    [] OTHER -> {[L |-> a.L, v |-> Arith(op, a.v, (CHOOSE b \in B : b.L = a.L).v), sq |-> FALSE] : a \in {a \in A : \E b \in B : b.L = a.L}}

\* Eval(e, T): the instant vector of a non-choice expression at time T (comparisons, topk, sort only at top level)
RECURSIVE Eval(_, _, _)
Eval(e, ents, T) ==
  CASE e.t = "range" -> RangeAt(e, ents[e.id], T)
    [] e.t = "vector" -> {[L |-> {}, v |-> LitV(e.v), sq |-> FALSE]}
    [] e.t = "vecagg" -> VecAgg(e.op, e.grp, Eval(e.e, ents, T))
    [] e.t = "binop" ->
         IF e.a.t = "lit" THEN {[L |-> s.L, v |-> Arith(e.op, LitV(e.a.v), s.v), sq |-> FALSE] : s \in Eval(e.b, ents, T)}
         ELSE IF e.b.t = "lit" THEN {[L |-> s.L, v |-> Arith(e.op, s.v, LitV(e.b.v)), sq |-> FALSE] : s \in Eval(e.a, ents, T)}
         ELSE BinVec(e.op, Eval(e.a, ents, T), Eval(e.b, ents, T))

(* Top level: [must, may, count] - samples that must be present, samples that may be present, and how many
   samples there are in total (-1: exactly `must`).  Choices arise from topk/bottomk ties and from comparisons
   that do not hold (absent or 0). *)
Exact(V) == [must |-> V, may |-> {}, count |-> 0 - 1]
EvalTop(e, ents, T) ==
  IF e.t = "binop" /\ e.op \in CmpOps
    THEN LET pairs == IF e.a.t = "lit" THEN {[L |-> s.L, x |-> LitV(e.a.v), y |-> s.v] : s \in Eval(e.b, ents, T)}
                      ELSE IF e.b.t = "lit" THEN {[L |-> s.L, x |-> s.v, y |-> LitV(e.b.v)] : s \in Eval(e.a, ents, T)}
                      ELSE LET A == Eval(e.a, ents, T) B == Eval(e.b, ents, T) IN
                           {[L |-> a.L, x |-> a.v, y |-> (CHOOSE b \in B : b.L = a.L).v] : a \in {a \in A : \E b \in B : b.L = a.L}}
         IN [must |-> {[L |-> p.L, v |-> One, sq |-> FALSE] : p \in {p \in pairs : Holds(e.op, p.x, p.y) /\ ~Undet(p.x, p.y)}},
             may |-> {[L |-> p.L, v |-> Zero, sq |-> FALSE] : p \in {p \in pairs : ~Holds(e.op, p.x, p.y) \/ Undet(p.x, p.y)}}
                     \cup {[L |-> p.L, v |-> One, sq |-> FALSE] : p \in {p \in pairs : Undet(p.x, p.y)}}, count |-> 0 - 1]
  ELSE IF e.t = "vecagg" /\ e.op \in {"topk", "bottomk"}
    THEN LET V == Eval(e.e, ents, T)
             Better(a, b) == IF e.op = "topk" THEN NumLt(b.v, a.v) ELSE NumLt(a.v, b.v)
             groups == {RetainedVec(e.grp, s.L) : s \in V}
             G(key) == {s \in V : RetainedVec(e.grp, s.L) = key}
             \* s must be present if fewer than k members of its group are at least as good
             MustIn(key) == {s \in G(key) : Cardinality({u \in G(key) : u # s /\ ~Better(s, u)}) < e.k}
             MayIn(key) == {s \in G(key) : Cardinality({u \in G(key) : Better(u, s)}) < e.k}
             Cnt(key) == IF Cardinality(G(key)) < e.k THEN Cardinality(G(key)) ELSE e.k
             RECURSIVE SumCnt(_)
             SumCnt(S) == IF S = {} THEN 0 ELSE LET x == CHOOSE x \in S : TRUE IN Cnt(x) + SumCnt(S \ {x})
         IN [must |-> UNION {MustIn(key) : key \in groups}, may |-> UNION {MayIn(key) : key \in groups}, count |-> SumCnt(groups)]
  ELSE IF e.t = "vecagg" /\ e.op \in {"sort", "sort_desc"} THEN Exact(Eval(e.e, ents, T))
  ELSE Exact(Eval(e, ents, T))

\* the range sub-expressions of an expression, as a function id -> expression
RECURSIVE Ranges(_)
Ranges(e) == CASE e.t = "range" -> {e}
               [] e.t = "vecagg" -> Ranges(e.e)
               [] e.t = "binop" -> Ranges(e.a) \cup Ranges(e.b)
               [] OTHER -> {}
\* any sample outside the modelled grammars? then values are not compared
\* rate over an unwrapped label is not among the functions the property lists (the code counts lines there): left open
OpenExpr(e, ents) == \E r \in Ranges(e) : \/ (r.op = "rate" /\ r.unwrap.on)
                                           \/ \E i \in DOMAIN ents[r.id] : SampleOf(r, ents[r.id][i]).ok /\ SampleOf(r, ents[r.id][i]).open
=============================================================================
