----------------------------- MODULE MC_VecAgg -----------------------------
(* C11, step 1.  Vector aggregations over an input vector produced by a range aggregation.
   Implementation-shaped: each sample carries ONE list of label pairs plus a `by` filter (absent or a set) and a
   `without` set that nested aggregations refine (aggregatedLabels.By / Without); groups are formed by the key
   of the visible labels; sum/avg/min/max/count/stddev/stdvar stream over the group, topk/bottomk keep a bounded
   heap per group.  Declarative: Metric.VecAgg applied level by level to the inner level's OUTPUT labels.
   TLC compares the two for every input vector, operator, clause (incl. none, empty and non-existent labels)
   and nesting up to depth three (range aggregation + two vector aggregations). *)
EXTENDS Metric, Heap, TLC, Json

CONSTANTS MaxSeries, Depth, Pools, VecMode      \* VecMode: "pool" (fixed input vectors) | "free" (every vector up to MaxSeries)

Base == 1700000000
APP == <<97, 112, 112>>
ZONE == <<122, 111, 110, 101>>
NOPE == <<110, 111>>
AppVals == {<<97>>, <<98>>}
ZoneVals == {<<>>, <<120>>, <<121>>}          \* <<>>: the series has no zone label
Ops == IF Pools = "full" THEN {"sum", "avg", "min", "max", "count", "stdvar", "stddev"} ELSE {"sum", "min", "count"}
TopOps == {"topk", "bottomk"}
Clauses == { [mode |-> "none", labels |-> <<>>], [mode |-> "by", labels |-> <<>>], [mode |-> "by", labels |-> <<APP>>],
             [mode |-> "by", labels |-> <<ZONE>>], [mode |-> "by", labels |-> <<APP, ZONE>>], [mode |-> "by", labels |-> <<NOPE>>],
             [mode |-> "without", labels |-> <<>>], [mode |-> "without", labels |-> <<APP>>], [mode |-> "without", labels |-> <<ZONE, NOPE>>] }

VARIABLES V,          \* input: sequence of [app, zone, val]; one series per element, val = number of log lines
          levels,     \* outermost last: sequence of [op, k, grp]
          pc
vars == <<V, levels, pc>>

S(a, z, n) == [app |-> a, zone |-> z, val |-> n]
VPool == { << S(<<97>>, <<120>>, 1), S(<<97>>, <<121>>, 2), S(<<98>>, <<120>>, 2) >>,
           << S(<<97>>, <<>>, 1), S(<<98>>, <<120>>, 1) >>,
           << S(<<97>>, <<120>>, 3) >>,
           << S(<<97>>, <<120>>, 1), S(<<97>>, <<121>>, 1), S(<<98>>, <<120>>, 3), S(<<98>>, <<>>, 2) >> }
ClausesInner == { [mode |-> "none", labels |-> <<>>], [mode |-> "by", labels |-> <<APP>>], [mode |-> "without", labels |-> <<APP>>], [mode |-> "by", labels |-> <<ZONE>>] }
Init == (IF VecMode = "pool" THEN V \in VPool ELSE V = <<>>) /\ levels = <<>> /\ pc = "gen"
Distinct(a, z) == \A i \in DOMAIN V : ~(V[i].app = a /\ V[i].zone = z)
AddSeries == pc = "gen" /\ VecMode = "free" /\ levels = <<>> /\ Len(V) < MaxSeries /\ \E a \in AppVals, z \in ZoneVals, n \in 1..2 :
               Distinct(a, z) /\ V' = Append(V, [app |-> a, zone |-> z, val |-> n]) /\ UNCHANGED <<levels, pc>>
\* all clauses at the first level above the range aggregation, a reduced pool above it
\* (nothing is aggregated on top of a stddev: it is irrational and only compared, through its square, as an outermost value)
AddLevel == pc = "gen" /\ Len(V) >= 1 /\ Len(levels) < Depth - 1 /\ (levels # <<>> => levels[Len(levels)].op # "stddev") /\ \E o \in Ops, c \in (IF levels = <<>> THEN Clauses ELSE ClausesInner) :
               levels' = Append(levels, [op |-> o, k |-> 0, grp |-> c]) /\ UNCHANGED <<V, pc>>
\* topk / bottomk only as the outermost operation (their choice among ties is resolved at top level)
AddTop == pc = "gen" /\ Len(V) >= 1 /\ Len(levels) < Depth - 1 /\ \E o \in TopOps, c \in Clauses, k \in {1, 2} :
               levels' = Append(levels, [op |-> o, k |-> k, grp |-> c]) /\ pc' = "eval" /\ UNCHANGED V
Go == pc = "gen" /\ Len(levels) >= 1 /\ pc' = "eval" /\ UNCHANGED <<V, levels>>

\* ---- declarative: level by level on output labels
LabelsOf(s) == {<<APP, s.app>>} \cup (IF s.zone = <<>> THEN {} ELSE {<<ZONE, s.zone>>})
Input == {[L |-> LabelsOf(V[i]), v |-> RatV(V[i].val, 1), sq |-> FALSE] : i \in DOMAIN V}
RECURSIVE DeclUpTo(_)
DeclUpTo(n) == IF n = 0 THEN Input ELSE VecAgg(levels[n].op, levels[n].grp, DeclUpTo(n - 1))

\* ---- implementation-shaped: one list of pairs per original series, refined by/without filters, map by key
ImplState0 == [by |-> [on |-> FALSE, set |-> {}], without |-> {}]
Refine(st, grp) == CASE grp.mode = "none" -> [by |-> [on |-> TRUE, set |-> {}], without |-> st.without]     \* no clause: group everything, no labels
                     [] grp.mode = "by" -> [by |-> [on |-> TRUE, set |-> IF st.by.on THEN st.by.set \cap PairsOf(grp.labels) ELSE PairsOf(grp.labels)],
                                            without |-> st.without]
                     [] grp.mode = "without" -> [by |-> st.by, without |-> st.without \cup PairsOf(grp.labels)]
VisibleImpl(st, L) == {p \in L : p[1] \notin st.without /\ (~st.by.on \/ p[1] \in st.by.set)}
\* a sample in flight: original pairs + filter state + value
RECURSIVE ImplUpTo(_)
ImplUpTo(n) ==
  IF n = 0 THEN {[orig |-> LabelsOf(V[i]), st |-> ImplState0, v |-> RatV(V[i].val, 1)] : i \in DOMAIN V}
  ELSE LET inner == ImplUpTo(n - 1)
           refined == {[orig |-> s.orig, st |-> Refine(s.st, levels[n].grp), v |-> s.v] : s \in inner}
           keys == {VisibleImpl(s.st, s.orig) : s \in refined}
       IN {LET members == {s \in refined : VisibleImpl(s.st, s.orig) = key}
               rep == CHOOSE s \in members : TRUE
           IN [orig |-> rep.orig, st |-> rep.st, v |-> AggValue(levels[n].op, SetToSeqV({[L |-> s.orig, v |-> s.v] : s \in members})).v]
           : key \in keys}
ImplVector(n) == {[L |-> VisibleImpl(s.st, s.orig), v |-> s.v] : s \in ImplUpTo(n)}
DeclVector(n) == {[L |-> s.L, v |-> s.v] : s \in DeclUpTo(n)}

\* ---- bounded heap of topk / bottomk (vectorAggHeapIterator), on the values of one group
Greater(a, b) == RLt(b, a)
LessR(a, b) == RLt(a, b)
RECURSIVE HeapRun(_, _, _, _)
\* bottomk: max-heap (compare = greater) of the k smallest; a new value replaces the top when it is smaller than it
HeapRun(vals, i, h, top) ==
  IF i > Len(vals) THEN h
  ELSE LET x == vals[i] IN
       IF Len(h) < top.k THEN HeapRun(vals, i + 1, IF top.op = "bottomk" THEN HeapPush(Greater, h, x) ELSE HeapPush(LessR, h, x), top)
       ELSE IF (IF top.op = "bottomk" THEN RLt(x, h[1]) ELSE RLt(h[1], x))
              THEN HeapRun(vals, i + 1, IF top.op = "bottomk" THEN HeapPush(Greater, HeapPop(Greater, h), x) ELSE HeapPush(LessR, HeapPop(LessR, h), x), top)
       ELSE HeapRun(vals, i + 1, h, top)
BagOf(s) == [x \in {s[i] : i \in DOMAIN s} |-> Cardinality({i \in DOMAIN s : s[i] = x})]
KBest(vals, top) == LET srt == SortRats(vals) n == Len(vals) k == IF top.k < n THEN top.k ELSE n IN
                    IF top.op = "bottomk" THEN SubSeq(srt, 1, k) ELSE SubSeq(srt, n - k + 1, n)

IsTop == levels # <<>> /\ levels[Len(levels)].op \in TopOps
NAgg == IF IsTop THEN Len(levels) - 1 ELSE Len(levels)
\* nested by/without compose like set operations on the inner level's output labels, groups aggregate exactly their members
CompositionExact == pc = "eval" => ImplVector(NAgg) = DeclVector(NAgg)
\* labels removed by an inner aggregation cannot reappear
NoResurrection == pc = "eval" => \A n \in 1..NAgg : \A s \in ImplVector(n) : \A p \in s.L :
                                    \E u \in ImplVector(n - 1) : p \in u.L
\* the bounded heap keeps exactly the k extreme values of a group (as a multiset)
HeapKeepsKBest == pc = "eval" /\ IsTop =>
                    LET top == levels[Len(levels)]
                        inV == DeclVector(NAgg)
                        keys == {RetainedVec(top.grp, s.L) : s \in inV}
                    IN \A key \in keys :
                         LET vals == SetToSeqV({[L |-> s.L, x |-> R(s.v)] : s \in {s \in inV : RetainedVec(top.grp, s.L) = key}})
                             xs == [i \in DOMAIN vals |-> vals[i].x]
                         IN BagOf(HeapRun(xs, 1, <<>>, top)) = BagOf(KBest(xs, top))

\* ---- export
M == <<109>>
V1 == <<118>>
RECURSIVE RecsFrom(_, _, _)
RecsFrom(i, j, id) == IF i > Len(V) THEN <<>>
                      ELSE IF j > V[i].val THEN RecsFrom(i + 1, 1, id)
                      ELSE << [id |-> id, ts |-> <<Base + id, 0>>, line |-> M,
                               attrs |-> << <<APP, V[i].app>> >> \o (IF V[i].zone = <<>> THEN <<>> ELSE << <<ZONE, V[i].zone>> >>), doc |-> <<>>] >>
                           \o RecsFrom(i, j + 1, id + 1)
RangeE == [t |-> "range", id |-> 1, op |-> "count_over_time", sel |-> <<>>, stages |-> << [t |-> "drop", labels |-> << <<109, 115, 103>> >>] >>,
           range |-> 100, offset |-> 0, unwrap |-> [on |-> FALSE, label |-> <<>>, conv |-> ""], param |-> <<0, 1>>,
           grp |-> [mode |-> "none", labels |-> <<>>], k |-> 0, bool |-> FALSE, v |-> <<0, 1>>, paren |-> FALSE]
RECURSIVE ExprUpTo(_)
ExprUpTo(n) == IF n = 0 THEN RangeE
               ELSE [t |-> "vecagg", id |-> 0, op |-> levels[n].op, k |-> levels[n].k, grp |-> levels[n].grp, e |-> ExprUpTo(n - 1),
                     bool |-> FALSE, v |-> <<0, 1>>, paren |-> FALSE]
Case == [in |-> [recs |-> RecsFrom(1, 1, 1), expr |-> ExprUpTo(Len(levels)),
                 evals |-> << [start |-> Base + 50, end |-> Base + 50, step |-> 0], [start |-> Base + 40, end |-> Base + 60, step |-> 20] >>, reps |-> 1]]
Export == pc = "eval" /\ pc' = "done" /\ UNCHANGED <<V, levels>> /\ PrintT(<<"CASE", ToJson(Case)>>)
Next == AddSeries \/ AddLevel \/ AddTop \/ Go \/ Export
=============================================================================
