------------------------------- MODULE Render -------------------------------
(* What `docker logql query` prints for a log result (C15).  Anchor: cmd/docker-logql/query.go, color.go.
   One output line per entry, entries in timestamp order across all containers:
     [colour name reset SP]? [blue tsText reset SP]? TrimRight(msg, CR LF) LF
   colour sequences only with colour on; each container's name in one palette colour used consistently. *)
EXTENDS Integers, Sequences, FiniteSets, Bytes

ESC == 27
Reset == <<ESC, 91, 48, 109>>                 \* ESC [ 0 m
Blue == <<ESC, 91, 51, 52, 109>>              \* ESC [ 3 4 m
IsPaletteCode(c) == Len(c) = 5 /\ c[1] = ESC /\ c[2] = 91 /\ c[3] = 51 /\ c[4] \in 48..55 /\ c[5] = 109

RECURSIVE TrimRightCRLF(_)
TrimRightCRLF(m) == IF m # <<>> /\ m[Len(m)] \in {10, 13} THEN TrimRightCRLF(SubSeq(m, 1, Len(m) - 1)) ELSE m

\* e = [ts, msg, ctr]; opts = <<timestamp, container, color>>; col: the colour code used for e's container; tsText: RFC3339Nano text of e.ts
RenderEntry(e, opts, col, tsText) ==
  (IF opts[2] THEN (IF opts[3] THEN col ELSE <<>>) \o e.ctr \o (IF opts[3] THEN Reset ELSE <<>>) \o <<32>> ELSE <<>>)
  \o (IF opts[1] THEN (IF opts[3] THEN Blue ELSE <<>>) \o tsText \o (IF opts[3] THEN Reset ELSE <<>>) \o <<32>> ELSE <<>>)
  \o TrimRightCRLF(e.msg) \o <<10>>

TsLess(a, b) == a[1] < b[1] \/ (a[1] = b[1] /\ a[2] < b[2])
TextOf(texts, ts) == (CHOOSE k \in DOMAIN texts : texts[k].ts = ts) 

(* CanParse: the output from position pos on is the rendering of the remaining entries in some order that respects
   timestamps (equal timestamps in any order), with container colours read from the output, each a palette code and
   the same for every line of one container. *)
RECURSIVE CanParse(_, _, _, _, _, _, _)
CanParse(out, pos, E, rem, cols, opts, texts) ==
  IF rem = {} THEN pos = Len(out) + 1
  ELSE LET minTs == {i \in rem : \A j \in rem : ~TsLess(E[j].ts, E[i].ts)}
           coloured == opts[2] /\ opts[3]
           col == IF coloured /\ pos + 4 <= Len(out) THEN SubSeq(out, pos, pos + 4) ELSE <<>>
           Exp(i) == RenderEntry(E[i], opts, col, texts[TextOf(texts, E[i].ts)].txt)
           ColOk(i) == ~coloured \/ (IsPaletteCode(col) /\ \A p \in {p \in cols : p[1] = E[i].ctr} : p[2] = col)
           fits == {i \in minTs : ColOk(i) /\ IsPrefixAt(Exp(i), out, pos)}
           \* entries that print identically (and belong to the same container) are interchangeable: one representative each,
           \* so the search only branches when one rendering is a proper prefix of another
           reps == {i \in fits : \A j \in fits : Exp(j) = Exp(i) => i <= j}
       IN \E i \in reps :
            CanParse(out, pos + Len(Exp(i)), E, rem \ {i}, IF coloured THEN cols \cup {<<E[i].ctr, col>>} ELSE cols, opts, texts)
=============================================================================
