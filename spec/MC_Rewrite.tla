----------------------------- MODULE MC_Rewrite -----------------------------
(* C07, step 1.  The rewriting stages on every label set over {a, b, c} with values {"", x, xy}: label_format
   (single renames, chains b=a,c=b, swaps through a temporary, templates against one snapshot, failing templates),
   line_format, drop / keep (plain lists and value matchers with all four operators), decolorize.  Checked on the
   specification: none of these stages drops a line; a rename moves the value and removes the source; keep X and
   drop X split the label set; a failing template leaves line and labels alone and flags __error__; decolorize is
   idempotent and leaves no SGR sequence.  Every case is exported for replay on Engine.Eval. *)
EXTENDS Pipeline, TLC, Json

CONSTANTS Pools
Base == 1700000000
A == <<97>>
Bb == <<98>>
C == <<99>>
D == <<100>>
X == <<120>>
XY == <<120, 121>>
Names3 == {A, Bb, C}
Vals == {<<>>, X, XY}
Lit(s) == [t |-> "lit", s |-> s, name |-> <<>>]
Lab(n) == [t |-> "label", s |-> <<>>, name |-> n]
Up(n) == [t |-> "upper", s |-> <<>>, name |-> n]
LineP == [t |-> "line", s |-> <<>>, name |-> <<>>]
FailP(n) == [t |-> "fail", s |-> <<>>, name |-> n]
Tmpls == { <<Lab(A)>>, <<Lit(<<45>>), Lab(Bb)>>, <<Lab(A), Lit(<<61>>), Up(Bb)>>, <<LineP>>, <<FailP(A)>>, <<Lab(D)>>, <<Lit(<<122>>)>> }
M(lb, op, v) == [label |-> lb, op |-> op, val |-> v, re |-> REps]
RE1 == RCat(RLit(120), RStar(RAny))
MRe(lb, op) == [label |-> lb, op |-> op, val |-> ReText(RE1), re |-> RE1]
LF(rs, ts) == [t |-> "labelfmt", renames |-> rs, tmpls |-> ts]
Rn(d, s) == [dst |-> d, src |-> s]
Stages ==
  { LF(<<Rn(D, A)>>, <<>>), LF(<<Rn(Bb, A)>>, <<>>), LF(<<Rn(Bb, A), Rn(C, Bb)>>, <<>>), LF(<<Rn(D, A), Rn(A, Bb), Rn(Bb, D)>>, <<>>), LF(<<Rn(D, <<122>>)>>, <<>>) }
  \cup {LF(<<>>, << [dst |-> D, parts |-> t] >>) : t \in Tmpls}
  \cup {LF(<<Rn(Bb, A)>>, << [dst |-> D, parts |-> <<Lab(Bb), Lab(A)>>] >>), LF(<<>>, << [dst |-> A, parts |-> <<Lit(<<49>>)>>], [dst |-> D, parts |-> <<Lab(A)>>] >>)}
  \cup {[t |-> "linefmt", parts |-> t] : t \in Tmpls}
  \cup {st \in {[t |-> k, labels |-> ls, matchers |-> ms] : k \in {"drop", "keep"},
                ls \in {<<>>, <<A>>, <<A, C>>, <<D>>}, ms \in {<<>>, <<M(Bb, "eq", X)>>, <<M(Bb, "neq", X)>>, <<MRe(Bb, "re")>>, <<MRe(A, "nre"), M(A, "neq", <<>>)>>}}
           : st.labels # <<>> \/ st.matchers # <<>>}
  \cup {[t |-> "decolorize"]}
SGR(p) == <<27, 91>> \o p \o <<109>>
SGR8(p) == <<194, 155>> \o p \o <<109>>                     \* 8-bit CSI (U+009B) form of the same sequence
Lines == { <<112>>, SGR(<<51, 49>>) \o <<114>> \o SGR(<<48>>), <<120>> \o SGR(<<49, 59, 51, 50>>) \o <<121>>, SGR(<<>>), <<91, 51, 49, 109>>, <<>>,
           SGR8(<<51, 49>>) \o <<114>> \o SGR8(<<48>>), <<120>> \o SGR8(<<49, 59, 51, 50>>) \o SGR(<<48>>), <<194, 155>> }

VARIABLES L, line, stage, pc
vars == <<L, line, stage, pc>>
Init == L \in [Names3 -> Vals \cup {<<255>>}] /\ line \in (IF Pools = "full" THEN Lines ELSE {<<112>>, <<120>> \o SGR(<<49, 59, 51, 50>>) \o <<121>>, SGR8(<<51, 49>>) \o <<114>> \o SGR8(<<48>>)})
        /\ stage \in Stages /\ pc = "gen"
        /\ (stage.t = "decolorize" \/ line = <<112>> \/ Pools = "full")
Attrs == LET present == {n \in Names3 : L[n] # <<255>>}
             RECURSIVE ToSeq(_) ToSeq(S) == IF S = {} THEN <<>> ELSE LET n == CHOOSE n \in S : TRUE IN << <<n, L[n]>> >> \o ToSeq(S \ {n})
         IN ToSeq(present)
Rec == [id |-> 1, ts |-> <<Base + 1, 0>>, line |-> line, attrs |-> Attrs, doc |-> <<>>, jcanon |-> FALSE, jmal |-> FALSE, lmal |-> FALSE]
Case == [in |-> [recs |-> <<Rec>>, sel |-> <<>>, stages |-> <<stage>>, queries |-> <<>>, caps |-> << [label |-> <<>>, line |-> <<>>] >>, limit |-> 0 - 1,
                 start |-> <<Base - 100, 0>>, end |-> <<Base + 100, 0>>]]
Export == pc = "gen" /\ pc' = "done" /\ UNCHANGED <<L, line, stage>> /\ PrintT(<<"CASE", ToJson(Case)>>)
Next == Export

L0 == RecordLabels(Rec)
Res == Stage(stage, {}, Rec, line, L0)
NeverDropped == Res.keep
RenameMoves == stage.t = "labelfmt" /\ Len(stage.renames) = 1 /\ stage.tmpls = <<>> =>
                 LET r == stage.renames[1] IN
                 IF Has(L0, r.src) THEN Get(Res.L, r.dst) = Get(L0, r.src) /\ ~Has(Res.L, r.src) ELSE Res.L = L0
KeepDropSplit == stage.t \in {"drop", "keep"} =>
                   LET other == Stage([stage EXCEPT !.t = IF stage.t = "drop" THEN "keep" ELSE "drop"], {}, Rec, line, L0) IN
                   Res.L \cup other.L = L0 /\ Res.L \cap other.L = {}
FailingTemplate == stage.t = "linefmt" /\ Fails(stage.parts) => Res.line = line /\ Has(Res.L, S_error)
LineOnlyByLineStages == stage.t \notin {"linefmt", "decolorize"} => Res.line = line
DecolorizeClean == stage.t = "decolorize" => StripSGR(Res.line, 1) = Res.line /\ Res.L = L0
=============================================================================
