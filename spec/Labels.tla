------------------------------ MODULE Labels ------------------------------
(* Label names and the key -> label-name mapping (otelstorage.KeyToLabel), declaratively.
   Anchors: internal/otelstorage/attrs.go, internal/logql/label.go. *)
EXTENDS Integers, Sequences, Utf8

IsDigit(b) == b >= 48 /\ b <= 57
IsAlpha(b) == (b >= 97 /\ b <= 122) \/ (b >= 65 /\ b <= 90)
IsNameByte(b) == b = 95 \/ IsDigit(b) \/ IsAlpha(b)

\* A valid LogQL label name: letters, digits, underscore, not starting with a digit.
ValidName(s) == Len(s) > 0 /\ ~IsDigit(s[1]) /\ \A i \in 1..Len(s) : IsNameByte(s[i])

\* Declarative meaning of the mapping: every rune that is not a name character becomes ONE underscore,
\* and a name that would start with a digit gets an underscore in front.
RECURSIVE SanRunes(_, _)
SanRunes(s, i) ==
  IF i > Len(s) THEN <<>>
  ELSE LET r == RuneAt(s, i)
       IN <<IF r.w = 1 /\ IsNameByte(s[i]) THEN s[i] ELSE 95>> \o SanRunes(s, i + r.w)

Sanitize(s) == IF s = <<>> THEN <<>>
               ELSE (IF IsDigit(s[1]) THEN <<95>> ELSE <<>>) \o SanRunes(s, 1)
=============================================================================
