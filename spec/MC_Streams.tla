----------------------------- MODULE MC_Streams -----------------------------
(* C08, step 1.  entryIterator's limit guard followed by groupEntries: every emitted entry is appended to
   the stream found under key = LabelSet.String() (names sorted, values quoted), streams are then sorted by
   timestamp.  Checked: the key is injective on label sets (so streams partition the entries by final label
   set), entries keep time order inside a stream, and a positive limit L keeps exactly the first min(L, N). *)
EXTENDS Pipeline, TLC, Json

CONSTANTS MaxRec, Pools

Base == 1700000000
X == <<120>>
Y == <<121>>
A == <<97>>
Bb == <<98>>
Q == 34    \* "
BS == 92   \* backslash
\* attribute sets whose renderings collide unless values are quoted / names sorted
AttrPool == IF Pools = "full"
  THEN { << <<X, A>>, <<Y, Bb>> >>, << <<Y, Bb>>, <<X, A>> >>, << <<X, <<97, Q, 44, 121, 61, Q, 98>>>> >>,   \* x = a",y="b
         << <<X, A>> >>, << <<X, <<97, BS>>>> >>, << <<X, <<>>>> >>, <<>>, << <<X, <<97, BS, Q>>>> >>, << <<Y, A>> >> }
  ELSE { << <<X, A>>, <<Y, Bb>> >>, << <<Y, Bb>>, <<X, A>> >>, << <<X, <<97, Q, 44, 121, 61, Q, 98>>>> >>, << <<X, A>> >>, <<>> }
StagePool == { <<>>, << [t |-> "drop", labels |-> <<Y>>] >>, << [t |-> "keep", labels |-> <<X>>] >>, << [t |-> "drop", labels |-> <<S_msg>>] >> }

VARIABLES recs, stages, limit, pc, idx, entries, streams
vars == <<recs, stages, limit, pc, idx, entries, streams>>

MkRec(i, t, attrs) == [id |-> i, ts |-> <<Base + t, 0>>, line |-> <<109>>, attrs |-> attrs, doc |-> <<>>]
LastT == IF recs = <<>> THEN 1 ELSE recs[Len(recs)].ts[1] - Base

Init == recs = <<>> /\ stages = <<>> /\ limit = 0 - 1 /\ pc = "gen" /\ idx = 1 /\ entries = <<>> /\ streams = <<>>
AddRec == pc = "gen" /\ Len(recs) < MaxRec /\ \E a \in AttrPool, dt \in {0, 1} :
            recs' = Append(recs, MkRec(Len(recs) + 1, LastT + dt, a)) /\ UNCHANGED <<stages, limit, pc, idx, entries, streams>>
Case == [in |-> [recs |-> recs, sel |-> <<>>, stages |-> stages', queries |-> <<>>, caps |-> << [label |-> <<>>, line |-> <<>>] >>,
                 limit |-> limit', start |-> <<Base - 100, 0>>, end |-> <<Base + 100, 0>>]]
Start == pc = "gen" /\ Len(recs) >= 1 /\ pc' = "iter" /\ (\E s \in StagePool : stages' = s)
         /\ (\E lm \in {0 - 1, 0, 1, Len(recs) - 1, Len(recs), Len(recs) + 1} : limit' = lm)
         /\ UNCHANGED <<recs, idx, entries, streams>> /\ PrintT(<<"CASE", ToJson(Case)>>)

\* ---- LabelSet.String(): {k1="v1",k2="v2"} with names sorted and values quoted
RECURSIVE QuoteBody(_)
QuoteBody(v) == IF v = <<>> THEN <<>> ELSE (IF Head(v) \in {Q, BS} THEN <<BS, Head(v)>> ELSE <<Head(v)>>) \o QuoteBody(Tail(v))
Quote(v) == <<Q>> \o QuoteBody(v) \o <<Q>>
RECURSIVE SortedPairs(_)
SortedPairs(L) == IF L = {} THEN <<>>
                  ELSE LET m == CHOOSE p \in L : \A q \in L : q = p \/ BytesLess(p[1], q[1]) IN <<m>> \o SortedPairs(L \ {m})
RECURSIVE RenderPairs(_)
RenderPairs(ps) == IF ps = <<>> THEN <<>>
                   ELSE ps[1][1] \o <<61>> \o Quote(ps[1][2]) \o (IF Len(ps) = 1 THEN <<>> ELSE <<44>> \o RenderPairs(Tail(ps)))
Key(L) == <<123>> \o RenderPairs(SortedPairs(L)) \o <<125>>

\* ---- entryIterator.Next with the limit guard, then groupEntries' map insertion
Emit ==
  /\ pc = "iter" /\ idx <= Len(recs) /\ ~(limit > 0 /\ Len(entries) >= limit)
  /\ LET r == Run(stages, EmptyMems(stages), recs[idx])
         e == [id |-> recs[idx].id, ts |-> recs[idx].ts, L |-> r.L, key |-> Key(r.L)]
         pos == {k \in DOMAIN streams : streams[k].key = e.key}
     IN /\ entries' = Append(entries, e)
        /\ IF pos = {} THEN streams' = Append(streams, [key |-> e.key, L |-> e.L, vals |-> <<e>>])
           ELSE LET k == CHOOSE k \in pos : TRUE IN streams' = [streams EXCEPT ![k].vals = Append(@, e)]
  /\ idx' = idx + 1 /\ UNCHANGED <<recs, stages, limit, pc>>
Stop == pc = "iter" /\ (idx > Len(recs) \/ (limit > 0 /\ Len(entries) >= limit)) /\ pc' = "done"
        /\ UNCHANGED <<recs, stages, limit, idx, entries, streams>>
Next == AddRec \/ Start \/ Emit \/ Stop

\* ---- properties
Min(a, b) == IF a < b THEN a ELSE b
KeyInjective == \A i, j \in DOMAIN entries : entries[i].key = entries[j].key => entries[i].L = entries[j].L
Partition == pc = "done" =>
               /\ \A i, j \in DOMAIN streams : i # j => streams[i].L # streams[j].L
               /\ \A k \in DOMAIN streams : \A v \in DOMAIN streams[k].vals : streams[k].vals[v].L = streams[k].L
               /\ \A i \in DOMAIN entries : \E k \in DOMAIN streams : \E v \in DOMAIN streams[k].vals : streams[k].vals[v].id = entries[i].id
TimeOrderInStream == \A k \in DOMAIN streams : \A v \in 1..(Len(streams[k].vals) - 1) : streams[k].vals[v].ts[1] <= streams[k].vals[v + 1].ts[1]
LimitHonoured == pc = "done" => Len(entries) = (IF limit > 0 THEN Min(limit, Len(recs)) ELSE Len(recs))
                                /\ \A i \in DOMAIN entries : entries[i].id = i        \* the first ones, in time order
=============================================================================
