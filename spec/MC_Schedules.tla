---------------------------- MODULE MC_Schedules ----------------------------
(* C18, step 1 (schedule enumeration).  The completion order of the concurrent per-container requests is the
   scheduling nondeterminism of a query: for NC selected containers there are NC! orders.  This model enumerates
   them as OpenDone interleavings, checks that each interleaving ends in the same abstract state (all slots filled
   by their own container: the result cannot depend on the order), and exports one conformance case per
   (NC, query shape) that lists EVERY order, to be forced on the real code. *)
EXTENDS Integers, Sequences, FiniteSets, TLC, Json

CONSTANTS MaxN, Reps
Base == 1700000000
Shapes == {"log", "count", "sumcount", "sumdep", "maxnan", "rangeby"}     \* sumdep: sum by (app, dep) - containers 1 and 2 carry dep="", the others no dep label

\* tie: every container logs at the same instants, and a log query's limit cuts the first tie group (nc - 1 of its nc
\* records are returned): WHICH records come back then depends on how ties are broken, which must not be by arrival
VARIABLES nc, shape, tie, done, hist, pc
vars == <<nc, shape, tie, done, hist, pc>>
Init == nc \in 2..MaxN /\ shape \in Shapes /\ tie \in BOOLEAN /\ done = {} /\ hist = <<>> /\ pc = "start"

RECURSIVE Perms(_)
Perms(S) == IF S = {} THEN {<<>>} ELSE UNION {{<<x>> \o p : p \in Perms(S \ {x})} : x \in S}
RECURSIVE SetToSeq(_)
SetToSeq(S) == IF S = {} THEN <<>> ELSE LET x == CHOOSE x \in S : TRUE IN <<x>> \o SetToSeq(S \ {x})
APP == <<97, 112, 112>>
CtrRec(c) == [id |-> <<105, 100, 48 + c>>, name |-> <<110, 48 + c>>, image |-> <<105>>, imageId |-> <<115>>, command |-> <<99>>, created |-> 1,
              state |-> <<114>>, status |-> <<85>>, labels |-> << <<APP, <<97 + (c % 2)>>>>, <<<<116, 105, 101, 114>>, <<120>>>> >> \o (IF c <= 2 THEN << <<<<100, 101, 112>>, <<>>>> >> ELSE <<>>), noName |-> FALSE,
              frames |-> [j \in 1..2 |-> [typ |-> 1, ts |-> <<IF tie THEN Base + j ELSE Base + 2 * c + j, 0>>, msg |-> IF shape = "maxnan" THEN (IF c = 1 THEN <<118, 61, 78, 97, 78>> ELSE <<118, 61, 48 + c>>)
                                                      ELSE IF shape = "rangeby" THEN <<118, 61, 48 + j, 32, 107, 61, 48 + (c % 2), 32, 106, 61, 48 + (j % 2)>>     \* v=<j> k=<c%2> j=<j%2>
                                                      ELSE <<99, 48 + c, 45, 48 + j>>, raw |-> FALSE]]]    \* maxnan: v=NaN for container 1, v=<c> for the others
Case == [in |-> [ctrs |-> [c \in 1..nc |-> CtrRec(c)], sel |-> <<>>, sel2 |-> <<>>, shape |-> shape, start |-> <<Base, 0>>, end |-> <<Base + 60, 0>>,
                 step |-> 20, range |-> 600, limit |-> IF tie /\ shape = "log" THEN nc - 1 ELSE 0 - 1, orders |-> SetToSeq(Perms(1..nc)), reps |-> Reps, faults |-> <<>>, listErr |-> FALSE, frag |-> <<>>]]
Export == pc = "start" /\ pc' = "open" /\ UNCHANGED <<nc, shape, done, hist>> /\ PrintT(<<"CASE", ToJson(Case)>>)
           /\ UNCHANGED tie
OpenDone(c) == pc = "open" /\ c \in 1..nc /\ c \notin done /\ done' = done \cup {c} /\ hist' = Append(hist, c) /\ UNCHANGED <<nc, shape, tie, pc>>
Wait == pc = "open" /\ done = 1..nc /\ pc' = "joined" /\ UNCHANGED <<nc, shape, tie, done, hist>>
Next == Export \/ (\E c \in 1..MaxN : OpenDone(c)) \/ Wait

\* every completion order is explored, and the joined state does not remember it
AllOrdersReachJoin == pc = "joined" => done = 1..nc /\ Len(hist) = nc
View == <<nc, shape, tie, done, pc>>
=============================================================================
