-------------------------------- MODULE Tmpl --------------------------------
(* A small template algebra for label_format / line_format (C07) with its rendering to Go text/template.
   A template is a sequence of parts:
     [t |-> "lit", s]        literal text (no braces)
     [t |-> "label", name]   {{.name}}              (a missing label expands to the empty string)
     [t |-> "line"]          {{__line__}}
     [t |-> "upper", name]   {{.name | ToUpper}}    (ASCII letters in the cases)
     [t |-> "fail", name]    {{index .name 99}}     (fails at execution: index out of range)
   and functions of one label's value (ASCII values in the cases; n: a small integer, s / b: plain strings):
     [t |-> "lower", name]          {{.name | lower}}
     [t |-> "trimspace", name]      {{.name | TrimSpace}}
     [t |-> "trunc", name, n]       {{.name | trunc n}}          the first n bytes; n < 0: the last -n
     [t |-> "replace", name, s, b]  {{.name | replace "s" "b"}}  every occurrence of s, left to right, not overlapping
     [t |-> "alignleft", name, n]   {{alignLeft n .name}}        cut or padded on the right to n characters (n < 0: untouched)
     [t |-> "alignright", name, n]  {{alignRight n .name}}       the last n characters, or padded on the left
     [t |-> "default", name, s]     {{.name | default "s"}}      s when the value is empty
     [t |-> "repeat", name, n]      {{.name | repeat n}}         n >= 0 *)
EXTENDS Integers, Sequences, Bytes

LB == <<123, 123>>
RB == <<125, 125>>
UpperByte(b) == IF b >= 97 /\ b <= 122 THEN b - 32 ELSE b
LowerByte(b) == IF b >= 65 /\ b <= 90 THEN b + 32 ELSE b
TmplN(p) == IF "n" \in DOMAIN p THEN p.n ELSE 0
TmplB2(p) == IF "b" \in DOMAIN p THEN p.b ELSE <<>>
TmplIntText(n) == LET RECURSIVE D(_)
                  D(m) == IF m < 10 THEN <<48 + m>> ELSE Append(D(m \div 10), 48 + (m % 10))
              IN IF n < 0 THEN <<45>> \o D(0 - n) ELSE D(n)
TmplQuoted(x) == <<34>> \o x \o <<34>>
TmplPipe(name, f) == LB \o <<46>> \o name \o <<32, 124, 32>> \o f \o RB
PartText(p) == CASE p.t = "lit" -> p.s
                 [] p.t = "lower" -> TmplPipe(p.name, <<108, 111, 119, 101, 114>>)
                 [] p.t = "trimspace" -> TmplPipe(p.name, <<84, 114, 105, 109, 83, 112, 97, 99, 101>>)
                 [] p.t = "trunc" -> TmplPipe(p.name, <<116, 114, 117, 110, 99, 32>> \o TmplIntText(TmplN(p)))
                 [] p.t = "replace" -> TmplPipe(p.name, <<114, 101, 112, 108, 97, 99, 101, 32>> \o TmplQuoted(p.s) \o <<32>> \o TmplQuoted(TmplB2(p)))
                 [] p.t = "alignleft" -> LB \o <<97, 108, 105, 103, 110, 76, 101, 102, 116, 32>> \o TmplIntText(TmplN(p)) \o <<32, 46>> \o p.name \o RB
                 [] p.t = "alignright" -> LB \o <<97, 108, 105, 103, 110, 82, 105, 103, 104, 116, 32>> \o TmplIntText(TmplN(p)) \o <<32, 46>> \o p.name \o RB
                 [] p.t = "default" -> TmplPipe(p.name, <<100, 101, 102, 97, 117, 108, 116, 32>> \o TmplQuoted(p.s))
                 [] p.t = "repeat" -> TmplPipe(p.name, <<114, 101, 112, 101, 97, 116, 32>> \o TmplIntText(TmplN(p)))
                 [] p.t = "label" -> LB \o <<46>> \o p.name \o RB
                 [] p.t = "line" -> LB \o <<95, 95, 108, 105, 110, 101, 95, 95>> \o RB
                 [] p.t = "upper" -> LB \o <<46>> \o p.name \o <<32, 124, 32, 84, 111, 85, 112, 112, 101, 114>> \o RB
                 [] p.t = "fail" -> LB \o <<105, 110, 100, 101, 120, 32, 46>> \o p.name \o <<32, 57, 57>> \o RB
RECURSIVE TmplText(_)
TmplText(ps) == IF ps = <<>> THEN <<>> ELSE PartText(ps[1]) \o TmplText(Tail(ps))
Fails(ps) == \E i \in DOMAIN ps : ps[i].t = "fail"
TmplIsSpace(c) == c \in {9, 10, 11, 12, 13, 32}
RECURSIVE TmplTrimL(_)
TmplTrimL(v) == IF v # <<>> /\ TmplIsSpace(v[1]) THEN TmplTrimL(Tail(v)) ELSE v
RECURSIVE TmplTrimR(_)
TmplTrimR(v) == IF v # <<>> /\ TmplIsSpace(v[Len(v)]) THEN TmplTrimR(SubSeq(v, 1, Len(v) - 1)) ELSE v
TmplTrunc(n, v) == IF n < 0 /\ Len(v) + n > 0 THEN SubSeq(v, Len(v) + n + 1, Len(v))
               ELSE IF n >= 0 /\ Len(v) > n THEN SubSeq(v, 1, n) ELSE v
TmplStartsAt(v, i, a) == i + Len(a) - 1 <= Len(v) /\ SubSeq(v, i, i + Len(a) - 1) = a
RECURSIVE TmplReplAll(_, _, _, _)
TmplReplAll(v, i, a, b) == IF i > Len(v) THEN <<>>
                       ELSE IF TmplStartsAt(v, i, a) THEN b \o TmplReplAll(v, i + Len(a), a, b)
                       ELSE <<v[i]>> \o TmplReplAll(v, i + 1, a, b)
TmplSpaces(n) == [i \in 1..n |-> 32]
TmplAlignL(n, v) == IF n < 0 THEN v ELSE IF Len(v) > n THEN SubSeq(v, 1, n) ELSE v \o TmplSpaces(n - Len(v))
TmplAlignR(n, v) == IF n < 0 THEN v ELSE IF Len(v) > n THEN SubSeq(v, Len(v) - n + 1, Len(v)) ELSE TmplSpaces(n - Len(v)) \o v
RECURSIVE TmplRep(_, _)
TmplRep(n, v) == IF n <= 0 THEN <<>> ELSE v \o TmplRep(n - 1, v)
\* the functions are modelled on ASCII values with a non-empty needle and a repeat count that is not negative
PartWellFormed(p) == /\ (p.t = "replace" => p.s # <<>>) /\ (p.t = "repeat" => TmplN(p) >= 0)
TmplFunOf(p, v) == CASE p.t = "lower" -> [i \in DOMAIN v |-> LowerByte(v[i])]
                 [] p.t = "trimspace" -> TmplTrimR(TmplTrimL(v))
                 [] p.t = "trunc" -> TmplTrunc(TmplN(p), v)
                 [] p.t = "replace" -> TmplReplAll(v, 1, p.s, TmplB2(p))
                 [] p.t = "alignleft" -> TmplAlignL(TmplN(p), v)
                 [] p.t = "alignright" -> TmplAlignR(TmplN(p), v)
                 [] p.t = "default" -> IF v = <<>> THEN p.s ELSE v
                 [] p.t = "repeat" -> TmplRep(TmplN(p), v)
TmplFuns == {"lower", "trimspace", "trunc", "replace", "alignleft", "alignright", "default", "repeat"}
\* Lookup(name) gives the label's value or <<>>
RECURSIVE Expand(_, _, _)
Expand(ps, Lookup(_), line) ==
  IF ps = <<>> THEN <<>>
  ELSE LET p == ps[1] IN
       (CASE p.t = "lit" -> p.s
          [] p.t = "label" -> Lookup(p.name)
          [] p.t = "line" -> line
          [] p.t = "upper" -> [i \in DOMAIN Lookup(p.name) |-> UpperByte(Lookup(p.name)[i])]
          [] p.t = "fail" -> <<>>
          [] p.t \in TmplFuns -> TmplFunOf(p, Lookup(p.name))) \o Expand(Tail(ps), Lookup, line)
=============================================================================
