-------------------------------- MODULE Tmpl --------------------------------
(* A small template algebra for label_format / line_format (C07) with its rendering to Go text/template.
   A template is a sequence of parts:
     [t |-> "lit", s]        literal text (no braces)
     [t |-> "label", name]   {{.name}}              (a missing label expands to the empty string)
     [t |-> "line"]          {{__line__}}
     [t |-> "upper", name]   {{.name | ToUpper}}    (ASCII letters in the cases)
     [t |-> "fail", name]    {{index .name 99}}     (fails at execution: index out of range) *)
EXTENDS Integers, Sequences, Bytes

LB == <<123, 123>>
RB == <<125, 125>>
UpperByte(b) == IF b >= 97 /\ b <= 122 THEN b - 32 ELSE b
PartText(p) == CASE p.t = "lit" -> p.s
                 [] p.t = "label" -> LB \o <<46>> \o p.name \o RB
                 [] p.t = "line" -> LB \o <<95, 95, 108, 105, 110, 101, 95, 95>> \o RB
                 [] p.t = "upper" -> LB \o <<46>> \o p.name \o <<32, 124, 32, 84, 111, 85, 112, 112, 101, 114>> \o RB
                 [] p.t = "fail" -> LB \o <<105, 110, 100, 101, 120, 32, 46>> \o p.name \o <<32, 57, 57>> \o RB
RECURSIVE TmplText(_)
TmplText(ps) == IF ps = <<>> THEN <<>> ELSE PartText(ps[1]) \o TmplText(Tail(ps))
Fails(ps) == \E i \in DOMAIN ps : ps[i].t = "fail"
\* Lookup(name) gives the label's value or <<>>
RECURSIVE Expand(_, _, _)
Expand(ps, Lookup(_), line) ==
  IF ps = <<>> THEN <<>>
  ELSE LET p == ps[1] IN
       (CASE p.t = "lit" -> p.s
          [] p.t = "label" -> Lookup(p.name)
          [] p.t = "line" -> line
          [] p.t = "upper" -> [i \in DOMAIN Lookup(p.name) |-> UpperByte(Lookup(p.name)[i])]
          [] p.t = "fail" -> <<>>) \o Expand(Tail(ps), Lookup, line)
=============================================================================
