-------------------------------- MODULE Tmpl --------------------------------
(* A small template algebra for label_format / line_format (C07) with its rendering to Go text/template.
   A template is a sequence of parts:
     [t |-> "lit", s]        literal text (no braces)
     [t |-> "label", name]   {{.name}}              (a missing label expands to the empty string)
     [t |-> "line"]          {{__line__}}
     [t |-> "upper", name]   {{.name | ToUpper}}    (ASCII letters in the cases)
     [t |-> "fail", name]    {{index .name 99}}     (fails at execution: index out of range)
   and functions of one label's value (ASCII values in the cases; n: a small integer, s / b: plain strings):
     [t |-> "lower", name]          {{.name | lower}}
     [t |-> "trimspace", name]      {{.name | TrimSpace}}
     [t |-> "trunc", name, n]       {{.name | trunc n}}          the first n bytes; n < 0: the last -n
     [t |-> "replace", name, s, b]  {{.name | replace "s" "b"}}  every occurrence of s, left to right, not overlapping
     [t |-> "alignleft", name, n]   {{alignLeft n .name}}        cut or padded on the right to n characters (n < 0: untouched)
     [t |-> "alignright", name, n]  {{alignRight n .name}}       the last n characters, or padded on the left
     [t |-> "default", name, s]     {{.name | default "s"}}      s when the value is empty
     [t |-> "repeat", name, n]      {{.name | repeat n}}         n >= 0 *)
EXTENDS Integers, Sequences, Bytes

LB == <<123, 123>>
RB == <<125, 125>>
UpperByte(b) == IF b >= 97 /\ b <= 122 THEN b - 32 ELSE b
LowerByte(b) == IF b >= 65 /\ b <= 90 THEN b + 32 ELSE b
PN(p) == IF "n" \in DOMAIN p THEN p.n ELSE 0
PB2(p) == IF "b" \in DOMAIN p THEN p.b ELSE <<>>
IntText(n) == LET RECURSIVE D(_)
                  D(m) == IF m < 10 THEN <<48 + m>> ELSE Append(D(m \div 10), 48 + (m % 10))
              IN IF n < 0 THEN <<45>> \o D(0 - n) ELSE D(n)
Quoted(x) == <<34>> \o x \o <<34>>
Pipe(name, f) == LB \o <<46>> \o name \o <<32, 124, 32>> \o f \o RB
PartText(p) == CASE p.t = "lit" -> p.s
                 [] p.t = "lower" -> Pipe(p.name, <<108, 111, 119, 101, 114>>)
                 [] p.t = "trimspace" -> Pipe(p.name, <<84, 114, 105, 109, 83, 112, 97, 99, 101>>)
                 [] p.t = "trunc" -> Pipe(p.name, <<116, 114, 117, 110, 99, 32>> \o IntText(PN(p)))
                 [] p.t = "replace" -> Pipe(p.name, <<114, 101, 112, 108, 97, 99, 101, 32>> \o Quoted(p.s) \o <<32>> \o Quoted(PB2(p)))
                 [] p.t = "alignleft" -> LB \o <<97, 108, 105, 103, 110, 76, 101, 102, 116, 32>> \o IntText(PN(p)) \o <<32, 46>> \o p.name \o RB
                 [] p.t = "alignright" -> LB \o <<97, 108, 105, 103, 110, 82, 105, 103, 104, 116, 32>> \o IntText(PN(p)) \o <<32, 46>> \o p.name \o RB
                 [] p.t = "default" -> Pipe(p.name, <<100, 101, 102, 97, 117, 108, 116, 32>> \o Quoted(p.s))
                 [] p.t = "repeat" -> Pipe(p.name, <<114, 101, 112, 101, 97, 116, 32>> \o IntText(PN(p)))
                 [] p.t = "label" -> LB \o <<46>> \o p.name \o RB
                 [] p.t = "line" -> LB \o <<95, 95, 108, 105, 110, 101, 95, 95>> \o RB
                 [] p.t = "upper" -> LB \o <<46>> \o p.name \o <<32, 124, 32, 84, 111, 85, 112, 112, 101, 114>> \o RB
                 [] p.t = "fail" -> LB \o <<105, 110, 100, 101, 120, 32, 46>> \o p.name \o <<32, 57, 57>> \o RB
RECURSIVE TmplText(_)
TmplText(ps) == IF ps = <<>> THEN <<>> ELSE PartText(ps[1]) \o TmplText(Tail(ps))
Fails(ps) == \E i \in DOMAIN ps : ps[i].t = "fail"
IsSpaceB(c) == c \in {9, 10, 11, 12, 13, 32}
RECURSIVE TrimL(_)
TrimL(v) == IF v # <<>> /\ IsSpaceB(v[1]) THEN TrimL(Tail(v)) ELSE v
RECURSIVE TrimR(_)
TrimR(v) == IF v # <<>> /\ IsSpaceB(v[Len(v)]) THEN TrimR(SubSeq(v, 1, Len(v) - 1)) ELSE v
Trunc(n, v) == IF n < 0 /\ Len(v) + n > 0 THEN SubSeq(v, Len(v) + n + 1, Len(v))
               ELSE IF n >= 0 /\ Len(v) > n THEN SubSeq(v, 1, n) ELSE v
StartsAt(v, i, a) == i + Len(a) - 1 <= Len(v) /\ SubSeq(v, i, i + Len(a) - 1) = a
RECURSIVE ReplAll(_, _, _, _)
ReplAll(v, i, a, b) == IF i > Len(v) THEN <<>>
                       ELSE IF StartsAt(v, i, a) THEN b \o ReplAll(v, i + Len(a), a, b)
                       ELSE <<v[i]>> \o ReplAll(v, i + 1, a, b)
Spaces(n) == [i \in 1..n |-> 32]
AlignL(n, v) == IF n < 0 THEN v ELSE IF Len(v) > n THEN SubSeq(v, 1, n) ELSE v \o Spaces(n - Len(v))
AlignR(n, v) == IF n < 0 THEN v ELSE IF Len(v) > n THEN SubSeq(v, Len(v) - n + 1, Len(v)) ELSE Spaces(n - Len(v)) \o v
RECURSIVE Rep(_, _)
Rep(n, v) == IF n <= 0 THEN <<>> ELSE v \o Rep(n - 1, v)
\* the functions are modelled on ASCII values with a non-empty needle and a repeat count that is not negative
PartWellFormed(p) == /\ (p.t = "replace" => p.s # <<>>) /\ (p.t = "repeat" => PN(p) >= 0)
FunOf(p, v) == CASE p.t = "lower" -> [i \in DOMAIN v |-> LowerByte(v[i])]
                 [] p.t = "trimspace" -> TrimR(TrimL(v))
                 [] p.t = "trunc" -> Trunc(PN(p), v)
                 [] p.t = "replace" -> ReplAll(v, 1, p.s, PB2(p))
                 [] p.t = "alignleft" -> AlignL(PN(p), v)
                 [] p.t = "alignright" -> AlignR(PN(p), v)
                 [] p.t = "default" -> IF v = <<>> THEN p.s ELSE v
                 [] p.t = "repeat" -> Rep(PN(p), v)
Funs == {"lower", "trimspace", "trunc", "replace", "alignleft", "alignright", "default", "repeat"}
\* Lookup(name) gives the label's value or <<>>
RECURSIVE Expand(_, _, _)
Expand(ps, Lookup(_), line) ==
  IF ps = <<>> THEN <<>>
  ELSE LET p == ps[1] IN
       (CASE p.t = "lit" -> p.s
          [] p.t = "label" -> Lookup(p.name)
          [] p.t = "line" -> line
          [] p.t = "upper" -> [i \in DOMAIN Lookup(p.name) |-> UpperByte(Lookup(p.name)[i])]
          [] p.t = "fail" -> <<>>
          [] p.t \in Funs -> FunOf(p, Lookup(p.name))) \o Expand(Tail(ps), Lookup, line)
=============================================================================
