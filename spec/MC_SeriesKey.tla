---------------------------- MODULE MC_SeriesKey ----------------------------
(* C10, step 1.  The grouping key of a sample: its label pairs are materialised from a hash map in an order
   the runtime chooses (modelled as an arbitrary permutation `ord`), restricted to the visible labels of the
   by / without clause, and fed to a 64-bit hash.  The hash is abstracted as injective on byte strings
   (assumption; collisions of xxhash are outside the model), so the key is the byte string fed to it.
   Design under check: pairs are sorted by name before hashing and every name and value is length-prefixed.
   Invariant: two samples get the same key exactly when their visible label sets are equal - whatever the
   materialisation orders. *)
EXTENDS Integers, Sequences, FiniteSets, TLC, Json, Bytes

CONSTANTS MaxLabels, ValSet

Names == { <<97>>, <<97, 98>>, <<98>> }                               \* a, ab, b
Vals == IF ValSet = "tiny" THEN { <<99>>, <<98, 99>> } ELSE IF ValSet = "full" THEN { <<99>>, <<98, 99>>, <<>>, <<98>>, <<255>>, <<1, 98>> } ELSE { <<99>>, <<98, 99>>, <<>>, <<98>> }
Clauses == { [mode |-> "none", labels |-> {}], [mode |-> "by", labels |-> {<<97>>}], [mode |-> "without", labels |-> {<<97>>}],
             [mode |-> "by", labels |-> {<<97>>, <<98>>}], [mode |-> "without", labels |-> {<<97, 98>>}] }

VARIABLES L1, L2, o1, o2, clause, pc
vars == <<L1, L2, o1, o2, clause, pc>>

Init == L1 = <<>> /\ L2 = <<>> /\ o1 = <<>> /\ o2 = <<>> /\ clause = [mode |-> "none", labels |-> {}] /\ pc = "gen1"
\* a label set is built as a sequence of pairs with distinct names: the sequence order is the materialisation order
NamesIn(L) == {L[i][1] : i \in DOMAIN L}
Add1 == pc = "gen1" /\ Len(L1) < MaxLabels /\ \E n \in Names \ NamesIn(L1), v \in Vals : L1' = Append(L1, <<n, v>>) /\ UNCHANGED <<L2, o1, o2, clause, pc>>
To2 == pc = "gen1" /\ pc' = "gen2" /\ UNCHANGED <<L1, L2, o1, o2, clause>>
Add2 == pc = "gen2" /\ Len(L2) < MaxLabels /\ \E n \in Names \ NamesIn(L2), v \in Vals : L2' = Append(L2, <<n, v>>) /\ UNCHANGED <<L1, o1, o2, clause, pc>>
\* ---- export: three records (labels L1, L2, L1 again) inside one window, evaluated R times (map order is re-randomised per run)
Base == 1700000000
V == <<118>>
RECURSIVE SetSeq(_)
SetSeq(S) == IF S = {} THEN <<>> ELSE LET x == CHOOSE x \in S : TRUE IN <<x>> \o SetSeq(S \ {x})
Rec(i, L, val) == [id |-> i, ts |-> <<Base + i, 0>>, line |-> <<109>>, attrs |-> L \o << <<V, <<48 + val>>>> >>, doc |-> <<>>]
DropMsg == << [t |-> "drop", labels |-> << <<109, 115, 103>> >>] >>
ExprOf(c) == IF c.mode = "none"
  THEN [t |-> "range", id |-> 1, op |-> "count_over_time", sel |-> <<>>, stages |-> << [t |-> "drop", labels |-> << <<109, 115, 103>>, V >>] >>, range |-> 10, offset |-> 0,
        unwrap |-> [on |-> FALSE, label |-> <<>>, conv |-> ""], param |-> <<0, 1>>, grp |-> [mode |-> "none", labels |-> <<>>],
        k |-> 0, bool |-> FALSE, v |-> <<0, 1>>, paren |-> FALSE]
  ELSE [t |-> "range", id |-> 1, op |-> "max_over_time", sel |-> <<>>, stages |-> DropMsg, range |-> 10, offset |-> 0,
        unwrap |-> [on |-> TRUE, label |-> V, conv |-> ""], param |-> <<0, 1>>,
        grp |-> [mode |-> c.mode, labels |-> SetSeq(c.labels) \o (IF c.mode = "without" THEN <<V>> ELSE <<>>)],
        k |-> 0, bool |-> FALSE, v |-> <<0, 1>>, paren |-> FALSE]
Case == [in |-> [recs |-> << Rec(1, L1, 1), Rec(2, L2, 2), Rec(3, L1, 3) >>, expr |-> ExprOf(clause'),
                 evals |-> << [start |-> Base + 5, end |-> Base + 5, step |-> 0], [start |-> Base + 4, end |-> Base + 8, step |-> 2] >>, reps |-> 6]]
Go == pc = "gen2" /\ pc' = "keyed" /\ (\E c \in Clauses : clause' = c) /\ UNCHANGED <<L1, L2, o1, o2>>
      /\ PrintT(<<"CASE", ToJson(Case)>>)
Next == Add1 \/ To2 \/ Add2 \/ Go

Visible(L) == SelectSeq(L, LAMBDA p : CASE clause.mode = "none" -> TRUE
                                        [] clause.mode = "by" -> p[1] \in clause.labels
                                        [] clause.mode = "without" -> p[1] \notin clause.labels)
SetOf(L) == {L[i] : i \in DOMAIN L}
\* newAggregatedLabels sorts the pairs by name; forEach walks the visible ones; Key() length-prefixes names and values
RECURSIVE SortByName(_)
SortByName(S) == IF S = {} THEN <<>> ELSE LET m == CHOOSE p \in S : \A q \in S : q = p \/ BytesLess(p[1], q[1]) IN <<m>> \o SortByName(S \ {m})
Lp(s) == <<Len(s)>> \o s
RECURSIVE Feed(_)
Feed(ps) == IF ps = <<>> THEN <<>> ELSE Lp(ps[1][1]) \o Lp(ps[1][2]) \o Feed(Tail(ps))
KeyImpl(L) == Feed(Visible(SortByName(SetOf(L))))
KeyDecl(L) == SetOf(Visible(L))

KeyIsLabelSet == pc = "keyed" => (KeyImpl(L1) = KeyImpl(L2) <=> KeyDecl(L1) = KeyDecl(L2))
=============================================================================
