---------------------------- MODULE Trace_Select ----------------------------
(* C02, step 3.  Observed at the fake Docker API client (which containers receive ContainerLogs calls, with
   what options) and at Engine.Eval's result (stream labels of every entry). *)
EXTENDS TraceCommon, DockerSel

VARIABLES ctrs, ms, tstart, tend, shape, range, off,
          called,     \* container indices that received a ContainerLogs call in this run
          nent,       \* entries seen
          returned
fam == <<ctrs, ms, tstart, tend, shape, range, off, called, nent, returned>>
vars == <<tcvars, fam>>

Instant == tstart = tend
Sel == Selected(ctrs, ms)
CaseOk == (\A i \in DOMAIN ctrs : Unambiguous(ctrs[i])) /\ (\A k \in DOMAIN ms : MatcherWellFormed(ms[k]))

Init == TCInit /\ ctrs = <<>> /\ ms = <<>> /\ tstart = <<0, 0>> /\ tend = <<0, 0>> /\ shape = "" /\ range = 0 /\ off = 0 /\ called = {} /\ nent = 0
        /\ returned = FALSE
Start == Begin /\ ctrs' = Trace[l].in.ctrs /\ ms' = Trace[l].in.sel /\ tstart' = Trace[l].in.start /\ tend' = Trace[l].in.end
         /\ shape' = Trace[l].in.shape /\ range' = Trace[l].in.range /\ off' = (IF Has(Trace[l].in, "offset") THEN Trace[l].in.offset ELSE 0) /\ called' = {} /\ nent' = 0 /\ returned' = FALSE

\* a case that is not well formed is the harness's fault, never the code's: reject it as an environment error
EvRun == IsEv("Run") /\ CaseOk /\ Accept /\ called' = {} /\ nent' = 0 /\ returned' = FALSE /\ UNCHANGED <<ctrs, ms, tstart, tend, shape, range, off>>

LogsOk == /\ Ev.ctr \in Sel /\ Ev.ctr \notin called
          \* log query: exactly the window, floored to seconds (instant: 30 s look-back first);
          \* metric query: must reach back to the first window's start, may be widened by at most the look-back
          /\ IF shape = "log" THEN Ev.sinceN = Since(tstart, Instant)
             \* (an offset o moves both ends back by o)
             ELSE Ev.sinceN <= tstart[1] - off - range /\ Ev.sinceN >= tstart[1] - off - range - Lookback
          /\ Ev.untilN = Until(tend) - (IF shape = "log" THEN 0 ELSE off)
          /\ Ev.stdout /\ Ev.stderr /\ Ev.timestamps /\ ~Ev.follow /\ Ev.tail \in {"all", ""}
EvLogs == IsEv("ContainerLogs") /\ LogsOk /\ Accept /\ called' = called \cup {Ev.ctr} /\ UNCHANGED <<ctrs, ms, tstart, tend, shape, range, off, nent, returned>>

\* the container a line came from is known from the unique message the case put into its frames
OriginOf(line) == {i \in DOMAIN ctrs : \E j \in DOMAIN ctrs[i].frames : ctrs[i].frames[j].msg = line}
EntryOk == /\ Cardinality(OriginOf(Ev.line)) = 1
           /\ LET c == CHOOSE i \in OriginOf(Ev.line) : TRUE IN
              /\ c \in Sel
              \* (a container label named msg takes precedence over the line's own msg label)
              /\ PairsOf(Ev.labels) = CtrLabels(ctrs[c]) \cup {p \in {<<S_msg, Ev.line>>} : S_msg \notin NamesOf(CtrLabels(ctrs[c]))}
EvEntry == IsEv("Entry") /\ EntryOk /\ Accept /\ nent' = nent + 1 /\ UNCHANGED <<ctrs, ms, tstart, tend, shape, range, off, called, returned>>

RECURSIVE SumFrames(_)
SumFrames(S) == IF S = {} THEN 0 ELSE LET i == CHOOSE i \in S : TRUE IN Len(ctrs[i].frames) + SumFrames(S \ {i})
ReturnOk == Ev.outcome = "ok" /\ called = Sel /\ (shape = "log" => nent = SumFrames(Sel))
EvReturn == IsEv("Return") /\ ReturnOk /\ Accept /\ returned' = TRUE /\ UNCHANGED <<ctrs, ms, tstart, tend, shape, range, off, called, nent>>

Free == {"Query", "List", "Release", "OpenOk", "Eof", "Close", "RunEnd", "Point"}
EvFree == More /\ ~skip /\ Ev.ev \in Free /\ Accept /\ UNCHANGED fam

Explained == \/ Ev.ev \in Free
             \/ Ev.ev = "Run"
             \/ Ev.ev = "ContainerLogs" /\ LogsOk
             \/ Ev.ev = "Entry" /\ EntryOk
             \/ Ev.ev = "Return" /\ ReturnOk
Bad  == Reject /\ ~Explained /\ UNCHANGED fam
BadCase == RejectEnv /\ Ev.ev = "Run" /\ ~CaseOk /\ UNCHANGED fam
Next == Start \/ BadCase \/ EvRun \/ EvLogs \/ EvEntry \/ EvReturn \/ EvFree \/ Bad \/ (Skipped /\ UNCHANGED fam) \/ (Finish /\ UNCHANGED fam)
TraceSpec == Init /\ [][Next]_vars
=============================================================================
