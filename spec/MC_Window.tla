----------------------------- MODULE MC_Window -----------------------------
(* C09, step 1.  rangeAggIterator transcribed: the stepper (start, start+step, ... <= end, all shifted back by
   the offset), clearWindow (evict what left the window), fillWindow (admit samples up to the window end, buffer
   the first later one, skip earlier ones for good), one emitted step per grid point stamped with the
   evaluation time.  Invariant: after every emitted step the retained samples are exactly those with
   T-o-r <= ts <= T-o - for every sample set (ties, samples on both edges), range, step (smaller than, equal to,
   larger than the range), start, end and offset within the bounds, i.e. every history of sliding the window. *)
EXTENDS Integers, Sequences, FiniteSets, TLC, Json

CONSTANTS MaxSamples, TMax, Ranges, Steps, Starts, Offsets, Ops

Base == 1700000000

VARIABLES S,                     \* sample timestamps, non-decreasing
          R, Step, Start, End, Off, op,
          pc,                    \* "gen" | "par" | "idle" | "fill" | "done"
          cur,                   \* current step time in the iterator's (shifted) coordinates
          win, look, pos, out
vars == <<S, R, Step, Start, End, Off, op, pc, cur, win, look, pos, out>>

Init == S = <<>> /\ R = 1 /\ Step = 1 /\ Start = 0 /\ End = 0 /\ Off = 0 /\ op = "count_over_time" /\ pc = "gen"
        /\ cur = 0 /\ win = {} /\ look = 0 /\ pos = 1 /\ out = <<>>

Last == IF S = <<>> THEN 0 ELSE S[Len(S)]
AddSample == pc = "gen" /\ Len(S) < MaxSamples /\ \E t \in Last..TMax : S' = Append(S, t)
             /\ UNCHANGED <<R, Step, Start, End, Off, op, pc, cur, win, look, pos, out>>
ChooseParams == pc = "gen" /\ pc' = "par"
                /\ (\E r \in Ranges : R' = r) /\ (\E st \in Steps : Step' = st) /\ (\E s0 \in Starts : \E e \in s0..(TMax + 1) : Start' = s0 /\ End' = e)
                /\ (\E o \in Offsets : Off' = o) /\ (\E f \in Ops : op' = f)
                /\ UNCHANGED <<S, cur, win, look, pos, out>>

\* ---- export
App == <<97, 112, 112>>
V == <<118>>
RecOf(i) == [id |-> i, ts |-> <<Base + S[i], 0>>, line |-> <<109>>, attrs |-> << <<App, <<97>>>>, <<V, <<49 + (i % 3)>>>> >>, doc |-> <<>>]
Unwrapped == op # "count_over_time"
Expr == [t |-> "range", id |-> 1, op |-> op, sel |-> <<>>,
         stages |-> IF Unwrapped THEN << [t |-> "drop", labels |-> << <<109, 115, 103>> >>] >> ELSE << [t |-> "keep", labels |-> <<App>>] >>,
         range |-> R, offset |-> Off, unwrap |-> [on |-> Unwrapped, label |-> IF Unwrapped THEN V ELSE <<>>, conv |-> ""],
         param |-> <<1, 2>>, grp |-> IF Unwrapped THEN [mode |-> "by", labels |-> <<App>>] ELSE [mode |-> "none", labels |-> <<>>],
         k |-> 0, bool |-> FALSE, v |-> <<0, 1>>, paren |-> FALSE]
Evals == << [start |-> Base + Start, end |-> Base + End, step |-> Step],
            [start |-> Base + Start, end |-> Base + Start, step |-> 0],
            [start |-> Base + End, end |-> Base + End, step |-> 0] >>
Case == [in |-> [recs |-> [i \in DOMAIN S |-> RecOf(i)], expr |-> Expr, evals |-> Evals, reps |-> 1]]
Begin == pc = "par" /\ pc' = "idle" /\ cur' = Start - Off - Step        \* newStepper: current = start.Add(-step)
         /\ UNCHANGED <<S, R, Step, Start, End, Off, op, win, look, pos, out>>
         /\ PrintT(<<"CASE", ToJson(Case)>>)

\* ---- stepper.next + clearWindow
Advance == /\ pc = "idle" /\ cur + Step <= End - Off
           /\ cur' = cur + Step
           /\ win' = {i \in win : S[i] >= cur + Step - R}        \* keep points with timestamp >= windowStart
           /\ pc' = "fill" /\ UNCHANGED <<S, R, Step, Start, End, Off, op, look, pos, out>>
Finish == pc = "idle" /\ cur + Step > End - Off /\ pc' = "done" /\ UNCHANGED <<S, R, Step, Start, End, Off, op, cur, win, look, pos, out>>

\* ---- fillWindow: one iteration of its loop per action
Emit == out' = Append(out, [t |-> cur + Off, ids |-> win']) /\ pc' = "idle"
TakeBuffered ==                                                     \* the look-ahead sample is examined first
  /\ pc = "fill" /\ look # 0
  /\ IF S[look] > cur THEN win' = win /\ Emit /\ UNCHANGED <<look, pos>>                     \* still later: stays buffered
     ELSE IF S[look] < cur - R THEN win' = win /\ look' = 0 /\ UNCHANGED <<pos, out, pc>>    \* before the window: skipped for good
     ELSE win' = win \cup {look} /\ look' = 0 /\ UNCHANGED <<pos, out, pc>>
  /\ UNCHANGED <<S, R, Step, Start, End, Off, op, cur>>
ReadNext ==
  /\ pc = "fill" /\ look = 0 /\ pos <= Len(S)
  /\ pos' = pos + 1
  /\ IF S[pos] > cur THEN look' = pos /\ win' = win /\ Emit
     ELSE IF S[pos] < cur - R THEN UNCHANGED <<win, look, out, pc>>
     ELSE win' = win \cup {pos} /\ UNCHANGED <<look, out, pc>>
  /\ UNCHANGED <<S, R, Step, Start, End, Off, op, cur>>
Exhausted == pc = "fill" /\ look = 0 /\ pos > Len(S) /\ win' = win /\ Emit /\ UNCHANGED <<S, R, Step, Start, End, Off, op, cur, look, pos>>

Next == AddSample \/ ChooseParams \/ Begin \/ Advance \/ Finish \/ TakeBuffered \/ ReadNext \/ Exhausted

\* ---- properties
Window(T) == {i \in DOMAIN S : T - Off - R <= S[i] /\ S[i] <= T - Off}
Grid == {Start + k * Step : k \in 0..((End - Start) \div Step)}
\* every emitted step covers exactly its window and carries the evaluation time
WindowExact == \A k \in DOMAIN out : out[k].ids = Window(out[k].t)
StampOnGrid == \A k \in DOMAIN out : out[k].t = Start + (k - 1) * Step
GridComplete == pc = "done" => {out[k].t : k \in DOMAIN out} = Grid
\* the look-ahead sample is never lost: whatever was read and is not in the window or buffered is behind the window for good
NoSampleLost == pc = "idle" /\ out # <<>> => \A i \in 1..(pos - 1) : i \in win \/ i = look \/ S[i] < cur - R
=============================================================================
