-------------------------------- MODULE Num --------------------------------
(* Exact small rationals [n |-> Int, d |-> Nat \ {0}] and the three literal grammars label filters and
   unwrap conversions read: plain numbers (strconv.ParseFloat), durations (time.ParseDuration) and byte
   sizes (humanize.ParseBytes).  Each parser is three-valued:
     [k |-> "val", n, d]   the text is in the modelled sub-grammar and denotes n/d
     [k |-> "bad"]         the text is certainly rejected by the real parser
     [k |-> "unspec"]      outside the modelled sub-grammar: the specification allows either outcome
   All intermediate values must fit 31 bits: generators keep literals short. *)
EXTENDS Integers, Sequences

IsDig(x) == x >= 48 /\ x <= 57
IsLower(x) == x >= 97 /\ x <= 122
IsUpper(x) == x >= 65 /\ x <= 90
ToLower(x) == IF IsUpper(x) THEN x + 32 ELSE x
AllDigits(s) == \A i \in DOMAIN s : IsDig(s[i])
RECURSIVE DigitsVal(_)
DigitsVal(s) == IF s = <<>> THEN 0 ELSE DigitsVal(SubSeq(s, 1, Len(s) - 1)) * 10 + (s[Len(s)] - 48)
RECURSIVE Pow10(_)
Pow10(k) == IF k = 0 THEN 1 ELSE 10 * Pow10(k - 1)

RECURSIVE Gcd(_, _)
Gcd(a, b) == IF b = 0 THEN a ELSE Gcd(b, a % b)
Abs(x) == IF x < 0 THEN 0 - x ELSE x
Norm(n, d) == LET g == Gcd(Abs(n), d) IN IF g = 0 THEN [n |-> 0, d |-> 1] ELSE [n |-> n \div g, d |-> d \div g]
Rat(n, d) == Norm(n, d)
\* (lowest common denominator / cross-reduction first: intermediate products must stay below 2^31)
RAdd(a, b) == LET g == Gcd(a.d, b.d) IN Norm(a.n * (b.d \div g) + b.n * (a.d \div g), (a.d \div g) * b.d)
RMulInt(a, k) == Norm(a.n * k, a.d)
RLt(a, b) == LET g == Gcd(a.d, b.d) IN a.n * (b.d \div g) < b.n * (a.d \div g)
RLe(a, b) == LET g == Gcd(a.d, b.d) IN a.n * (b.d \div g) <= b.n * (a.d \div g)
REq(a, b) == LET g == Gcd(a.d, b.d) IN a.n * (b.d \div g) = b.n * (a.d \div g)
RCmp(op, a, b) == CASE op = "eq"  -> REq(a, b)
                    [] op = "neq" -> ~REq(a, b)
                    [] op = "lt"  -> RLt(a, b)
                    [] op = "lte" -> RLe(a, b)
                    [] op = "gt"  -> RLt(b, a)
                    [] op = "gte" -> RLe(b, a)

\* can a and b be compared within 31 bits?
CmpFits(a, b) == LET g == Gcd(a.d, b.d)
                     Fits(x, y) == x = 0 \/ y = 0 \/ x <= 2000000000 \div y
                 IN Fits(Abs(a.n), b.d \div g) /\ Fits(Abs(b.n), a.d \div g)
Val(r) == [k |-> "val", n |-> r.n, d |-> r.d]
BadV == [k |-> "bad", n |-> 0, d |-> 1]
UnspecV == [k |-> "unspec", n |-> 0, d |-> 1]

\* index of the first position >= i whose byte is not in [0-9.]
RECURSIVE NumEnd(_, _)
NumEnd(s, i) == IF i <= Len(s) /\ (IsDig(s[i]) \/ s[i] = 46) THEN NumEnd(s, i + 1) ELSE i
RECURSIVE AlphaEnd(_, _)
AlphaEnd(s, i) == IF i <= Len(s) /\ (IsLower(s[i]) \/ IsUpper(s[i])) THEN AlphaEnd(s, i + 1) ELSE i
DotCount(s) == Len(SelectSeq(s, LAMBDA x : x = 46))
DotIndex(s) == CHOOSE i \in DOMAIN s : s[i] = 46 /\ \A j \in 1..(i - 1) : s[j] # 46

\* unsigned decimal "12" or "12.5" with at most 7 digits in total: [ok, n, d]
Dec(s) ==
  IF s = <<>> \/ Len(s) > 8 THEN [ok |-> FALSE, n |-> 0, d |-> 1]
  ELSE IF DotCount(s) = 0 THEN [ok |-> AllDigits(s) /\ Len(s) <= 7, n |-> IF AllDigits(s) /\ Len(s) <= 7 THEN DigitsVal(s) ELSE 0, d |-> 1]
  ELSE IF DotCount(s) > 1 THEN [ok |-> FALSE, n |-> 0, d |-> 1]
  ELSE LET i == DotIndex(s)
           ip == SubSeq(s, 1, i - 1)
           fp == SubSeq(s, i + 1, Len(s))
           good == ip # <<>> /\ fp # <<>> /\ AllDigits(ip) /\ AllDigits(fp)
       IN [ok |-> good, n |-> IF good THEN DigitsVal(ip \o fp) ELSE 0, d |-> IF good THEN Pow10(Len(fp)) ELSE 1]

\* unsigned mantissa as ParseFloat / ParseDuration read it: "12", "12.5", ".5", "5." (at least one digit, at most 7): [ok, n, d]
Mant(s) ==
  IF s = <<>> \/ Len(s) > 8 \/ DotCount(s) > 1 THEN [ok |-> FALSE, n |-> 0, d |-> 1]
  ELSE IF DotCount(s) = 0 THEN Dec(s)
  ELSE LET i == DotIndex(s)
           ip == SubSeq(s, 1, i - 1)
           fp == SubSeq(s, i + 1, Len(s))
           good == (ip # <<>> \/ fp # <<>>) /\ AllDigits(ip) /\ AllDigits(fp)
       IN [ok |-> good, n |-> IF good THEN DigitsVal(ip \o fp) ELSE 0, d |-> IF good THEN Pow10(Len(fp)) ELSE 1]

\* ---- strconv.ParseFloat(s, 64): [+-]? mantissa ([eE] [+-]? digits)?   (inf, nan, hexadecimal and underscores are not modelled)
NumStarters == {43, 45, 46, 105, 73, 110, 78} \cup 48..57       \* + - . i I n N digits
ExpIndex(s) == IF \E i \in DOMAIN s : s[i] \in {101, 69} THEN CHOOSE i \in DOMAIN s : s[i] \in {101, 69} /\ \A j \in 1..(i - 1) : s[j] \notin {101, 69} ELSE 0
\* m * 10^k for a small exponent, as long as numerator and denominator stay below 10^9
Scale10(m, k) == IF k >= 0 THEN (IF m.n = 0 THEN [ok |-> TRUE, r |-> [n |-> 0, d |-> 1]]
                                 ELSE IF k <= 8 /\ m.n < Pow10(9 - k) THEN [ok |-> TRUE, r |-> Norm(m.n * Pow10(k), m.d)] ELSE [ok |-> FALSE, r |-> m])
                 ELSE IF 0 - k <= 8 /\ m.d < Pow10(9 + k) THEN [ok |-> TRUE, r |-> Norm(m.n, m.d * Pow10(0 - k))] ELSE [ok |-> FALSE, r |-> m]
ParseNum(s) ==
  IF s = <<>> THEN BadV
  ELSE IF s[1] \notin NumStarters THEN BadV
  ELSE LET neg == s[1] = 45
           body == IF s[1] \in {43, 45} THEN Tail(s) ELSE s
           e == ExpIndex(body)
           mant == Mant(IF e = 0 THEN body ELSE SubSeq(body, 1, e - 1))
           ex == IF e = 0 THEN <<>> ELSE SubSeq(body, e + 1, Len(body))
           eneg == ex # <<>> /\ ex[1] = 45
           edig == IF ex # <<>> /\ ex[1] \in {43, 45} THEN Tail(ex) ELSE ex
           eok == e = 0 \/ (edig # <<>> /\ AllDigits(edig) /\ Len(edig) <= 2)
           k == IF e = 0 \/ ~eok THEN 0 ELSE IF eneg THEN 0 - DigitsVal(edig) ELSE DigitsVal(edig)
           sc == Scale10([n |-> mant.n, d |-> mant.d], k)
       IN IF mant.ok /\ eok /\ sc.ok THEN Val(Norm(IF neg THEN 0 - sc.r.n ELSE sc.r.n, sc.r.d)) ELSE UnspecV

\* ---- time.ParseDuration(s): [+-]? (number unit)+ ; modelled units: ns us ms s m h; value in seconds.
\* The result is a whole number of nanoseconds: spellings with a finer fraction are not modelled.
UnitSec(u) == CASE u = <<110, 115>> -> [ok |-> TRUE, n |-> 1, d |-> 1000000000]
                [] u = <<117, 115>> -> [ok |-> TRUE, n |-> 1, d |-> 1000000]
                [] u = <<109, 115>> -> [ok |-> TRUE, n |-> 1, d |-> 1000]
                [] u = <<115>>      -> [ok |-> TRUE, n |-> 1, d |-> 1]
                [] u = <<109>>      -> [ok |-> TRUE, n |-> 60, d |-> 1]
                [] u = <<104>>      -> [ok |-> TRUE, n |-> 3600, d |-> 1]
                [] OTHER            -> [ok |-> FALSE, n |-> 0, d |-> 1]
\* a product of small factors that stays below 2^31 (else the spelling is left unmodelled)
MulFits(a, b) == a = 0 \/ b = 0 \/ (a < 2000000 /\ b < 1000) \/ (a < 1000 /\ b < 2000000) \/ (a < 40000 /\ b < 40000)
RECURSIVE DurFrom(_, _, _)
DurFrom(s, i, acc) ==
  IF i > Len(s) THEN (IF 1000000000 % acc.d = 0 THEN Val(acc) ELSE UnspecV)
  ELSE LET j == NumEnd(s, i)
           k == AlphaEnd(s, j)
           num == Mant(SubSeq(s, i, j - 1))
           u == UnitSec(SubSeq(s, j, k - 1))
           fits == j # i /\ k # j /\ num.ok /\ u.ok /\ MulFits(num.n, u.n) /\ num.d <= 1000 /\ (num.d = 1 \/ u.d <= 1000000)
           term == IF fits THEN Norm(num.n * u.n, num.d * u.d) ELSE [n |-> 0, d |-> 1]
           g == Gcd(acc.d, term.d)
           \* the sum acc + term must be computable within 31 bits
           Small(a, b) == a = 0 \/ b = 0 \/ a <= 1000000000 \div b
           addable == Small(Abs(acc.n), term.d \div g) /\ Small(term.n, acc.d \div g) /\ Small(acc.d \div g, term.d)
       IN IF ~fits \/ ~addable THEN UnspecV
          ELSE DurFrom(s, k, RAdd(acc, term))
ParseDur(s) ==
  IF s = <<>> THEN BadV
  ELSE IF s[1] \notin ({43, 45, 46} \cup 48..57) THEN BadV
  ELSE IF s[1] \in {43, 45}
    THEN (IF Len(s) = 1 THEN BadV
          ELSE LET r == DurFrom(Tail(s), 1, [n |-> 0, d |-> 1]) IN
               IF r.k = "val" /\ s[1] = 45 THEN Val([n |-> 0 - r.n, d |-> r.d]) ELSE r)
  ELSE DurFrom(s, 1, [n |-> 0, d |-> 1])

\* ---- humanize.ParseBytes(s): digits then a unit, case-insensitive; modelled units: "" b kb kib mb mib
ByteMult(u) == LET lu == [i \in DOMAIN u |-> ToLower(u[i])] IN
               CASE lu = <<>>              -> 1
                 [] lu = <<98>>            -> 1
                 [] lu = <<107, 98>>       -> 1000
                 [] lu = <<107, 105, 98>>  -> 1024
                 [] lu = <<109, 98>>       -> 1000000
                 [] lu = <<109, 105, 98>>  -> 1048576
                 [] OTHER                  -> 0
ParseBytes(s) ==
  IF s = <<>> THEN BadV
  ELSE IF ~(IsDig(s[1]) \/ s[1] \in {46, 44}) THEN BadV
  ELSE LET j == NumEnd(s, 1)
           digits == SubSeq(s, 1, j - 1)
           unit == SubSeq(s, j, Len(s))
           m == ByteMult(unit)
           \* a fraction is modelled when the product is still exact in binary floating point: halves and quarters
           fr == Mant(digits)
           exact == fr.ok /\ fr.d \in {1, 2, 4, 10, 100} /\ fr.n < 1000 /\ (fr.d \in {10, 100} => (fr.n * 4) % fr.d = 0)
       IN IF exact /\ m > 0 /\ AlphaEnd(s, j) = Len(s) + 1
            THEN Val([n |-> (fr.n * m) \div fr.d, d |-> 1]) ELSE UnspecV
=============================================================================
