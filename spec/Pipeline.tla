------------------------------ MODULE Pipeline ------------------------------
(* Meaning of LogQL pipeline stages on one record (C01 C19 C08; parser/rewriter stages C06 C07).
   Anchors: internal/logql/logqlengine/{processor,line_filter,label_filter,string_matcher,comparator,
   distinct,logfmt,drop,keep,label_set}.go.
   A label set is a set of <<name, value>> pairs (byte strings) with unique names.
   A record is [id, ts, line, attrs (sequence of <<name, value>>), doc (sequence of <<key, value>>)].
   Stage(st, mem, ts, line, L) = [keep, line, L, mem]; mem is the memory of stateful stages (distinct). *)
EXTENDS Integers, Sequences, FiniteSets, Bytes, Regex, Labels, Names, Num, JsonDoc, Tmpl, Pattern, Ip

PairsOf(seq) == {seq[i] : i \in DOMAIN seq}
NamesOf(L) == {p[1] : p \in L}
Has(L, n) == n \in NamesOf(L)
Get(L, n) == IF Has(L, n) THEN (CHOOSE p \in L : p[1] = n)[2] ELSE <<>>
Fld(r, f, default) == IF f \in DOMAIN r THEN r[f] ELSE default      \* optional record field
Set(L, n, v) == {p \in L : p[1] # n} \cup {<<n, v>>}
Del(L, n) == {p \in L : p[1] # n}
\* the first error wins; its text is left open: the specification only tracks that an error is flagged
ErrMark == <<63>>
SetError(L) == IF Has(L, S_error) THEN L ELSE Set(Set(L, S_error, ErrMark), S_error_details, ErrMark)

\* labels a record starts with (LabelSet.SetFromRecord): trace_id / span_id (hexadecimal, when not all zero), level (the
\* severity's name, when specified), msg = body (when not empty); then its own attributes, the scope's, the resource's,
\* each layer under sanitised names and overriding what is there.  Attribute values that are integers, doubles or
\* booleans are labels holding their text (the case gives it: `typed`).
HexLow(n) == IF n < 10 THEN 48 + n ELSE 87 + n
RECURSIVE HexOfBytes(_)
HexOfBytes(b) == IF b = <<>> THEN <<>> ELSE <<HexLow(b[1] \div 16), HexLow(b[1] % 16)>> \o HexOfBytes(Tail(b))
NonZeroId(b) == \E i \in DOMAIN b : b[i] # 0
SevName(n) == LET k == (n - 1) \div 4
                  i == ((n - 1) % 4) + 1
                  nm == CASE k = 0 -> <<84, 114, 97, 99, 101>> [] k = 1 -> <<68, 101, 98, 117, 103>> [] k = 2 -> <<73, 110, 102, 111>>
                          [] k = 3 -> <<87, 97, 114, 110>> [] k = 4 -> <<69, 114, 114, 111, 114>> [] k = 5 -> <<70, 97, 116, 97, 108>>
              IN IF i = 1 THEN nm ELSE Append(nm, 48 + i)
Layer(L, pairs) == LET new == {<<Sanitize(p[1]), p[2]>> : p \in PairsOf(pairs)} IN new \cup {p \in L : p[1] \notin NamesOf(new)}
RecordLabels(r) == LET b1 == IF NonZeroId(Fld(r, "trace", <<>>)) THEN {<<S_trace_id, HexOfBytes(r.trace)>>} ELSE {}
                       b2 == IF NonZeroId(Fld(r, "span", <<>>)) THEN {<<S_span_id, HexOfBytes(r.span)>>} ELSE {}
                       b3 == IF Fld(r, "sev", 0) \in 1..24 THEN {<<S_level, SevName(r.sev)>>} ELSE {}
                       b4 == IF r.line = <<>> THEN {} ELSE {<<S_msg, r.line>>}
                       typed == [k \in DOMAIN Fld(r, "typed", <<>>) |-> <<r.typed[k].k, r.typed[k].v>>]
                   IN Layer(Layer(Layer(b1 \cup b2 \cup b3 \cup b4, r.attrs \o typed), Fld(r, "scope", <<>>)), Fld(r, "res", <<>>))

\* ---- string matchers
LineMatch(op, val, re, line) == CASE op = "eq"  -> Contains(line, val)
                                  [] op = "neq" -> ~Contains(line, val)
                                  [] op = "re"  -> Search(re, line)
                                  [] op = "nre" -> ~Search(re, line)
ValueMatch(op, val, re, v) == CASE op = "eq"  -> v = val
                                [] op = "neq" -> v # val
                                [] op = "re"  -> FullMatch(re, v)
                                [] op = "nre" -> ~FullMatch(re, v)

\* ---- label predicates: result [keep, L, open]; open = TRUE when the outcome is outside the modelled grammar
Parse(kind, s) == CASE kind = "num" -> ParseNum(s) [] kind = "dur" -> ParseDur(s) [] kind = "bytes" -> ParseBytes(s)

RECURSIVE Pred(_, _)
Pred(p, L) ==
  CASE p.t = "m" -> [keep |-> ValueMatch(p.op, p.val, p.re, Get(L, p.label)), L |-> L, open |-> FALSE]
    [] p.t \in {"num", "dur", "bytes"} ->
         IF ~Has(L, p.label) THEN [keep |-> FALSE, L |-> L, open |-> FALSE]             \* no such label: drop
         ELSE LET v == Parse(p.t, Get(L, p.label)) IN
              IF v.k = "bad" THEN [keep |-> TRUE, L |-> SetError(L), open |-> FALSE]     \* unparsable: keep, flag
              ELSE IF v.k = "unspec" \/ ~CmpFits([n |-> v.n, d |-> v.d], Norm(p.val[1], p.val[2])) THEN [keep |-> TRUE, L |-> L, open |-> TRUE]
              \* (the literal's pair is reduced first: products in the comparison must stay within 31 bits)
              ELSE [keep |-> RCmp(p.op, [n |-> v.n, d |-> v.d], Norm(p.val[1], p.val[2])), L |-> L, open |-> FALSE]
    \* addr = ip("..."): no such label: drop; a value that is no address: keep and flag
    [] p.t = "ip" ->
         IF ~Has(L, p.label) THEN [keep |-> FALSE, L |-> L, open |-> FALSE]
         ELSE LET v == Get(L, p.label) a == ParseIP(v) IN
              IF a.open THEN [keep |-> TRUE, L |-> L, open |-> TRUE]
              ELSE IF ~a.ok THEN [keep |-> TRUE, L |-> SetError(L), open |-> FALSE]
              ELSE [keep |-> IpMatch(p.ipat, a.a) = (p.op = "eq"), L |-> L, open |-> FALSE]
    [] p.t = "paren" -> Pred(p.a, L)
    [] p.t = "and" -> LET a == Pred(p.a, L) IN
                      IF ~a.keep /\ ~a.open THEN a
                      ELSE LET b == Pred(p.b, a.L) IN [keep |-> a.keep /\ b.keep, L |-> b.L, open |-> a.open \/ b.open]
    [] p.t = "or"  -> LET a == Pred(p.a, L) IN
                      IF a.keep /\ ~a.open THEN a
                      ELSE LET b == Pred(p.b, a.L) IN [keep |-> a.keep \/ b.keep, L |-> b.L, open |-> a.open \/ b.open]

\* the literal of a comparison denotes what the case says it denotes (environment check)
RECURSIVE PredWellFormed(_)
PredWellFormed(p) ==
  CASE p.t = "m" -> (p.op \in {"re", "nre"} => p.val = ReText(p.re))
    [] p.t \in {"num", "dur", "bytes"} -> LET v == Parse(p.t, p.lit) IN v.k = "val" /\ REq([n |-> v.n, d |-> v.d], [n |-> p.val[1], d |-> p.val[2]])
    [] p.t = "ip" -> IpPatWellFormed(p.ipat) /\ IpPatDenotes(p.val, p.ipat) /\ p.op \in {"eq", "neq"}
    [] p.t = "paren" -> PredWellFormed(p.a)
    [] p.t \in {"and", "or"} -> PredWellFormed(p.a) /\ PredWellFormed(p.b)

\* ---- logfmt documents: the record carries its document; the line is its canonical encoding k=v k=v
RECURSIVE EncLogfmt(_)
EncLogfmt(doc) == IF doc = <<>> THEN <<>>
                  ELSE doc[1][1] \o <<61>> \o doc[1][2] \o (IF Len(doc) = 1 THEN <<>> ELSE <<32>> \o EncLogfmt(Tail(doc)))
RECURSIVE SetAll(_, _)
SetAll(L, doc) == IF doc = <<>> THEN L ELSE SetAll(Set(L, doc[1][1], doc[1][2]), Tail(doc))     \* later duplicate wins


\* ---- logfmt with quoting: a value is quoted when it is empty or contains a space, a quote or an equals sign
NeedsQuote(v) == v = <<>> \/ \E i \in DOMAIN v : v[i] \in {32, 34, 61}
EncLogfmtVal(v) == IF NeedsQuote(v) THEN EncStr(v) ELSE v
RECURSIVE EncLogfmtQ(_)
EncLogfmtQ(doc) == IF doc = <<>> THEN <<>>
                   ELSE doc[1][1] \o <<61>> \o EncLogfmtVal(doc[1][2]) \o (IF Len(doc) = 1 THEN <<>> ELSE <<32>> \o EncLogfmtQ(Tail(doc)))

\* ---- json: what the document's fields become
RECURSIVE JsonAll(_, _, _)       \* (fields, L, vopen) -> [L, vopen]; sanitised key; null: no label; nested: present, value open
JsonAll(fs, L, vo) == IF fs = <<>> THEN [L |-> L, vopen |-> vo]
                      ELSE LET key == Sanitize(fs[1][1]) v == fs[1][2] IN
                           IF v.k = "null" THEN JsonAll(Tail(fs), L, vo)
                           ELSE IF IsScalar(v) THEN JsonAll(Tail(fs), Set(L, key, ScalarText(v)), vo \ {key})
                           ELSE JsonAll(Tail(fs), Set(L, key, <<>>), vo \cup {key})
RECURSIVE JsonSome(_, _, _, _)   \* only the exact key names listed; the key is the label name
JsonSome(fs, want, L, vo) == IF fs = <<>> THEN [L |-> L, vopen |-> vo]
                             ELSE LET key == fs[1][1] v == fs[1][2] IN
                                  IF key \notin want \/ v.k = "null" THEN JsonSome(Tail(fs), want, L, vo)
                                  ELSE IF IsScalar(v) THEN JsonSome(Tail(fs), want, Set(L, key, ScalarText(v)), vo \ {key})
                                  ELSE JsonSome(Tail(fs), want, Set(L, key, <<>>), vo \cup {key})
RECURSIVE JsonPaths(_, _, _, _, _, _)   \* (exprs <<label, path>>, doc, canon, L, vopen, opt)
JsonPaths(es, doc, canon, L, vo, op) ==
  IF es = <<>> THEN [L |-> L, vopen |-> vo, opt |-> op]
  ELSE LET lb == es[1].label w == Walk(doc, es[1].path) IN
       IF w.dup THEN JsonPaths(Tail(es), doc, canon, IF Has(L, lb) THEN L ELSE Set(L, lb, <<>>), vo \cup {lb}, IF Has(L, lb) THEN op ELSE op \cup {lb})
       ELSE IF ~w.found THEN JsonPaths(Tail(es), doc, canon, IF Has(L, lb) THEN L ELSE Set(L, lb, <<>>), vo, IF Has(L, lb) THEN op ELSE op \cup {lb})   \* missing path: absent or empty
       ELSE IF IsScalar(w.v) THEN JsonPaths(Tail(es), doc, canon, Set(L, lb, ScalarText(w.v)), vo \ {lb}, op \ {lb})
       ELSE IF canon THEN JsonPaths(Tail(es), doc, canon, Set(L, lb, EncJson(w.v)), vo \ {lb}, op \ {lb})                \* containers: their raw text
       ELSE JsonPaths(Tail(es), doc, canon, Set(L, lb, <<>>), vo \cup {lb}, op \ {lb})
RECURSIVE UnpackFields(_, _, _)   \* string fields become labels, _entry the line, other types are ignored
UnpackFields(fs, L, line) == IF fs = <<>> THEN [L |-> L, line |-> line]
                             ELSE IF fs[1][2].k # "str" THEN UnpackFields(Tail(fs), L, line)
                             ELSE IF fs[1][1] = S_entry THEN UnpackFields(Tail(fs), L, fs[1][2].s)
                             ELSE UnpackFields(Tail(fs), Set(L, fs[1][1], fs[1][2].s), line)
RECURSIVE LogfmtSome(_, _, _)     \* (doc, mapping <<key, label>>, L)
LogfmtSome(doc, mp, L) == IF doc = <<>> THEN L
                          ELSE LET hits == {k \in DOMAIN mp : mp[k].key = doc[1][1]} IN
                               LogfmtSome(Tail(doc), mp, IF hits = {} THEN L ELSE Set(L, mp[CHOOSE k \in hits : TRUE].label, doc[1][2]))

\* ---- label_format / drop / keep / decolorize
RECURSIVE ApplyRenames(_, _)      \* <<dst, src>> pairs in order: src's value moves to dst
ApplyRenames(rs, L) == IF rs = <<>> THEN L
                       ELSE LET dst == rs[1].dst src == rs[1].src IN
                            ApplyRenames(Tail(rs), IF Has(L, src) THEN Set(Del(L, src), dst, Get(L, src)) ELSE L)
RECURSIVE ApplyTmpls(_, _, _, _)  \* all templates read ONE snapshot (after the renames); a failing one flags __error__ and sets nothing
ApplyTmpls(ts, snap, L, line) == IF ts = <<>> THEN L
                                 ELSE IF Fails(ts[1].parts) THEN ApplyTmpls(Tail(ts), snap, SetError(L), line)
                                 ELSE ApplyTmpls(Tail(ts), snap, Set(L, ts[1].dst, Expand(ts[1].parts, LAMBDA n : Get(snap, n), line)), line)
MatchersFor(ms, name) == SelectSeq(ms, LAMBDA m : m.label = name)
\* a label is selected by a drop/keep list when it is named plainly, or has value matchers and all of them hold
Selected(st, p) == LET ms == MatchersFor(Fld(st, "matchers", <<>>), p[1]) IN
                   (p[1] \in PairsOf(st.labels) \/ ms # <<>>) /\ \A k \in DOMAIN ms : ValueMatch(ms[k].op, ms[k].val, ms[k].re, p[2])
\* delete every colour (SGR) sequence CSI (digits and ;)* m and nothing else; CSI is ESC [ or the 8-bit U+009B (C2 9B in UTF-8)
IsCsi(s, i) == i + 1 <= Len(s) /\ ((s[i] = 27 /\ s[i + 1] = 91) \/ (s[i] = 194 /\ s[i + 1] = 155))
RECURSIVE SgrEnd(_, _)
SgrEnd(s, i) == IF i <= Len(s) /\ (IsDig(s[i]) \/ s[i] = 59) THEN SgrEnd(s, i + 1) ELSE i
RECURSIVE StripSGR(_, _)
StripSGR(s, i) == IF i > Len(s) THEN <<>>
                  ELSE IF IsCsi(s, i) /\ SgrEnd(s, i + 2) <= Len(s) /\ s[SgrEnd(s, i + 2)] = 109
                    THEN StripSGR(s, SgrEnd(s, i + 2) + 1)
                  ELSE <<s[i]>> \o StripSGR(s, i + 1)

DistinctLabels(st) == IF "labels" \in DOMAIN st /\ st.labels # <<>> THEN st.labels ELSE <<st.label>>
RECURSIVE DistinctWalk(_, _, _, _)
DistinctWalk(ls, k, L, mem) ==
  IF k > Len(ls) THEN [keep |-> k > 1, mem |-> mem]
  ELSE IF ~Has(L, ls[k]) THEN [keep |-> TRUE, mem |-> mem]
  ELSE LET key == <<ls[k], Get(L, ls[k])>> IN
       IF key \in mem THEN [keep |-> FALSE, mem |-> mem] ELSE DistinctWalk(ls, k + 1, L, mem \cup {key})

\* ---- one stage.  Result: keep, line, L, mem; open: the step is outside the modelled grammar (entry not compared);
\* lopen: labels unconstrained (malformed input: only __error__ is required); vopen: names whose VALUE is left open;
\* opt: names that may be absent (if present they carry the stated value)
R0(keep, line, L, mem, open) == [keep |-> keep, line |-> line, L |-> L, mem |-> mem, open |-> open, lopen |-> FALSE, vopen |-> {}, opt |-> {}]
Malformed(line, L, mem) == [keep |-> TRUE, line |-> line, L |-> SetError(L), mem |-> mem, open |-> FALSE, lopen |-> TRUE, vopen |-> {}, opt |-> {}]
\* the ground truth of a parser stage is the document the ORIGINAL line encodes: once an earlier stage rewrote the line,
\* what a document parser extracts from the new text is outside the model (the entry is then not compared)
Rewritten(rec, line) == line # rec.line
Stage(st, mem, rec, line, L) ==
  CASE st.t \in {"logfmt", "json", "unpack"} /\ Rewritten(rec, line) -> R0(TRUE, line, L, mem, TRUE)
    \* an ip("...") needle: the line passes |= when it holds an address the pattern accepts, != is the complement;
    \* a pattern given without its structure (no ipat) is outside the modelled grammar
    [] st.t = "line" -> IF ~Fld(st, "ip", FALSE) THEN R0(LineMatch(st.op, st.val, st.re, line), line, L, mem, FALSE)
                        ELSE IF Fld(st, "ipat", <<>>) = <<>> THEN R0(TRUE, line, L, mem, TRUE)
                        ELSE R0(LineHasIp(st.ipat, line) = (st.op = "eq"), line, L, mem, FALSE)
    [] st.t = "label" -> LET r == Pred(st.pred, L) IN R0(r.keep, line, r.L, mem, r.open)
    [] st.t = "logfmt" ->
         IF Fld(rec, "lmal", FALSE) THEN Malformed(line, L, mem)
         ELSE IF Fld(st, "labels", <<>>) = <<>> /\ Fld(st, "lexprs", <<>>) = <<>> THEN R0(TRUE, line, SetAll(L, rec.doc), mem, line # EncLogfmt(rec.doc) /\ line # EncLogfmtQ(rec.doc))
         ELSE R0(TRUE, line, LogfmtSome(rec.doc, [k \in DOMAIN Fld(st, "labels", <<>>) |-> [key |-> st.labels[k], label |-> st.labels[k]]] \o Fld(st, "lexprs", <<>>), L), mem,
                 line # EncLogfmt(rec.doc) /\ line # EncLogfmtQ(rec.doc))
    [] st.t = "json" ->
         IF rec.jmal \/ rec.jdoc.k # "obj" THEN Malformed(line, L, mem)
         ELSE IF st.exprs # <<>> THEN
                LET r == JsonPaths([k \in DOMAIN st.labels |-> [label |-> st.labels[k], path |-> << [t |-> "key", key |-> st.labels[k], i |-> 0] >>]] \o st.exprs,
                                   rec.jdoc, rec.jcanon, L, {}, {})
                IN [keep |-> TRUE, line |-> line, L |-> r.L, mem |-> mem, open |-> FALSE, lopen |-> FALSE, vopen |-> r.vopen, opt |-> r.opt]
         ELSE LET r == IF st.labels = <<>> THEN JsonAll(rec.jdoc.fields, L, {}) ELSE JsonSome(rec.jdoc.fields, PairsOf(st.labels), L, {})
              IN [keep |-> TRUE, line |-> line, L |-> r.L, mem |-> mem, open |-> FALSE, lopen |-> FALSE, vopen |-> r.vopen, opt |-> {}]
    [] st.t = "unpack" ->
         IF rec.jmal \/ rec.jdoc.k # "obj" THEN Malformed(line, L, mem)
         \* packed keys are label names; what happens to a key that is not one (1a, x y) is left open
         ELSE LET r == UnpackFields(rec.jdoc.fields, L, line)
                  odd == \E i \in DOMAIN rec.jdoc.fields : LET f == rec.jdoc.fields[i] IN
                            f[2].k = "str" /\ f[1] # S_entry /\ ~(f[1] # <<>> /\ ~IsDigit(f[1][1]) /\ f[1][1] # 46 /\ \A j \in DOMAIN f[1] : IsNameByte(f[1][j]) \/ f[1][j] = 46)
              IN R0(TRUE, r.line, r.L, mem, odd)
    [] st.t = "pattern" -> R0(TRUE, line, SetAll(L, PatMatch(st.parts, line)), mem, FALSE)
    \* regexp: the named groups of the leftmost-first match become labels (overriding); no match: nothing happens.
    \* A group that took no part in the match is set to the empty string by the code: left optional (and, over an existing
    \* label, open) - the property speaks of fields that are present
    [] st.t = "regexp" ->
         LET m == FirstMatch(st.re, line)
             names == CapNames(st.re)
             part(n) == \E t \in m.c : t[1] = n
             val(n) == LET t == CHOOSE t \in m.c : t[1] = n IN SubSeq(line, t[2], t[3] - 1)
             RECURSIVE Apply(_, _)
             Apply(k, LL) == IF k > Len(names) THEN LL ELSE Apply(k + 1, Set(LL, names[k], IF part(names[k]) THEN val(names[k]) ELSE <<>>))
             idle == {names[k] : k \in {k \in DOMAIN names : ~part(names[k])}}
         IN IF ~m.found THEN R0(TRUE, line, L, mem, FALSE)
            ELSE [keep |-> TRUE, line |-> line, L |-> Apply(1, L), mem |-> mem, open |-> FALSE, lopen |-> FALSE,
                  vopen |-> {n \in idle : Has(L, n)}, opt |-> idle]
    \* distinct l1, l2, ...: the labels are walked in order; a record lacking the label is kept at once, one whose value for
    \* that label was seen before is dropped at once, otherwise the value is remembered and the walk goes on
    \* (what was remembered for earlier labels stays remembered whatever happens at a later one)
    [] st.t = "distinct" -> LET w == DistinctWalk(DistinctLabels(st), 1, L, mem) IN R0(w.keep, line, L, w.mem, FALSE)
    [] st.t = "drop" -> R0(TRUE, line, {p \in L : ~Selected(st, p)}, mem, FALSE)
    [] st.t = "keep" -> R0(TRUE, line, {p \in L : Selected(st, p)}, mem, FALSE)
    [] st.t = "labelfmt" -> LET L1 == ApplyRenames(st.renames, L) IN R0(TRUE, line, ApplyTmpls(st.tmpls, L1, L1, line), mem, FALSE)
    [] st.t = "linefmt" -> IF Fails(st.parts) THEN R0(TRUE, line, SetError(L), mem, FALSE)
                           ELSE R0(TRUE, Expand(st.parts, LAMBDA n : Get(L, n), line), L, mem, FALSE)
    [] st.t = "decolorize" -> R0(TRUE, StripSGR(line, 1), L, mem, FALSE)

StageWellFormed(st) ==
  CASE st.t = "line" -> IF Fld(st, "ip", FALSE) /\ Fld(st, "ipat", <<>>) # <<>>
                          THEN IpPatWellFormed(st.ipat) /\ IpPatDenotes(st.val, st.ipat) /\ st.op \in {"eq", "neq"}
                          ELSE (st.op \in {"re", "nre"} => st.val = ReText(st.re))
    [] st.t = "label" -> PredWellFormed(st.pred)
    [] st.t \in {"drop", "keep"} -> LET ms == Fld(st, "matchers", <<>>) IN \A k \in DOMAIN ms : ms[k].op \in {"re", "nre"} => ms[k].val = ReText(ms[k].re)
    [] st.t = "labelfmt" -> \A k \in DOMAIN st.renames : st.renames[k].dst # st.renames[k].src
    \* the stage's text is its expression's rendering; group names are distinct; repetition bodies consume something
    [] st.t = "regexp" -> /\ st.val = ReText(st.re) /\ NonNullableReps(st.re) /\ CapNames(st.re) # <<>>
                          /\ \A i, j \in DOMAIN CapNames(st.re) : i # j => CapNames(st.re)[i] # CapNames(st.re)[j]
    [] OTHER -> TRUE

\* the text "| drop a != x" denotes a drop with a value matcher: a case must not mean "drop a" followed by a line filter
UnambiguousText(stages) == \A k \in 1..(Len(stages) - 1) :
                              stages[k].t \in {"drop", "keep"} /\ Fld(stages[k], "matchers", <<>>) = <<>> => ~(stages[k + 1].t = "line" /\ stages[k + 1].op \in {"neq", "nre"})

\* ---- a pipeline on one record: first rejecting stage ends it; mems[k] is the memory of stage k
\* (a stage that runs after labels became open/optional makes the whole entry open: cases put parsers last or alone)
RECURSIVE RunFrom(_, _, _, _, _, _, _, _)
RunFrom(stages, k, mems, rec, line, L, open, lo) ==
  IF k > Len(stages) THEN [keep |-> TRUE, line |-> line, L |-> L, mems |-> mems, open |-> open, lopen |-> lo.lopen, vopen |-> lo.vopen, opt |-> lo.opt]
  ELSE LET r == Stage(stages[k], mems[k], rec, line, L)
           mems2 == [mems EXCEPT ![k] = r.mem]
           loose == lo.lopen \/ lo.vopen # {} \/ lo.opt # {}
           lo2 == [lopen |-> lo.lopen \/ r.lopen, vopen |-> (lo.vopen \cup r.vopen), opt |-> (lo.opt \cup r.opt)]
       IN IF ~r.keep THEN [keep |-> FALSE, line |-> line, L |-> r.L, mems |-> mems2, open |-> open \/ r.open \/ (loose /\ stages[k].t \in {"label", "distinct", "keep", "drop", "labelfmt", "linefmt"}),
                           lopen |-> lo2.lopen, vopen |-> lo2.vopen, opt |-> lo2.opt]
          ELSE RunFrom(stages, k + 1, mems2, rec, r.line, r.L, open \/ r.open \/ (loose /\ stages[k].t \in {"label", "distinct", "keep", "drop", "labelfmt", "linefmt"}), lo2)
Run(stages, mems, rec) == RunFrom(stages, 1, mems, rec, rec.line, RecordLabels(rec), FALSE, [lopen |-> FALSE, vopen |-> {}, opt |-> {}])
EmptyMems(stages) == [k \in DOMAIN stages |-> {}]

\* ---- selector on a record (engine-side or storage-side: same meaning)
SelMatches(ms, rec) == \A k \in DOMAIN ms : ValueMatch(ms[k].op, ms[k].val, ms[k].re, Get(RecordLabels(rec), ms[k].label))

(* LogResult: the declarative meaning of a log query over records given in time order:
   a sequence of [id, line, L, open] for the records that pass the selector and the pipeline. *)
RECURSIVE ResultFrom(_, _, _, _, _)
ResultFrom(ms, stages, recs, i, mems) ==
  IF i > Len(recs) THEN <<>>
  ELSE IF ~SelMatches(ms, recs[i]) THEN ResultFrom(ms, stages, recs, i + 1, mems)
  ELSE LET r == Run(stages, mems, recs[i]) IN
       (IF r.keep THEN << [id |-> recs[i].id, ts |-> recs[i].ts, line |-> r.line, L |-> r.L, open |-> r.open, lopen |-> r.lopen, vopen |-> r.vopen, opt |-> r.opt] >> ELSE <<>>)
       \o ResultFrom(ms, stages, recs, i + 1, r.mems)
LogResult(ms, stages, recs) == ResultFrom(ms, stages, recs, 1, EmptyMems(stages))
\* does any evaluation step of the query fall outside the modelled grammar? (then only relations are checked)
RECURSIVE AnyOpenFrom(_, _, _, _, _)
AnyOpenFrom(ms, stages, recs, i, mems) ==
  IF i > Len(recs) THEN FALSE
  ELSE IF ~SelMatches(ms, recs[i]) THEN AnyOpenFrom(ms, stages, recs, i + 1, mems)
  ELSE LET r == Run(stages, mems, recs[i]) IN r.open \/ AnyOpenFrom(ms, stages, recs, i + 1, r.mems)
AnyOpen(ms, stages, recs) == AnyOpenFrom(ms, stages, recs, 1, EmptyMems(stages))
=============================================================================
