------------------------------ MODULE Pipeline ------------------------------
(* Meaning of LogQL pipeline stages on one record (C01 C19 C08; parser/rewriter stages C06 C07).
   Anchors: internal/logql/logqlengine/{processor,line_filter,label_filter,string_matcher,comparator,
   distinct,logfmt,drop,keep,label_set}.go.
   A label set is a set of <<name, value>> pairs (byte strings) with unique names.
   A record is [id, ts, line, attrs (sequence of <<name, value>>), doc (sequence of <<key, value>>)].
   Stage(st, mem, ts, line, L) = [keep, line, L, mem]; mem is the memory of stateful stages (distinct). *)
EXTENDS Integers, Sequences, FiniteSets, Bytes, Regex, Labels, Names, Num

PairsOf(seq) == {seq[i] : i \in DOMAIN seq}
NamesOf(L) == {p[1] : p \in L}
Has(L, n) == n \in NamesOf(L)
Get(L, n) == IF Has(L, n) THEN (CHOOSE p \in L : p[1] = n)[2] ELSE <<>>
Set(L, n, v) == {p \in L : p[1] # n} \cup {<<n, v>>}
Del(L, n) == {p \in L : p[1] # n}
\* the first error wins; its text is left open: the specification only tracks that an error is flagged
ErrMark == <<63>>
SetError(L) == IF Has(L, S_error) THEN L ELSE Set(Set(L, S_error, ErrMark), S_error_details, ErrMark)

\* labels a record starts with: msg = body (when not empty) plus its attributes under sanitised names
RecordLabels(r) == LET base == IF r.line = <<>> THEN {} ELSE {<<S_msg, r.line>>}
                       attrs == {<<Sanitize(p[1]), p[2]>> : p \in PairsOf(r.attrs)}
                   IN attrs \cup {p \in base : p[1] \notin NamesOf(attrs)}

\* ---- string matchers
LineMatch(op, val, re, line) == CASE op = "eq"  -> Contains(line, val)
                                  [] op = "neq" -> ~Contains(line, val)
                                  [] op = "re"  -> Search(re, line)
                                  [] op = "nre" -> ~Search(re, line)
ValueMatch(op, val, re, v) == CASE op = "eq"  -> v = val
                                [] op = "neq" -> v # val
                                [] op = "re"  -> FullMatch(re, v)
                                [] op = "nre" -> ~FullMatch(re, v)

\* ---- label predicates: result [keep, L, open]; open = TRUE when the outcome is outside the modelled grammar
Parse(kind, s) == CASE kind = "num" -> ParseNum(s) [] kind = "dur" -> ParseDur(s) [] kind = "bytes" -> ParseBytes(s)

RECURSIVE Pred(_, _)
Pred(p, L) ==
  CASE p.t = "m" -> [keep |-> ValueMatch(p.op, p.val, p.re, Get(L, p.label)), L |-> L, open |-> FALSE]
    [] p.t \in {"num", "dur", "bytes"} ->
         IF ~Has(L, p.label) THEN [keep |-> FALSE, L |-> L, open |-> FALSE]             \* no such label: drop
         ELSE LET v == Parse(p.t, Get(L, p.label)) IN
              IF v.k = "bad" THEN [keep |-> TRUE, L |-> SetError(L), open |-> FALSE]     \* unparsable: keep, flag
              ELSE IF v.k = "unspec" THEN [keep |-> TRUE, L |-> L, open |-> TRUE]
              ELSE [keep |-> RCmp(p.op, [n |-> v.n, d |-> v.d], [n |-> p.val[1], d |-> p.val[2]]), L |-> L, open |-> FALSE]
    [] p.t = "paren" -> Pred(p.a, L)
    [] p.t = "and" -> LET a == Pred(p.a, L) IN
                      IF ~a.keep /\ ~a.open THEN a
                      ELSE LET b == Pred(p.b, a.L) IN [keep |-> a.keep /\ b.keep, L |-> b.L, open |-> a.open \/ b.open]
    [] p.t = "or"  -> LET a == Pred(p.a, L) IN
                      IF a.keep /\ ~a.open THEN a
                      ELSE LET b == Pred(p.b, a.L) IN [keep |-> a.keep \/ b.keep, L |-> b.L, open |-> a.open \/ b.open]

\* the literal of a comparison denotes what the case says it denotes (environment check)
RECURSIVE PredWellFormed(_)
PredWellFormed(p) ==
  CASE p.t = "m" -> (p.op \in {"re", "nre"} => p.val = ReText(p.re))
    [] p.t \in {"num", "dur", "bytes"} -> LET v == Parse(p.t, p.lit) IN v.k = "val" /\ REq([n |-> v.n, d |-> v.d], [n |-> p.val[1], d |-> p.val[2]])
    [] p.t = "paren" -> PredWellFormed(p.a)
    [] p.t \in {"and", "or"} -> PredWellFormed(p.a) /\ PredWellFormed(p.b)

\* ---- logfmt documents: the record carries its document; the line is its canonical encoding k=v k=v
RECURSIVE EncLogfmt(_)
EncLogfmt(doc) == IF doc = <<>> THEN <<>>
                  ELSE doc[1][1] \o <<61>> \o doc[1][2] \o (IF Len(doc) = 1 THEN <<>> ELSE <<32>> \o EncLogfmt(Tail(doc)))
RECURSIVE SetAll(_, _)
SetAll(L, doc) == IF doc = <<>> THEN L ELSE SetAll(Set(L, doc[1][1], doc[1][2]), Tail(doc))     \* later duplicate wins

\* ---- one stage
Stage(st, mem, rec, line, L) ==
  CASE st.t = "line" -> [keep |-> LineMatch(st.op, st.val, st.re, line), line |-> line, L |-> L, mem |-> mem, open |-> FALSE]
    [] st.t = "label" -> LET r == Pred(st.pred, L) IN [keep |-> r.keep, line |-> line, L |-> r.L, mem |-> mem, open |-> r.open]
    [] st.t = "logfmt" -> [keep |-> TRUE, line |-> line, L |-> SetAll(L, rec.doc), mem |-> mem, open |-> line # EncLogfmt(rec.doc)]
    [] st.t = "distinct" ->
         IF ~Has(L, st.label) THEN [keep |-> TRUE, line |-> line, L |-> L, mem |-> mem, open |-> FALSE]
         ELSE LET v == Get(L, st.label) IN
              [keep |-> v \notin mem, line |-> line, L |-> L, mem |-> mem \cup {v}, open |-> FALSE]
    [] st.t = "drop" -> [keep |-> TRUE, line |-> line, L |-> {p \in L : p[1] \notin PairsOf(st.labels)}, mem |-> mem, open |-> FALSE]
    [] st.t = "keep" -> [keep |-> TRUE, line |-> line, L |-> {p \in L : p[1] \in PairsOf(st.labels)}, mem |-> mem, open |-> FALSE]

StageWellFormed(st) ==
  CASE st.t = "line" -> (st.op \in {"re", "nre"} => st.val = ReText(st.re))
    [] st.t = "label" -> PredWellFormed(st.pred)
    [] OTHER -> TRUE

\* the text "| drop a != x" denotes a drop with a value matcher: a case must not mean "drop a" followed by a line filter
UnambiguousText(stages) == \A k \in 1..(Len(stages) - 1) :
                              stages[k].t \in {"drop", "keep"} => ~(stages[k + 1].t = "line" /\ stages[k + 1].op \in {"neq", "nre"})

\* ---- a pipeline on one record: first rejecting stage ends it; mems[k] is the memory of stage k
RECURSIVE RunFrom(_, _, _, _, _, _, _)
RunFrom(stages, k, mems, rec, line, L, open) ==
  IF k > Len(stages) THEN [keep |-> TRUE, line |-> line, L |-> L, mems |-> mems, open |-> open]
  ELSE LET r == Stage(stages[k], mems[k], rec, line, L)
           mems2 == [mems EXCEPT ![k] = r.mem]
       IN IF ~r.keep THEN [keep |-> FALSE, line |-> line, L |-> r.L, mems |-> mems2, open |-> open \/ r.open]
          ELSE RunFrom(stages, k + 1, mems2, rec, r.line, r.L, open \/ r.open)
Run(stages, mems, rec) == RunFrom(stages, 1, mems, rec, rec.line, RecordLabels(rec), FALSE)
EmptyMems(stages) == [k \in DOMAIN stages |-> {}]

\* ---- selector on a record (engine-side or storage-side: same meaning)
SelMatches(ms, rec) == \A k \in DOMAIN ms : ValueMatch(ms[k].op, ms[k].val, ms[k].re, Get(RecordLabels(rec), ms[k].label))

(* LogResult: the declarative meaning of a log query over records given in time order:
   a sequence of [id, line, L, open] for the records that pass the selector and the pipeline. *)
RECURSIVE ResultFrom(_, _, _, _, _)
ResultFrom(ms, stages, recs, i, mems) ==
  IF i > Len(recs) THEN <<>>
  ELSE IF ~SelMatches(ms, recs[i]) THEN ResultFrom(ms, stages, recs, i + 1, mems)
  ELSE LET r == Run(stages, mems, recs[i]) IN
       (IF r.keep THEN << [id |-> recs[i].id, ts |-> recs[i].ts, line |-> r.line, L |-> r.L, open |-> r.open] >> ELSE <<>>)
       \o ResultFrom(ms, stages, recs, i + 1, r.mems)
LogResult(ms, stages, recs) == ResultFrom(ms, stages, recs, 1, EmptyMems(stages))
\* does any evaluation step of the query fall outside the modelled grammar? (then only relations are checked)
RECURSIVE AnyOpenFrom(_, _, _, _, _)
AnyOpenFrom(ms, stages, recs, i, mems) ==
  IF i > Len(recs) THEN FALSE
  ELSE IF ~SelMatches(ms, recs[i]) THEN AnyOpenFrom(ms, stages, recs, i + 1, mems)
  ELSE LET r == Run(stages, mems, recs[i]) IN r.open \/ AnyOpenFrom(ms, stages, recs, i + 1, r.mems)
AnyOpen(ms, stages, recs) == AnyOpenFrom(ms, stages, recs, 1, EmptyMems(stages))
=============================================================================
