---------------------------- MODULE Trace_Merge ----------------------------
(* C04, step 3.  One scenario = one inventory evaluated under several forced completion orders of the
   concurrent ContainerLogs calls (events Run .. RunEnd).  For every run: each Out(src, ts, msg) must be the
   next unread record of container src (per-source order, byte-exact), timestamps must be non-decreasing when
   every log is sorted, at Return every record has been delivered exactly once; and every run must deliver
   the same sequence as the first run (independence of the completion order).  The tie order among equal
   timestamps of different containers is left open (but must not vary between runs). *)
EXTENDS TraceCommon, FiniteSets

VARIABLES frames,    \* frames[c]: sequence of [ts, msg]
          pos, last, cur, ref, run, unsched, returned
fam == <<frames, pos, last, cur, ref, run, unsched, returned>>
vars == <<tcvars, fam>>

TsLeq(a, b) == a[1] < b[1] \/ (a[1] = b[1] /\ a[2] <= b[2])
SortedLog(fs) == \A k \in 1..(Len(fs) - 1) : TsLeq(fs[k].ts, fs[k + 1].ts)
AllSorted == \A c \in DOMAIN frames : SortedLog(frames[c])

Init == TCInit /\ frames = <<>> /\ pos = <<>> /\ last = <<0, 0>> /\ cur = <<>> /\ ref = <<>> /\ run = 0
        /\ unsched = FALSE /\ returned = FALSE

Start == Begin /\ frames' = [c \in DOMAIN Trace[l].in.ctrs |-> Trace[l].in.ctrs[c].frames]
         /\ pos' = [c \in DOMAIN Trace[l].in.ctrs |-> 0] /\ last' = <<0, 0>> /\ cur' = <<>> /\ ref' = <<>> /\ run' = 0
         /\ unsched' = FALSE /\ returned' = FALSE

EvRun == IsEv("Run") /\ Accept /\ pos' = [c \in DOMAIN frames |-> 0] /\ last' = <<0, 0>> /\ cur' = <<>> /\ run' = Ev.run
         /\ returned' = FALSE /\ UNCHANGED <<frames, ref, unsched>>

OutOk == /\ Ev.src \in DOMAIN frames /\ ~returned
         /\ pos[Ev.src] < Len(frames[Ev.src])
         /\ LET f == frames[Ev.src][pos[Ev.src] + 1] IN f.ts = Ev.ts /\ f.msg = Ev.msg
         /\ (AllSorted => TsLeq(last, Ev.ts))
EvOut == IsEv("Out") /\ OutOk /\ Accept /\ pos' = [pos EXCEPT ![Ev.src] = @ + 1] /\ last' = Ev.ts
         /\ cur' = Append(cur, Ev.src) /\ UNCHANGED <<frames, ref, run, unsched, returned>>

ReturnOk == ~returned /\ Ev.outcome = "ok" /\ \A c \in DOMAIN frames : pos[c] = Len(frames[c])
EvReturn == IsEv("Return") /\ ReturnOk /\ Accept /\ returned' = TRUE /\ UNCHANGED <<frames, pos, last, cur, ref, run, unsched>>

EvUnsched == IsEv("Unschedulable") /\ Accept /\ unsched' = TRUE /\ UNCHANGED <<frames, pos, last, cur, ref, run, returned>>

RunEndOk == returned /\ (run > 1 /\ ~unsched => cur = ref)
EvRunEnd == IsEv("RunEnd") /\ RunEndOk /\ Accept /\ ref' = (IF run = 1 THEN cur ELSE ref)
            /\ UNCHANGED <<frames, pos, last, cur, run, unsched, returned>>

Free == {"Query", "List", "ContainerLogs", "Release", "OpenOk", "Eof", "Close"}
EvFree == More /\ ~skip /\ Ev.ev \in Free /\ Accept /\ UNCHANGED fam

Explained == \/ Ev.ev \in Free \/ Ev.ev \in {"Run", "Unschedulable"}
             \/ Ev.ev = "Out" /\ OutOk
             \/ Ev.ev = "Return" /\ ReturnOk
             \/ Ev.ev = "RunEnd" /\ RunEndOk
Bad  == Reject /\ ~Explained /\ UNCHANGED fam
Next == Start \/ EvRun \/ EvOut \/ EvReturn \/ EvUnsched \/ EvRunEnd \/ EvFree \/ Bad
        \/ (Skipped /\ UNCHANGED fam) \/ (Finish /\ UNCHANGED fam)
TraceSpec == Init /\ [][Next]_vars
=============================================================================
