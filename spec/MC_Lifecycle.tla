--------------------------- MODULE MC_Lifecycle ---------------------------
(* C14 (and the fault-free skeleton of C18), step 1.  The life cycle of the log readers of one query:
   ContainerList, one concurrent open per selected container (completions interleave freely), Wait,
   SelectLogs' deferred cleanup when any open failed, iteration until the first stream error or the end,
   the consumer's error check, Close of the whole iterator tree (log queries: deferred in evalLogExpr;
   metric queries: after ReadStepResponse; binary operations: two selections, closeOnError for a partially
   built tree).  Exactly one fault (or none) is injected: the list call, one open call, or one stream that
   breaks - with or without an error - after k records. *)
EXTENDS Docker, TLC, Json, FiniteSets

CONSTANTS NC,       \* selected containers
          Shape     \* "log" | "metric" | "binop"

NRec == 2
Rounds == IF Shape = "binop" THEN 2 ELSE 1
Ctr == 1..NC
Reader == (1..Rounds) \X Ctr
Base == 1700000000

Faults == {[kind |-> "none", round |-> 0, ctr |-> 0, after |-> 0, err |-> FALSE]}
          \cup {[kind |-> "list", round |-> r, ctr |-> 0, after |-> 0, err |-> TRUE] : r \in 1..Rounds}
          \cup {[kind |-> "open", round |-> r, ctr |-> c, after |-> 0, err |-> TRUE] : r \in 1..Rounds, c \in Ctr}
          \cup {[kind |-> "stream", round |-> r, ctr |-> c, after |-> k, err |-> e] : r \in 1..Rounds, c \in Ctr, k \in 0..NRec, e \in BOOLEAN}

VARIABLES fault, phase, round, rd, got, ended, selErr, iterErr, hit, outcome
vars == <<fault, phase, round, rd, got, ended, selErr, iterErr, hit, outcome>>

Init == /\ fault \in Faults /\ phase = "gen" /\ round = 1
        /\ rd = [r \in Reader |-> "unopened"] /\ got = [r \in Reader |-> 0] /\ ended = [r \in Reader |-> FALSE]
        /\ selErr = FALSE /\ iterErr = FALSE /\ hit = FALSE /\ outcome = "none"

\* ---- export: the case in the vocabulary of the docker family, all completion orders, every concrete realisation of the fault
FrameOf(c, j) == [typ |-> 1 + (j % 2), ts |-> <<Base + j, 0>>, msg |-> <<99, 48 + c, 45, 48 + j>>, raw |-> FALSE]
FramesOf(c) == [j \in 1..NRec |-> FrameOf(c, j)]
Corrupt(c, k, how) == [j \in 1..NRec |-> IF j = k THEN (IF how = "syserr" THEN [typ |-> 3, ts |-> <<0, 0>>, msg |-> <<111, 111, 109>>, raw |-> TRUE]
                                                         ELSE [typ |-> 1, ts |-> <<0, 0>>, msg |-> <<120, 32, 97>>, raw |-> TRUE])
                                           ELSE FrameOf(c, j)]
CtrRec(c, frames) == [id |-> <<105, 100, 48 + c>>, name |-> <<110, 48 + c>>, image |-> <<105>>, imageId |-> <<115>>, command |-> <<99>>,
                      created |-> 1, state |-> <<114>>, status |-> <<85>>, labels |-> <<>>, noName |-> FALSE, frames |-> frames]
RECURSIVE Perms(_)
Perms(S) == IF S = {} THEN {<<>>} ELSE UNION {{<<x>> \o p : p \in Perms(S \ {x})} : x \in S}
RECURSIVE SetToSeq(_)
SetToSeq(S) == IF S = {} THEN <<>> ELSE LET x == CHOOSE x \in S : TRUE IN <<x>> \o SetToSeq(S \ {x})
QShape == IF Shape = "metric" THEN "count" ELSE Shape
CaseWith(ctrs, faults, listErr) ==
  [in |-> [ctrs |-> ctrs, sel |-> <<>>, sel2 |-> <<>>, shape |-> QShape, start |-> <<Base, 0>>, end |-> <<Base + 10, 0>>,
           step |-> 5, range |-> 100, limit |-> 0 - 1, orders |-> SetToSeq(Perms(Ctr)), reps |-> 1, faults |-> faults,
           listErr |-> listErr, frag |-> <<>>]]
Plain == [c \in Ctr |-> CtrRec(c, FramesOf(c))]
\* byte offsets inside frame k+1 of container c: +3 is inside the header, +10 inside the body
Off(c, k) == OffsetOf(FramesOf(c), k + 1)
Cases ==
  CASE fault.kind = "none" -> {CaseWith(Plain, <<>>, FALSE)}
    [] fault.kind = "list" /\ fault.round = 1 -> {CaseWith(Plain, <<>>, TRUE)}
    [] fault.kind = "list" /\ fault.round > 1 -> {}           \* the fake cannot fail only the second listing: modelled, not replayed
    [] fault.kind = "open" -> {CaseWith(Plain, << [kind |-> "open", ctr |-> fault.ctr, pos |-> 0, round |-> fault.round] >>, FALSE)}
    [] fault.kind = "stream" /\ ~fault.err ->
         {CaseWith(Plain, << [kind |-> "cut", ctr |-> fault.ctr, pos |-> Off(fault.ctr, fault.after) + (IF fault.after = NRec THEN 0 ELSE 3), round |-> fault.round] >>, FALSE)}
    [] fault.kind = "stream" /\ fault.err ->
         {CaseWith(Plain, << [kind |-> "readerr", ctr |-> fault.ctr, pos |-> Off(fault.ctr, fault.after), round |-> fault.round] >>, FALSE)}
         \cup (IF fault.after < NRec
                 THEN {CaseWith(Plain, << [kind |-> "cut", ctr |-> fault.ctr, pos |-> Off(fault.ctr, fault.after) + 10, round |-> fault.round] >>, FALSE),
                       CaseWith(Plain, << [kind |-> "readerr", ctr |-> fault.ctr, pos |-> Off(fault.ctr, fault.after) + 10, round |-> fault.round] >>, FALSE)}
                      \cup (IF fault.round = 1
                              THEN {CaseWith([c \in Ctr |-> IF c = fault.ctr THEN CtrRec(c, Corrupt(c, fault.after + 1, how)) ELSE CtrRec(c, FramesOf(c))], <<>>, FALSE)
                                      : how \in {"syserr", "badts"}}
                              ELSE {})
                 ELSE {})

Start == phase = "gen" /\ phase' = "list" /\ UNCHANGED <<fault, round, rd, got, ended, selErr, iterErr, hit, outcome>>
         /\ \A cs \in Cases : PrintT(<<"CASE", ToJson(cs)>>)

IsFault(kind, r, c) == fault.kind = kind /\ fault.round = r /\ (kind = "list" \/ fault.ctr = c)
ThisRound == {r \in Reader : r[1] = round}

\* ---- fetchContainers
ListOk == phase = "list" /\ ~IsFault("list", round, 0) /\ phase' = "opening"
          /\ rd' = [r \in Reader |-> IF r \in ThisRound THEN "opening" ELSE rd[r]]      \* grp.Go for every container (NC = 1: the single synchronous call)
          /\ UNCHANGED <<fault, round, got, ended, selErr, iterErr, hit, outcome>>
ListFail == phase = "list" /\ IsFault("list", round, 0) /\ hit' = TRUE /\ phase' = "failed"
          /\ UNCHANGED <<fault, round, rd, got, ended, selErr, iterErr, outcome>>

\* ---- the concurrent opens complete one at a time, in any order
OpenDone(c) == phase = "opening" /\ rd[<<round, c>>] = "opening" /\ ~IsFault("open", round, c)
               /\ rd' = [rd EXCEPT ![<<round, c>>] = "open"] /\ UNCHANGED <<fault, phase, round, got, ended, selErr, iterErr, hit, outcome>>
OpenFail(c) == phase = "opening" /\ rd[<<round, c>>] = "opening" /\ IsFault("open", round, c)
               /\ rd' = [rd EXCEPT ![<<round, c>>] = "unopened"] /\ selErr' = TRUE /\ hit' = TRUE
               /\ UNCHANGED <<fault, phase, round, got, ended, iterErr, outcome>>
\* grp.Wait(): the only join
Wait == /\ phase = "opening" /\ \A r \in ThisRound : rd[r] # "opening"
        /\ IF selErr THEN phase' = "cleanup" /\ round' = round
           ELSE IF round < Rounds THEN phase' = "list" /\ round' = round + 1
           ELSE phase' = "iterating" /\ round' = round
        /\ UNCHANGED <<fault, rd, got, ended, selErr, iterErr, hit, outcome>>
\* SelectLogs' deferred cleanup: close every iterator that was opened in this round
CloseOpened == phase = "cleanup" /\ phase' = "failed"
               /\ rd' = [r \in Reader |-> IF r \in ThisRound /\ rd[r] = "open" THEN "closed" ELSE rd[r]]
               /\ UNCHANGED <<fault, round, got, ended, selErr, iterErr, hit, outcome>>
\* build(): closeOnError closes the sub-trees already built (earlier rounds); Eval returns the error
BuildFailed == phase = "failed" /\ phase' = "returned" /\ outcome' = "err"
               /\ rd' = [r \in Reader |-> IF rd[r] = "open" THEN "closed" ELSE rd[r]]
               /\ UNCHANGED <<fault, round, got, ended, selErr, iterErr, hit>>

\* ---- iteration: the consumer pulls records from any reader that still has some, until the first error or the end of all
Read(r) ==
  /\ phase = "iterating" /\ ~iterErr /\ rd[r] = "open" /\ ~ended[r]
  /\ IF fault.kind = "stream" /\ <<fault.round, fault.ctr>> = r /\ got[r] = fault.after
       THEN /\ ended' = [ended EXCEPT ![r] = TRUE]
            /\ iterErr' = fault.err /\ hit' = (hit \/ fault.err) /\ got' = got
       ELSE IF got[r] = NRec THEN ended' = [ended EXCEPT ![r] = TRUE] /\ UNCHANGED <<got, iterErr, hit>>
       ELSE got' = [got EXCEPT ![r] = @ + 1] /\ UNCHANGED <<ended, iterErr, hit>>
  /\ UNCHANGED <<fault, phase, round, rd, selErr, outcome>>
\* iter.Err() is consulted after the loop
IterEnd == phase = "iterating" /\ (iterErr \/ \A r \in Reader : ended[r]) /\ phase' = "closing"
           /\ outcome' = (IF iterErr THEN "err" ELSE "ok")
           /\ UNCHANGED <<fault, round, rd, got, ended, selErr, iterErr, hit>>
\* deferred Close of the whole tree, for log and metric queries alike
CloseAll == phase = "closing" /\ phase' = "returned"
            /\ rd' = [r \in Reader |-> IF rd[r] = "open" THEN "closed" ELSE rd[r]]
            /\ UNCHANGED <<fault, round, got, ended, selErr, iterErr, hit, outcome>>

Next == Start \/ ListOk \/ ListFail \/ (\E c \in Ctr : OpenDone(c) \/ OpenFail(c)) \/ Wait \/ CloseOpened \/ BuildFailed
        \/ (\E r \in Reader : Read(r)) \/ IterEnd \/ CloseAll

\* ---- properties
NoLeak   == phase = "returned" => \A r \in Reader : rd[r] # "open" /\ rd[r] # "opening"
Surfaces == phase = "returned" /\ hit => outcome = "err"
NoSpuriousError == phase = "returned" /\ ~hit => outcome = "ok"
\* with everything consumed, every error-kind fault is encountered or preceded by another error
AllFaultsSurface == phase = "returned" /\ fault.err => outcome = "err"
CloseAfterOpen == [][\A r \in Reader : rd'[r] = "closed" => rd[r] \in {"open", "closed"}]_vars
=============================================================================
