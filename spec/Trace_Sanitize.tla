--------------------------- MODULE Trace_Sanitize ---------------------------
(* C20, step 3: every observed KeyToLabel(key) must equal Sanitize(key); the e2e events check that a
   container carrying Docker label key=value is selected by {Sanitize(key)="value"}. *)
EXTENDS TraceCommon, Labels, Names

VARIABLES key
vars == <<tcvars, key>>

Init == TCInit /\ key = <<>>

Start == Begin /\ key' = Trace[l].in.key

KeyOk == Ev.out = Sanitize(key)
      /\ (key # <<>> => ValidName(Ev.out))
      /\ (ValidName(key) => Ev.out = key)
EvKey == IsEv("Key") /\ KeyOk /\ Accept /\ UNCHANGED key

\* e2e: the harness asked the Docker-backed storage for {<label>="v"} where label is the *observed* mapping
\* (a name that is a reserved word of the query language cannot be written in a selector: whatever happens then is left open;
\* every other name - Max, IP, Keep differ from reserved words by their case - must be accepted and must select)
SelOk == Ev.label = Sanitize(key) /\ (IF Sanitize(key) \in ReservedWords THEN TRUE ELSE Ev.parsed /\ Ev.selected = TRUE /\ Ev.others = 0)
EvSel == IsEv("Selected") /\ SelOk /\ Accept /\ UNCHANGED key

\* the same key as a JSON field extracted by `| json` (no field list): exposed under the sanitised name with its value
\* (msg is the line itself; a key that sanitises to "msg" overrides it)
ExtOk == \E k \in DOMAIN Ev.names : Ev.names[k] = Sanitize(key)
EvExt == IsEv("Extracted") /\ ExtOk /\ Ev.val = <<118>> /\ Accept /\ UNCHANGED key
Explained == \/ Ev.ev = "Key" /\ KeyOk
             \/ Ev.ev = "Selected" /\ SelOk
             \/ Ev.ev = "Extracted" /\ ExtOk /\ Ev.val = <<118>>
Bad  == Reject /\ ~Explained /\ UNCHANGED key
Next == Start \/ EvKey \/ EvSel \/ EvExt \/ Bad \/ (Skipped /\ UNCHANGED key) \/ (Finish /\ UNCHANGED key)
TraceSpec == Init /\ [][Next]_vars
=============================================================================
