----------------------------- MODULE MC_Algebra -----------------------------
(* C19, step 1.  The reference semantics of Pipeline.tla is a Boolean algebra of filters: for every record set
   and filters f, g of the pools, q|f is a part of q, f and its negation split q, stateless filters commute and
   are idempotent, `a and b` is the intersection and `a or b` the union of a and b alone, and |= "" is neutral.
   The same families are exported as conformance cases (eight / five related queries per scenario). *)
EXTENDS Pipeline, TLC, Json

CONSTANTS MaxRec, Pools
Base == 1700000000
A == <<97>>
Bb == <<98>>
K == <<107>>
N == <<110>>
APP == <<97, 112, 112>>
DocPool == { << <<K, A>> >>, << <<K, Bb>> >>, << <<K, A>>, <<N, <<55>>>> >>, << <<N, <<120>>>> >> }
AttrPool == {<<>>, << <<APP, A>> >>}
Neg(op) == CASE op = "eq" -> "neq" [] op = "neq" -> "eq" [] op = "re" -> "nre" [] op = "nre" -> "re"
LineF(op, v, r) == [t |-> "line", op |-> op, val |-> v, re |-> r]
MF(lb, op, v, r) == [t |-> "label", pred |-> [t |-> "m", label |-> lb, op |-> op, val |-> v, lit |-> <<>>, re |-> r]]
RE1 == RCat(RLit(61), RLit(97))          \* =a
RE3 == RCat(RLit(107), RCat(RLit(61), RAny))      \* k=.   (the same text is also used as a literal needle)
RE2 == RAlt(RLit(97), RLit(55))          \* a|7
RE4 == RCat(RBol, RCat(RLit(107), RCat(RLit(61), RCat(RLit(97), REol))))      \* ^k=a$ : an anchored literal is not a substring search
FilterPoolFull == { LineF("eq", ReText(RE3), REps), LineF("re", ReText(RE3), RE3), LineF("eq", A, REps), LineF("neq", <<61, 98>>, REps), LineF("re", ReText(RE1), RE1), LineF("eq", <<>>, REps), LineF("re", ReText(RE4), RE4),
                    MF(APP, "eq", A, REps), MF(K, "neq", A, REps), MF(APP, "re", ReText(RE2), RE2), MF(N, "nre", ReText(RE2), RE2) }
FilterPool == IF Pools = "full" THEN FilterPoolFull
              ELSE { LineF("eq", ReText(RE3), REps), LineF("re", ReText(RE3), RE3), LineF("re", ReText(RE1), RE1), LineF("re", ReText(RE4), RE4), MF(APP, "eq", A, REps), MF(K, "neq", A, REps), MF(N, "nre", ReText(RE2), RE2) }
NegOf(f) == IF f.t = "line" THEN [f EXCEPT !.op = Neg(f.op)] ELSE [f EXCEPT !.pred.op = Neg(f.pred.op)]
NumP(lb, op, lit, n) == [t |-> "num", label |-> lb, op |-> op, val |-> <<n, 1>>, lit |-> lit, re |-> REps]
MP(lb, op, v) == [t |-> "m", label |-> lb, op |-> op, val |-> v, lit |-> <<>>, re |-> REps]
PredPool == { NumP(N, "gt", <<53>>, 5), NumP(<<122>>, "lt", <<53>>, 5), MP(K, "eq", A), MP(APP, "neq", A), NumP(N, "eq", <<55>>, 7) }
BasePool == IF Pools # "full" THEN { <<>>, << [t |-> "logfmt"] >> } ELSE { <<>>, << [t |-> "logfmt"] >>, << [t |-> "logfmt"], MF(K, "eq", A, REps) >>, << [t |-> "drop", labels |-> <<APP>>], [t |-> "logfmt"] >> }
\* (a base never ends in a plain drop/keep: the text "| drop app != x" denotes a drop with a value matcher - Pipeline!UnambiguousText)
EmptyF == LineF("eq", <<>>, REps)
Par(p) == [t |-> "paren", a |-> p, label |-> <<>>, op |-> "", val |-> <<>>, lit |-> <<>>]
Bin(op, a, b) == [t |-> op, a |-> Par(a), b |-> Par(b), label |-> <<>>, op |-> "", val |-> <<>>, lit |-> <<>>]
LabelSt(p) == [t |-> "label", pred |-> p]

VARIABLES recs, base, f, g, pa, pb, pc
vars == <<recs, base, f, g, pa, pb, pc>>

MkRec(i, doc, attrs) == [id |-> i, ts |-> <<Base + i, 0>>, line |-> EncLogfmt(doc), attrs |-> attrs, doc |-> doc]
Init == recs = <<>> /\ base = <<>> /\ f = EmptyF /\ g = EmptyF /\ pa = MP(K, "eq", A) /\ pb = MP(K, "eq", A) /\ pc = "gen"
AddRec == pc = "gen" /\ Len(recs) < MaxRec /\ \E d \in DocPool, a \in AttrPool : recs' = Append(recs, MkRec(Len(recs) + 1, d, a))
          /\ UNCHANGED <<base, f, g, pa, pb, pc>>

Res(stages) == {<<e.ts, e.line>> : e \in PairsOf(LogResult(<<>>, stages, recs))}
QueriesFG == << base, base \o <<f>>, base \o <<NegOf(f)>>, base \o <<f, g>>, base \o <<g, f>>, base \o <<f, f>>, base \o <<g>>, base \o <<EmptyF>> >>
QueriesP == << base \o <<LabelSt(Bin("and", pa, pb))>>, base \o <<LabelSt(Bin("or", pa, pb))>>, base \o <<LabelSt(pa)>>, base \o <<LabelSt(pb)>>, base >>
CaseOf(kind, qs) == [in |-> [recs |-> recs, sel |-> <<>>, stages |-> <<>>, queries |-> qs, fam |-> kind, caps |-> << [label |-> <<>>, line |-> <<>>] >>,
                             limit |-> 0 - 1, start |-> <<Base - 100, 0>>, end |-> <<Base + 100, 0>>]]
ChooseFG == pc = "gen" /\ Len(recs) >= 1 /\ pc' = "fg" /\ (\E b \in BasePool : base' = b) /\ (\E x \in FilterPool : f' = x) /\ (\E y \in FilterPool : g' = y)
            /\ UNCHANGED <<recs, pa, pb>> /\ PrintT(<<"CASE", ToJson(CaseOf("fg", QueriesFG'))>>)
ChooseP == pc = "gen" /\ Len(recs) >= 1 /\ pc' = "pred" /\ (\E b \in BasePool : base' = b) /\ (\E x \in PredPool : pa' = x) /\ (\E y \in PredPool : pb' = y)
            /\ UNCHANGED <<recs, f, g>> /\ PrintT(<<"CASE", ToJson(CaseOf("pred", QueriesP'))>>)
Next == AddRec \/ ChooseFG \/ ChooseP

\* ---- the algebra, on the reference semantics
Q(k) == Res(QueriesFG[k])
P(k) == Res(QueriesP[k])
SubMultiset == pc = "fg" => Q(2) \subseteq Q(1)
NegationSplits == pc = "fg" => Q(2) \cup Q(3) = Q(1) /\ Q(2) \cap Q(3) = {}
Commute == pc = "fg" => Q(4) = Q(5)
Idempotent == pc = "fg" => Q(6) = Q(2)
TrueIsNeutral == pc = "fg" => Q(8) = Q(1)
AndIsIntersection == pc = "pred" => P(1) = P(3) \cap P(4)
OrIsUnion == pc = "pred" => P(2) = P(3) \cup P(4)
=============================================================================
