------------------------------ MODULE JsonDoc ------------------------------
(* JSON documents as trees (path selectors are [t |-> "key" | "idx", key, i] records)
   JSON documents as trees, their reference encoding, and what the json / unpack stages expose (C06).
   Anchors: internal/logql/logqlengine/json.go, unpack.go, jsonexpr/*.go.
   A value is  [k |-> "str", s]  [k |-> "num", txt]  [k |-> "bool", b]  [k |-> "null"]
               [k |-> "obj", fields |-> <<<<key, value>>, ...>>]  [k |-> "arr", items |-> <<value, ...>>]
   "num".txt is the number as written: an integer or a plain decimal in canonical form (no exponent, no leading
   zeros, no trailing zeros in the fraction), so that its written form is also what Go prints for it. *)
EXTENDS Integers, Sequences, FiniteSets, Bytes, Labels

QUOTE == 34
BSL == 92
RECURSIVE EscBody(_)
EscBody(s) == IF s = <<>> THEN <<>> ELSE (IF Head(s) \in {QUOTE, BSL} THEN <<BSL, Head(s)>> ELSE <<Head(s)>>) \o EscBody(Tail(s))
EncStr(s) == <<QUOTE>> \o EscBody(s) \o <<QUOTE>>       \* cases keep control characters and non-UTF-8 out of JSON strings

RECURSIVE EncJson(_)
RECURSIVE EncFields(_)
RECURSIVE EncItems(_)
EncFields(fs) == IF fs = <<>> THEN <<>> ELSE EncStr(fs[1][1]) \o <<58>> \o EncJson(fs[1][2]) \o (IF Len(fs) = 1 THEN <<>> ELSE <<44>> \o EncFields(Tail(fs)))
EncItems(xs) == IF xs = <<>> THEN <<>> ELSE EncJson(xs[1]) \o (IF Len(xs) = 1 THEN <<>> ELSE <<44>> \o EncItems(Tail(xs)))
EncJson(v) == CASE v.k = "str" -> EncStr(v.s)
                [] v.k = "num" -> v.txt
                [] v.k = "bool" -> IF v.b THEN <<116, 114, 117, 101>> ELSE <<102, 97, 108, 115, 101>>
                [] v.k = "null" -> <<110, 117, 108, 108>>
                [] v.k = "obj" -> <<123>> \o EncFields(v.fields) \o <<125>>
                [] v.k = "arr" -> <<91>> \o EncItems(v.items) \o <<93>>

IsScalar(v) == v.k \in {"str", "num", "bool", "null"}
\* the label value a scalar becomes when the whole document is extracted (json without arguments, unpack)
ScalarText(v) == CASE v.k = "str" -> v.s [] v.k = "num" -> v.txt
                   [] v.k = "bool" -> (IF v.b THEN <<116, 114, 117, 101>> ELSE <<102, 97, 108, 115, 101>>) [] v.k = "null" -> <<>>

\* ---- path expressions: a sequence of [t |-> "key", key] / [t |-> "idx", i] selectors (i zero based)
RECURSIVE Walk(_, _)
\* dup: a key on the path occurs more than once in its object - which occurrence counts is left open
Walk(v, path) == IF path = <<>> THEN [found |-> TRUE, v |-> v, dup |-> FALSE]
                 ELSE LET sel == Head(path) IN
                      IF sel.t = "key" /\ v.k = "obj"
                        THEN LET hits == {i \in DOMAIN v.fields : v.fields[i][1] = sel.key} IN
                             IF hits = {} THEN [found |-> FALSE, v |-> v, dup |-> FALSE]
                             ELSE LET w == Walk(v.fields[CHOOSE i \in hits : \A j \in hits : j <= i][2], Tail(path))
                                  IN [found |-> w.found, v |-> w.v, dup |-> w.dup \/ Cardinality(hits) > 1]
                      ELSE IF sel.t = "idx" /\ v.k = "arr" /\ sel.i + 1 <= Len(v.items) THEN Walk(v.items[sel.i + 1], Tail(path))
                      ELSE [found |-> FALSE, v |-> v, dup |-> FALSE]
\* rendering of a path the way it is written in a query:  a.b[0]["k y"]
IsIdent(s) == ValidName(s)
RECURSIVE PathText(_, _)
PathText(path, first) == IF path = <<>> THEN <<>>
                         ELSE LET sel == Head(path) IN
                              (IF sel.t = "idx" THEN <<91>> \o DecBytes(sel.i) \o <<93>>
                               ELSE IF IsIdent(sel.key) THEN (IF first THEN <<>> ELSE <<46>>) \o sel.key
                               ELSE <<91>> \o EncStr(sel.key) \o <<93>>)
                              \o PathText(Tail(path), FALSE)
=============================================================================
