------------------------------- MODULE MC_Ip -------------------------------
(* C01 / C19, step 1 (ip("...") filters on IPv4).  Checked on the specification, for every pattern of a pool (single
   addresses, inclusive ranges, prefixes of 0-32 bits with unmasked addresses) and every address of a pool chosen
   around the patterns' edges:
     - a prefix accepts exactly the addresses between its network and broadcast address (SamePrefix, a per-octet
       transcription of netip.Prefix.Contains, against the interval reading);
     - a range includes both ends; a single address is the range of itself;
     - the line scanner finds an address standing alone, between blanks, in brackets or after `=`, and a line passes
       `!= ip(p)` exactly when it does not pass `|= ip(p)`;
     - the label filter drops a record without the label, keeps and flags one whose value is no address.
   Every (pattern, line / label value) pair is exported and replayed through Engine.Eval. *)
EXTENDS Pipeline, TLC, Json

CONSTANTS Pools
Base == 1700000000
IPL == <<105, 112>>     \* label name "ip"
A(a, b, c, d) == <<a, b, c, d>>
Addr(x) == [k |-> "addr", lo |-> x, hi |-> x, bits |-> 32]
Range(x, y) == [k |-> "range", lo |-> x, hi |-> y, bits |-> 0]
Cidr(x, n) == [k |-> "cidr", lo |-> x, hi |-> x, bits |-> n]
Pats == { Addr(A(10, 0, 0, 1)), Range(A(10, 0, 0, 1), A(10, 0, 0, 3)), Range(A(10, 0, 0, 255), A(10, 0, 1, 0)),
          Cidr(A(10, 0, 0, 0), 8), Cidr(A(10, 0, 0, 5), 30), Cidr(A(10, 0, 0, 0), 31), Cidr(A(10, 0, 1, 0), 23), Cidr(A(0, 0, 0, 0), 0), Cidr(A(10, 0, 0, 1), 32) }
        \cup (IF Pools = "full" THEN { Cidr(A(10, 0, 0, 0), 7), Cidr(A(10, 0, 0, 8), 29), Cidr(A(192, 168, 0, 0), 16), Cidr(A(128, 0, 0, 0), 1),
                                       Range(A(0, 0, 0, 0), A(9, 255, 255, 255)), Addr(A(255, 255, 255, 255)), Cidr(A(10, 0, 0, 77), 24) } ELSE {})
Addrs == { A(10, 0, 0, 0), A(10, 0, 0, 1), A(10, 0, 0, 2), A(10, 0, 0, 3), A(10, 0, 0, 4), A(10, 0, 0, 7), A(10, 0, 0, 8), A(10, 0, 0, 255), A(10, 0, 1, 0), A(10, 0, 1, 255),
           A(10, 0, 2, 0), A(9, 255, 255, 255), A(10, 255, 255, 255), A(11, 0, 0, 0), A(0, 0, 0, 0), A(255, 255, 255, 255) }
         \cup (IF Pools = "full" THEN { A(8, 0, 0, 0), A(7, 255, 255, 255), A(11, 255, 255, 255), A(12, 0, 0, 0), A(192, 168, 255, 255), A(192, 169, 0, 0), A(127, 255, 255, 255),
                                        A(128, 0, 0, 0), A(10, 0, 0, 15), A(10, 0, 0, 16), A(10, 0, 0, 77) } ELSE {})
\* how an address may stand in a line (no colon, no a-f letters); the last two are near-addresses that are none
Frames == {"alone", "blanks", "brackets", "equals", "second", "fifth", "lead0"}
LineOf(f, x) == LET t == AddrText(x) IN
  CASE f = "alone" -> t
    [] f = "blanks" -> <<120, 32>> \o t \o <<32, 121>>
    [] f = "brackets" -> <<91>> \o t \o <<93>>
    [] f = "equals" -> <<104, 61>> \o t
    [] f = "second" -> <<57, 46, 57, 46, 57, 46, 57, 32>> \o t                    \* 9.9.9.9 <addr>
    [] f = "fifth" -> t \o <<46, 53>>                                             \* <addr>.5 : five fields, no address
    [] f = "lead0" -> AddrText(<<x[1], x[2], x[3], 0>>) \o DecText(x[4])          \* a.b.c.0d : leading zero, no address (unless d = 0: a.b.c.00)
HoldsAddr(f) == f \notin {"fifth", "lead0"}

VARIABLES pat, x, frame, kind, op, pc
vars == <<pat, x, frame, kind, op, pc>>
Init == pat \in Pats /\ x \in Addrs /\ frame \in Frames /\ kind \in {"line", "label", "nolabel", "junk"} /\ op \in {"eq", "neq"} /\ pc = "gen"
        /\ (kind # "line" => frame = "alone")

Line == IF kind = "line" THEN LineOf(frame, x) ELSE <<109>>
Attrs == CASE kind = "label" -> << <<IPL, AddrText(x)>> >> [] kind = "junk" -> << <<IPL, AddrText(x) \o <<120>>>> >> [] OTHER -> <<>>
St == IF kind = "line" THEN [t |-> "line", op |-> op, val |-> IpPatText(pat), re |-> REps, ip |-> TRUE, ipat |-> pat]
      ELSE [t |-> "label", pred |-> [t |-> "ip", label |-> IPL, op |-> op, val |-> IpPatText(pat), ipat |-> pat, lit |-> <<>>, re |-> REps]]
Rec == [id |-> 1, ts |-> <<Base + 1, 0>>, line |-> Line, attrs |-> Attrs, doc |-> <<>>, jdoc |-> [k |-> "obj", fields |-> <<>>], jcanon |-> FALSE, jmal |-> TRUE, lmal |-> FALSE]
Case == [in |-> [recs |-> <<Rec>>, sel |-> <<>>, stages |-> <<St>>, queries |-> <<>>, caps |-> << [label |-> <<>>, line |-> <<>>] >>, limit |-> 0 - 1,
                 start |-> <<Base - 100, 0>>, end |-> <<Base + 100, 0>>]]
Export == pc = "gen" /\ pc' = "done" /\ UNCHANGED <<pat, x, frame, kind, op>> /\ PrintT(<<"CASE", ToJson(Case)>>)
Next == Export

Res == Stage(St, {}, Rec, Line, RecordLabels(Rec))
\* ---- the interval reading of a pattern
Lo(p) == IF p.k # "cidr" THEN p.lo
         ELSE [k \in 1..4 |-> LET nb == IF p.bits >= 8 * k THEN 8 ELSE IF p.bits <= 8 * (k - 1) THEN 0 ELSE p.bits - 8 * (k - 1)
                              IN (p.lo[k] \div Pow2(8 - nb)) * Pow2(8 - nb)]
Hi(p) == IF p.k # "cidr" THEN p.hi
         ELSE [k \in 1..4 |-> LET nb == IF p.bits >= 8 * k THEN 8 ELSE IF p.bits <= 8 * (k - 1) THEN 0 ELSE p.bits - 8 * (k - 1)
                              IN (p.lo[k] \div Pow2(8 - nb)) * Pow2(8 - nb) + Pow2(8 - nb) - 1]
WellFormed == StageWellFormed(St)
MatchIsInterval == IpMatch(pat, x) = (AddrLeq(Lo(pat), x) /\ AddrLeq(x, Hi(pat)))
TextRoundTrip == ParseIPv4(AddrText(x)).ok /\ ParseIPv4(AddrText(x)).a = x
ScannerFindsIt == kind = "line" /\ HoldsAddr(frame) /\ frame # "second" => LineHasIp(Addr(x), Line)
NearAddressesAreNone == kind = "line" /\ frame = "fifth" => Candidates(Line, 1) # <<>> /\ ~LineHasIp(Cidr(A(0, 0, 0, 0), 0), Line)
LineFilterMeaning == kind = "line" /\ HoldsAddr(frame) /\ frame # "second" => ~Res.open /\ Res.keep = (IpMatch(pat, x) = (op = "eq"))
NegationIsComplement == kind = "line" => Stage([St EXCEPT !.op = "eq"], {}, Rec, Line, RecordLabels(Rec)).keep # Stage([St EXCEPT !.op = "neq"], {}, Rec, Line, RecordLabels(Rec)).keep
LabelFilterMeaning == /\ (kind = "label" => ~Res.open /\ Res.keep = (IpMatch(pat, x) = (op = "eq")) /\ Res.L = RecordLabels(Rec))
                      /\ (kind = "nolabel" => ~Res.keep)
                      /\ (kind = "junk" => Res.keep /\ Has(Res.L, S_error))
NeverChangesLine == Res.line = Line
=============================================================================
