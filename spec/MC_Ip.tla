------------------------------- MODULE MC_Ip -------------------------------
(* C01 / C19, step 1 (ip("...") filters on IPv4 and IPv6).  Checked on the specification, for every pattern of a pool (single
   addresses, inclusive ranges, prefixes of 0-32 bits with unmasked addresses) and every address of a pool chosen
   around the patterns' edges:
     - a prefix accepts exactly the addresses between its network and broadcast address (SamePrefix, a per-octet
       transcription of netip.Prefix.Contains, against the interval reading);
     - a range includes both ends; a single address is the range of itself;
     - the line scanner finds an address standing alone, between blanks, in brackets or after `=`, and a line passes
       `!= ip(p)` exactly when it does not pass `|= ip(p)`;
     - the label filter drops a record without the label, keeps and flags one whose value is no address.
   Every (pattern, line / label value) pair is exported and replayed through Engine.Eval. *)
EXTENDS Pipeline, TLC, Json

CONSTANTS Pools
Base == 1700000000
IPL == <<105, 112>>     \* label name "ip"
A(a, b, c, d) == <<a, b, c, d>>
Addr(x) == [k |-> "addr", lo |-> x, hi |-> x, bits |-> 32]
Range(x, y) == [k |-> "range", lo |-> x, hi |-> y, bits |-> 0]
Cidr(x, n) == [k |-> "cidr", lo |-> x, hi |-> x, bits |-> n]
Pats == { Addr(A(10, 0, 0, 1)), Range(A(10, 0, 0, 1), A(10, 0, 0, 3)), Range(A(10, 0, 0, 255), A(10, 0, 1, 0)),
          Cidr(A(10, 0, 0, 0), 8), Cidr(A(10, 0, 0, 5), 30), Cidr(A(10, 0, 0, 0), 31), Cidr(A(10, 0, 1, 0), 23), Cidr(A(0, 0, 0, 0), 0), Cidr(A(10, 0, 0, 1), 32) }
        \cup (IF Pools = "full" THEN { Cidr(A(10, 0, 0, 0), 7), Cidr(A(10, 0, 0, 8), 29), Cidr(A(192, 168, 0, 0), 16), Cidr(A(128, 0, 0, 0), 1),
                                       Range(A(0, 0, 0, 0), A(9, 255, 255, 255)), Addr(A(255, 255, 255, 255)), Cidr(A(10, 0, 0, 77), 24) } ELSE {})
Addrs == { A(10, 0, 0, 0), A(10, 0, 0, 1), A(10, 0, 0, 2), A(10, 0, 0, 3), A(10, 0, 0, 4), A(10, 0, 0, 7), A(10, 0, 0, 8), A(10, 0, 0, 255), A(10, 0, 1, 0), A(10, 0, 1, 255),
           A(10, 0, 2, 0), A(9, 255, 255, 255), A(10, 255, 255, 255), A(11, 0, 0, 0), A(0, 0, 0, 0), A(255, 255, 255, 255) }
         \cup (IF Pools = "full" THEN { A(8, 0, 0, 0), A(7, 255, 255, 255), A(11, 255, 255, 255), A(12, 0, 0, 0), A(192, 168, 255, 255), A(192, 169, 0, 0), A(127, 255, 255, 255),
                                        A(128, 0, 0, 0), A(10, 0, 0, 15), A(10, 0, 0, 16), A(10, 0, 0, 77) } ELSE {})
\* how an address may stand in a line (no colon, no a-f letters); the last two are near-addresses that are none
Frames == {"alone", "blanks", "brackets", "equals", "second", "fifth", "lead0"}
LineOf(f, x) == LET t == AddrText(x) IN
  CASE f = "alone" -> t
    [] f = "blanks" -> <<120, 32>> \o t \o <<32, 121>>
    [] f = "brackets" -> <<91>> \o t \o <<93>>
    [] f = "equals" -> <<104, 61>> \o t
    [] f = "second" -> <<57, 46, 57, 46, 57, 46, 57, 32>> \o t                    \* 9.9.9.9 <addr>
    [] f = "fifth" -> t \o <<46, 53>>                                             \* <addr>.5 : five fields, no address
    [] f = "lead0" -> AddrText(<<x[1], x[2], x[3], 0>>) \o DecText(x[4])          \* a.b.c.0d : leading zero, no address (unless d = 0: a.b.c.00)
HoldsAddr(f) == f \notin {"fifth", "lead0"}

\* ---- IPv6: addresses of eight groups, spelled in several ways
G(a, b, c, d, e, f, g, h) == <<a, b, c, d, e, f, g, h>>
Addr6(y) == [k |-> "addr", lo |-> y, hi |-> y, bits |-> 128]
Cidr6(y, n) == [k |-> "cidr", lo |-> y, hi |-> y, bits |-> n]
DB8 == 3512          \* 0x0db8
Pats6 == { Addr6(G(0, 0, 0, 0, 0, 0, 0, 1)), Addr6(G(8193, DB8, 0, 0, 0, 0, 0, 1)), Range(G(8193, DB8, 0, 0, 0, 0, 0, 1), G(8193, DB8, 0, 0, 0, 0, 0, 255)),
           Cidr6(G(65152, 0, 0, 0, 0, 0, 0, 0), 10), Cidr6(G(0, 0, 0, 0, 0, 0, 0, 0), 0), Cidr6(G(8193, DB8, 0, 0, 0, 0, 0, 1), 32),
           Cidr6(G(8193, DB8, 0, 0, 0, 0, 0, 1), 128), Cidr6(G(8193, DB8, 0, 0, 0, 0, 0, 1), 120), Cidr6(G(8193, DB8, 0, 0, 0, 0, 0, 1), 65),
           Addr6(G(10, 11, 12, 13, 14, 15, 16, 43981)) }
Addrs6 == { G(0, 0, 0, 0, 0, 0, 0, 0), G(0, 0, 0, 0, 0, 0, 0, 1), G(8193, DB8, 0, 0, 0, 0, 0, 1), G(8193, DB8, 0, 0, 0, 0, 0, 256),
            G(8193, DB8, 0, 0, 32768, 0, 0, 1), G(65215, 65535, 0, 0, 0, 0, 0, 43981), G(65216, 0, 0, 0, 0, 0, 0, 1), G(10, 11, 12, 13, 14, 15, 16, 43981) }
          \cup (IF Pools = "full" THEN { G(8193, DB8, 0, 0, 0, 0, 0, 255), G(8193, DB8, 0, 0, 32767, 65535, 0, 1), G(8193, 3513, 0, 0, 0, 0, 0, 0), G(65152, 0, 0, 0, 0, 0, 0, 1),
                                         G(8193, DB8, 0, 0, 1, 0, 0, 1) } ELSE {})
HexDig(n) == IF n < 10 THEN 48 + n ELSE 87 + n
RECURSIVE Hex1(_)
Hex1(n) == IF n < 16 THEN <<HexDig(n)>> ELSE Append(Hex1(n \div 16), HexDig(n % 16))
HexPad(n) == <<HexDig(n \div 4096), HexDig((n \div 256) % 16), HexDig((n \div 16) % 16), HexDig(n % 16)>>
UpperHex(t) == [i \in DOMAIN t |-> IF t[i] >= 97 /\ t[i] <= 102 THEN t[i] - 32 ELSE t[i]]
RECURSIVE JoinG(_, _, _, _)
JoinG(y, i, j, pad) == IF i > j THEN <<>> ELSE (IF pad THEN HexPad(y[i]) ELSE Hex1(y[i])) \o (IF i < j THEN <<58>> ELSE <<>>) \o JoinG(y, i + 1, j, pad)
\* compressed at the first run of zero groups (a valid spelling, the canonical one when that run is the longest)
Short6(y) == IF \A i \in 1..8 : y[i] # 0 THEN JoinG(y, 1, 8, FALSE)
             ELSE LET i == CHOOSE i \in 1..8 : y[i] = 0 /\ \A m \in 1..(i - 1) : y[m] # 0
                      j == CHOOSE j \in i..8 : (\A m \in i..j : y[m] = 0) /\ (j = 8 \/ y[j + 1] # 0)
                  IN JoinG(y, 1, i - 1, FALSE) \o <<58, 58>> \o JoinG(y, j + 1, 8, FALSE)
Styles6 == IF Pools = "full" THEN {"short", "full", "pad", "upper", "fullupper"} ELSE {"short", "pad", "fullupper"}
PStyles6 == IF Pools = "full" THEN {"short", "pad", "upper"} ELSE {"short", "pad"}
Text6(y, st) == CASE st = "short" -> Short6(y) [] st = "full" -> JoinG(y, 1, 8, FALSE) [] st = "pad" -> JoinG(y, 1, 8, TRUE)
                  [] st = "upper" -> UpperHex(Short6(y)) [] st = "fullupper" -> UpperHex(JoinG(y, 1, 8, FALSE))
PatText6(p, st) == CASE p.k = "addr" -> Text6(p.lo, st)
                     [] p.k = "range" -> Text6(p.lo, st) \o <<45>> \o Text6(p.hi, "short")
                     [] p.k = "cidr" -> Text6(p.lo, st) \o <<47>> \o DecText(p.bits)
\* how an IPv6 address may stand in a line; the last three are near-addresses that are none
Frames6 == {"alone", "brackets", "equals", "hexword", "trailcolon", "glued", "twice"}
LineOf6(f, y, st) == LET t == Text6(y, st) IN
  CASE f = "alone" -> t
    [] f = "brackets" -> <<91>> \o t \o <<93, 58, 56, 48>>              \* [addr]:80
    [] f = "equals" -> <<104, 61>> \o t \o <<32, 49, 48, 46, 48, 46, 48, 46, 49>>      \* h=addr 10.0.0.1
    [] f = "hexword" -> <<97, 32>> \o t                                \* "a addr": the word before is a candidate of its own
    [] f = "trailcolon" -> t \o <<58, 32, 116>>                          \* "addr: t": the colon belongs to the candidate
    [] f = "glued" -> <<97, 98, 99, 100, 49>> \o t                       \* "abcd1addr": five digits in the first group
    [] f = "twice" -> t \o <<58, 58>>                                   \* "addr::"
HoldsAddr6(f) == f \in {"alone", "brackets", "equals", "hexword"}

VARIABLES pat, x, frame, kind, op, pc, fam, style, pstyle
vars == <<pat, x, frame, kind, op, pc, fam, style, pstyle>>
\* (the combination is chosen by an ACTION, not by Init: TLC enumerates initial states on one thread)
Init == kind = "line" /\ op = "eq" /\ pc = "init" /\ fam = 4 /\ pat = Addr(A(10, 0, 0, 1)) /\ x = A(10, 0, 0, 1) /\ frame = "alone" /\ style = "short" /\ pstyle = "short"
Choose == /\ pc = "init" /\ pc' = "gen"
          /\ kind' \in {"line", "label", "nolabel", "junk"} /\ op' \in {"eq", "neq"} /\ fam' \in {4, 6, 46, 64}
          \* 46: an IPv4 pattern over IPv6 texts, 64: the reverse
          /\ pat' \in (IF fam' \in {4, 46} THEN Pats ELSE Pats6) /\ x' \in (IF fam' \in {4, 64} THEN Addrs ELSE Addrs6)
          /\ frame' \in (IF fam' \in {4, 64} THEN Frames ELSE Frames6)
          /\ style' \in (IF fam' \in {6, 46} THEN Styles6 ELSE {"short"}) /\ pstyle' \in (IF fam' \in {6, 64} THEN PStyles6 ELSE {"short"})
          /\ (kind' # "line" => frame' = "alone")
          /\ (fam' \in {46, 64} => kind' \in {"line", "label"} /\ frame' = "alone" /\ op' = "eq")

Six == fam \in {6, 46}         \* the TEXT is IPv6
XText == IF Six THEN Text6(x, style) ELSE AddrText(x)
PText == IF fam \in {6, 64} THEN PatText6(pat, pstyle) ELSE IpPatText(pat)
Line == IF kind = "line" THEN (IF Six THEN LineOf6(frame, x, style) ELSE LineOf(frame, x)) ELSE <<109>>
Attrs == CASE kind = "label" -> << <<IPL, XText>> >> [] kind = "junk" -> << <<IPL, XText \o <<120>>>> >> [] OTHER -> <<>>
St == IF kind = "line" THEN [t |-> "line", op |-> op, val |-> PText, re |-> REps, ip |-> TRUE, ipat |-> pat]
      ELSE [t |-> "label", pred |-> [t |-> "ip", label |-> IPL, op |-> op, val |-> PText, ipat |-> pat, lit |-> <<>>, re |-> REps]]
Rec == [id |-> 1, ts |-> <<Base + 1, 0>>, line |-> Line, attrs |-> Attrs, doc |-> <<>>, jdoc |-> [k |-> "obj", fields |-> <<>>], jcanon |-> FALSE, jmal |-> TRUE, lmal |-> FALSE]
Case == [in |-> [recs |-> <<Rec>>, sel |-> <<>>, stages |-> <<St>>, queries |-> <<>>, caps |-> << [label |-> <<>>, line |-> <<>>] >>, limit |-> 0 - 1,
                 start |-> <<Base - 100, 0>>, end |-> <<Base + 100, 0>>]]
Export == pc = "gen" /\ pc' = "done" /\ UNCHANGED <<pat, x, frame, kind, op, fam, style, pstyle>> /\ PrintT(<<"CASE", ToJson(Case)>>)
Next == Choose \/ Export

Res == Stage(St, {}, Rec, Line, RecordLabels(Rec))
\* ---- the interval reading of a pattern (w bits per element)
W(p) == IF Len(p.lo) = 4 THEN 8 ELSE 16
Lo(p) == IF p.k # "cidr" THEN p.lo
         ELSE [k \in DOMAIN p.lo |-> LET nb == IF p.bits >= W(p) * k THEN W(p) ELSE IF p.bits <= W(p) * (k - 1) THEN 0 ELSE p.bits - W(p) * (k - 1)
                              IN (p.lo[k] \div Pow2(W(p) - nb)) * Pow2(W(p) - nb)]
Hi(p) == IF p.k # "cidr" THEN p.hi
         ELSE [k \in DOMAIN p.lo |-> LET nb == IF p.bits >= W(p) * k THEN W(p) ELSE IF p.bits <= W(p) * (k - 1) THEN 0 ELSE p.bits - W(p) * (k - 1)
                              IN (p.lo[k] \div Pow2(W(p) - nb)) * Pow2(W(p) - nb) + Pow2(W(p) - nb) - 1]
SameFam == fam \in {4, 6}
WellFormed == StageWellFormed(St)
MatchIsInterval == SameFam => IpMatch(pat, x) = (AddrLeq(Lo(pat), x) /\ AddrLeq(x, Hi(pat)))
\* a pattern of one family accepts no address of the other
FamiliesApart == ~SameFam => ~IpMatch(pat, x) /\ (kind = "line" => ~Res.keep) /\ (kind = "label" => ~Res.keep /\ ~Has(Res.L, S_error))
\* every spelling denotes its address
TextRoundTrip == LET a == ParseIP(XText) IN a.ok /\ ~a.open /\ a.a = x
ScannerFindsIt == SameFam /\ kind = "line" /\ (IF Six THEN HoldsAddr6(frame) ELSE HoldsAddr(frame) /\ frame # "second") => LineHasIp(IF Six THEN Addr6(x) ELSE Addr(x), Line)
NearAddressesAreNone == /\ (fam = 4 /\ kind = "line" /\ frame = "fifth" => Candidates(Line, 1) # <<>> /\ ~LineHasIp(Cidr(A(0, 0, 0, 0), 0), Line))
                        /\ (fam = 6 /\ kind = "line" /\ ~HoldsAddr6(frame) => Candidates(Line, 1) # <<>> /\ ~LineHasIp(Cidr6(G(0, 0, 0, 0, 0, 0, 0, 0), 0), Line))
LineFilterMeaning == SameFam /\ kind = "line" /\ (IF Six THEN HoldsAddr6(frame) /\ frame # "equals" ELSE HoldsAddr(frame) /\ frame # "second")
                       => ~Res.open /\ Res.keep = (IpMatch(pat, x) = (op = "eq"))
\* what the filter answers does not depend on how the address (or the pattern) is spelled
SpellingIsImmaterial == fam = 6 /\ kind = "line" => \A st \in Styles6, ps \in PStyles6 :
                          LineHasIp(ParsePat(PatText6(pat, ps)), LineOf6(frame, x, st)) = LineHasIp(pat, Line)
NegationIsComplement == kind = "line" => Stage([St EXCEPT !.op = "eq"], {}, Rec, Line, RecordLabels(Rec)).keep # Stage([St EXCEPT !.op = "neq"], {}, Rec, Line, RecordLabels(Rec)).keep
LabelFilterMeaning == /\ (SameFam /\ kind = "label" => ~Res.open /\ Res.keep = (IpMatch(pat, x) = (op = "eq")) /\ Res.L = RecordLabels(Rec))
                      /\ (kind = "nolabel" => ~Res.keep)
                      /\ (kind = "junk" => Res.keep /\ Has(Res.L, S_error))
NeverChangesLine == Res.line = Line
=============================================================================
