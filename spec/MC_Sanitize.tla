---------------------------- MODULE MC_Sanitize ----------------------------
(* C20, step 1.  KeyToLabel transcribed action by action (fast path that returns the key untouched,
   slow path that rewrites rune by rune) and checked against the declarative Sanitize for every key
   over the representative alphabet; the same keys are exported as conformance cases. *)
EXTENDS Labels, TLC, Json, IOUtils, FiniteSets, SequencesExt

CONSTANTS MaxLen,      \* keys of 1..MaxLen symbols
          SymSet       \* "quick" | "full"

\* letters, digits, underscore, dot, dash, slash, space, 2- and 3-byte runes, invalid and stray bytes
SymFull == { <<97>>, <<90>>, <<113>>, <<48>>, <<57>>, <<95>>, <<46>>, <<45>>, <<47>>, <<32>>,
             <<195, 169>>, <<226, 130, 172>>, <<255>>, <<195>>, <<128>> }
SymQuick == { <<97>>, <<90>>, <<48>>, <<95>>, <<46>>, <<47>>, <<195, 169>>, <<226, 130, 172>>, <<255>>, <<195>>, <<128>> }
Symbols == IF SymSet = "full" THEN SymFull ELSE SymQuick

VARIABLES key, nsym, pc, pos, rest, out
vars == <<key, nsym, pc, pos, rest, out>>

\* phase "gen": the key under test is built symbol by symbol, so TLC enumerates every key of 1..MaxLen symbols;
\* Start hands the key to the implementation-shaped machine and exports it as a conformance case.
Init == key = <<>> /\ nsym = 0 /\ pc = "gen" /\ pos = 1 /\ rest = <<>> /\ out = <<>>
AddSym == pc = "gen" /\ nsym < MaxLen /\ \E s \in Symbols : key' = key \o s /\ nsym' = nsym + 1 /\ UNCHANGED <<pc, pos, rest, out>>
Start  == pc = "gen" /\ nsym >= 1 /\ pc' = "fast" /\ rest' = key /\ UNCHANGED <<key, nsym, pos, out>>
          /\ PrintT(<<"CASE", ToJson([in |-> [key |-> key]])>>)

\* for i, r := range key { switch { case isDigit(r): if i == 0 {...goto slow}; case '_' or alpha: ; default: ...goto slow } }
FastStep ==
  /\ pc = "fast" /\ pos <= Len(key)
  /\ LET r == RuneAt(key, pos)
         b == key[pos]
     IN IF r.w = 1 /\ IsDigit(b)
          THEN IF pos = 1
                 THEN out' = <<95>> /\ rest' = key /\ pc' = "slow" /\ pos' = 1
                 ELSE pos' = pos + 1 /\ UNCHANGED <<out, rest, pc>>
        ELSE IF r.w = 1 /\ (b = 95 \/ IsAlpha(b))
          THEN pos' = pos + 1 /\ UNCHANGED <<out, rest, pc>>
        ELSE out' = SubSeq(key, 1, pos - 1) /\ rest' = SubSeq(key, pos, Len(key)) /\ pc' = "slow" /\ pos' = 1
  /\ UNCHANGED <<key, nsym>>

FastEnd == pc = "fast" /\ pos > Len(key) /\ out' = key /\ pc' = "done" /\ UNCHANGED <<key, nsym, pos, rest>>

\* for _, r := range key { if ok(r) { WriteRune(r) } else { WriteByte('_') } }
SlowStep ==
  /\ pc = "slow" /\ pos <= Len(rest)
  /\ LET r == RuneAt(rest, pos)
     IN /\ out' = Append(out, IF r.w = 1 /\ IsNameByte(rest[pos]) THEN rest[pos] ELSE 95)
        /\ pos' = pos + r.w
  /\ UNCHANGED <<key, nsym, rest, pc>>

SlowEnd == pc = "slow" /\ pos > Len(rest) /\ pc' = "done" /\ UNCHANGED <<key, nsym, pos, rest, out>>

Next == AddSym \/ Start \/ FastStep \/ FastEnd \/ SlowStep \/ SlowEnd

Done == pc = "done"
ImplMatchesDecl == Done => out = Sanitize(key)
AlwaysValid     == Done => ValidName(out)
IdentityOnValid == Done /\ ValidName(key) => out = key
Idempotent      == Done => Sanitize(out) = out
RuneLength      == Done => Len(out) = RuneCount(key) + (IF IsDigit(key[1]) THEN 1 ELSE 0)

=============================================================================
