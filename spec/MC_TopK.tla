------------------------------ MODULE MC_TopK ------------------------------
(* C11, step 1 (bounded heap at depth).  topk / bottomk keep, per group, a binary heap of at most k samples whose root
   is the WORST kept sample; a sample arriving when the heap is full replaces the root when it is better
   (vectorAggHeapIterator: heap.Pop + heap.Push).  MC_VecAgg checks this for groups of up to three series, where a heap
   never has a third level; here one group of N series with pairwise distinct values arrives in EVERY order
   (N! behaviours) for every k, and the heap must end up holding exactly the k extreme values, its root being the worst
   of them after every step.
   Exported: one conformance case per (N, k, operator) - the arrival order of the real code is Go's map order and cannot
   be forced, so each case is evaluated Reps times (every evaluation re-randomises it). *)
EXTENDS Metric, Heap, TLC, Json

CONSTANTS N, Reps

Base == 1700000000
APP == <<97, 112, 112>>
Ks == 1..(N - 1)
TopOps == {"topk", "bottomk"}

VARIABLES arrived,    \* the values (1..N, all distinct) that arrived so far, in arrival order
          h,          \* the heap
          k, op, pc
vars == <<arrived, h, k, op, pc>>

Init == arrived = <<>> /\ h = <<>> /\ k \in Ks /\ op \in TopOps /\ pc = "start"

RI(x) == [n |-> x, d |-> 1]
Greater(a, b) == RLt(b, a)
LessR(a, b) == RLt(a, b)
\* bottomk: max-heap of the k smallest (root = largest kept); topk: min-heap of the k largest
Push(hh, x) == IF op = "bottomk" THEN HeapPush(Greater, hh, x) ELSE HeapPush(LessR, hh, x)
Pop(hh) == IF op = "bottomk" THEN HeapPop(Greater, hh) ELSE HeapPop(LessR, hh)
Better(x, y) == IF op = "bottomk" THEN RLt(x, y) ELSE RLt(y, x)

\* ---- export (before the first arrival)
M == <<109>>
SName(i) == <<115, 48 + i>>                                \* s1 .. s9
RECURSIVE RecsFrom(_, _, _)
RecsFrom(i, j, id) == IF i > N THEN <<>>
                      ELSE IF j > i THEN RecsFrom(i + 1, 1, id)     \* series i has i log lines: its count is i
                      ELSE << [id |-> id, ts |-> <<Base + id, 0>>, line |-> M, attrs |-> << <<APP, SName(i)>> >>, doc |-> <<>>] >>
                           \o RecsFrom(i, j + 1, id + 1)
RangeE == [t |-> "range", id |-> 1, op |-> "count_over_time", sel |-> <<>>, stages |-> << [t |-> "drop", labels |-> << <<109, 115, 103>> >>] >>,
           range |-> 100, offset |-> 0, unwrap |-> [on |-> FALSE, label |-> <<>>, conv |-> ""], param |-> <<0, 1>>,
           grp |-> [mode |-> "none", labels |-> <<>>], k |-> 0, bool |-> FALSE, v |-> <<0, 1>>, paren |-> FALSE]
Expr == [t |-> "vecagg", id |-> 0, op |-> op, k |-> k, grp |-> [mode |-> "none", labels |-> <<>>], e |-> RangeE,
         bool |-> FALSE, v |-> <<0, 1>>, paren |-> FALSE]
Case == [in |-> [recs |-> RecsFrom(1, 1, 1), expr |-> Expr,
                 evals |-> << [start |-> Base + 60, end |-> Base + 60, step |-> 0], [start |-> Base + 50, end |-> Base + 70, step |-> 20] >>, reps |-> Reps]]
Export == pc = "start" /\ pc' = "run" /\ UNCHANGED <<arrived, h, k, op>> /\ PrintT(<<"CASE", ToJson(Case)>>)

\* ---- vectorAggHeapIterator: one arriving sample
Arrive(x) == /\ pc = "run" /\ x \in 1..N /\ \A i \in DOMAIN arrived : arrived[i] # x
             /\ arrived' = Append(arrived, x)
             /\ h' = (IF Len(h) < k THEN Push(h, RI(x))
                      ELSE IF Better(RI(x), h[1]) THEN Push(Pop(h), RI(x))
                      ELSE h)
             /\ UNCHANGED <<k, op, pc>>
Next == Export \/ (\E x \in 1..N : Arrive(x))

\* ---- properties
Kept == {h[i] : i \in DOMAIN h}
Seen == {RI(arrived[i]) : i \in DOMAIN arrived}
\* the heap holds exactly the min(k, seen) best values seen so far ...
KeepsKBest == /\ Cardinality(Kept) = Len(h)
              /\ Len(h) = (IF Len(arrived) < k THEN Len(arrived) ELSE k)
              /\ Kept \subseteq Seen
              /\ \A x \in Kept : \A y \in Seen \ Kept : Better(x, y)
\* ... and its root is the worst of them (what the next arrival is compared with)
RootIsWorst == h # <<>> => \A x \in Kept : x = h[1] \/ Better(x, h[1])
=============================================================================
