--------------------------------- MODULE Ip ---------------------------------
(* ip("...") filters on IPv4 (C01 / C19).  Anchors: internal/logql/logqlengine/{ip_matcher,line_filter,label_filter}.go.
   An address is <<a, b, c, d>> with octets 0..255.  A pattern is
     [k |-> "addr", lo |-> A, hi |-> A, bits |-> 32]      ip("10.0.0.1")
     [k |-> "range", lo |-> A, hi |-> B, bits |-> 0]      ip("10.0.0.1-10.0.0.9")   both ends included
     [k |-> "cidr", lo |-> A, hi |-> A, bits |-> n]       ip("10.0.0.5/8")          the address need not be masked
   The line scanner (IPLineFilter) is transcribed for lines WITHOUT a colon and without the letters a-f / A-F: on those
   the IPv6 branch never captures and the scan is: at a digit followed within three bytes by a dot, take the maximal
   run of digits and dots as a candidate and continue behind it; otherwise advance by one byte.  Everything else
   (IPv6 patterns and texts) is outside the modelled grammar. *)
EXTENDS Integers, Sequences, Num

\* ---- netip.ParseAddr on IPv4 text: exactly four decimal fields of 1-3 digits, no leading zero, each <= 255
RECURSIVE SplitDots(_, _, _)
SplitDots(s, i, cur) == IF i > Len(s) THEN <<cur>>
                        ELSE IF s[i] = 46 THEN <<cur>> \o SplitDots(s, i + 1, <<>>)
                        ELSE SplitDots(s, i + 1, Append(cur, s[i]))
OctetOk(f) == /\ Len(f) \in 1..3 /\ AllDigits(f) /\ (Len(f) > 1 => f[1] # 48)
              /\ (IF Len(f) = 1 THEN f[1] - 48 ELSE IF Len(f) = 2 THEN (f[1] - 48) * 10 + (f[2] - 48)
                  ELSE (f[1] - 48) * 100 + (f[2] - 48) * 10 + (f[3] - 48)) <= 255
OctetVal(f) == IF Len(f) = 1 THEN f[1] - 48 ELSE IF Len(f) = 2 THEN (f[1] - 48) * 10 + (f[2] - 48)
               ELSE (f[1] - 48) * 100 + (f[2] - 48) * 10 + (f[3] - 48)
ParseIPv4(s) == LET fs == SplitDots(s, 1, <<>>) IN
                IF Len(fs) = 4 /\ \A k \in 1..4 : OctetOk(fs[k])
                  THEN [ok |-> TRUE, a |-> [k \in 1..4 |-> OctetVal(fs[k])]]
                  ELSE [ok |-> FALSE, a |-> <<0, 0, 0, 0>>]

\* ---- matchers
AddrLeq(x, y) == \/ x = y
                 \/ \E k \in 1..4 : (\A j \in 1..(k - 1) : x[j] = y[j]) /\ x[k] < y[k]
Pow2(n) == CASE n = 0 -> 1 [] n = 1 -> 2 [] n = 2 -> 4 [] n = 3 -> 8 [] n = 4 -> 16 [] n = 5 -> 32 [] n = 6 -> 64 [] n = 7 -> 128 [] n = 8 -> 256
\* the first `bits` bits agree
SamePrefix(x, y, bits) == \A k \in 1..4 :
                            LET nb == IF bits >= 8 * k THEN 8 ELSE IF bits <= 8 * (k - 1) THEN 0 ELSE bits - 8 * (k - 1)
                            IN (x[k] \div Pow2(8 - nb)) = (y[k] \div Pow2(8 - nb))
IpMatch(p, x) == CASE p.k = "addr" -> x = p.lo
                   [] p.k = "range" -> AddrLeq(p.lo, x) /\ AddrLeq(x, p.hi)
                   [] p.k = "cidr" -> SamePrefix(x, p.lo, p.bits)

\* ---- text of a pattern
DecText(n) == IF n < 10 THEN <<48 + n>> ELSE IF n < 100 THEN <<48 + (n \div 10), 48 + (n % 10)>>
              ELSE <<48 + (n \div 100), 48 + ((n \div 10) % 10), 48 + (n % 10)>>
AddrText(x) == DecText(x[1]) \o <<46>> \o DecText(x[2]) \o <<46>> \o DecText(x[3]) \o <<46>> \o DecText(x[4])
IpPatText(p) == CASE p.k = "addr" -> AddrText(p.lo)
                  [] p.k = "range" -> AddrText(p.lo) \o <<45>> \o AddrText(p.hi)
                  [] p.k = "cidr" -> AddrText(p.lo) \o <<47>> \o DecText(p.bits)
IpPatWellFormed(p) == /\ p.k \in {"addr", "range", "cidr"} /\ p.bits \in 0..32
                      /\ \A k \in 1..4 : p.lo[k] \in 0..255 /\ p.hi[k] \in 0..255
                      /\ (p.k = "range" => AddrLeq(p.lo, p.hi))

\* ---- the line scanner
IsHexLetter(c) == (c >= 65 /\ c <= 70) \/ (c >= 97 /\ c <= 102)
IpScannable(s) == \A i \in DOMAIN s : s[i] # 58 /\ ~IsHexLetter(s[i])
RECURSIVE Candidates(_, _)
Candidates(s, i) ==
  IF i > Len(s) THEN <<>>
  ELSE IF IsDig(s[i]) /\ Len(s) - i + 1 >= 4 /\ (s[i + 1] = 46 \/ s[i + 2] = 46 \/ s[i + 3] = 46)
    THEN LET j == NumEnd(s, i) IN <<SubSeq(s, i, j - 1)>> \o Candidates(s, j)
  ELSE Candidates(s, i + 1)
\* does the line hold an address the pattern accepts?
LineHasIp(p, s) == LET cs == Candidates(s, 1) IN
                   \E k \in DOMAIN cs : LET a == ParseIPv4(cs[k]) IN a.ok /\ IpMatch(p, a.a)
=============================================================================
