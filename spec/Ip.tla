--------------------------------- MODULE Ip ---------------------------------
(* ip("...") filters on IPv4 and IPv6 (C01 / C19).  Anchors: internal/logql/logqlengine/{ip_matcher,line_filter,label_filter}.go.
   An address is a sequence of 4 octets (0..255) or of 8 groups (0..65535).  A pattern is
     [k |-> "addr", lo |-> A, hi |-> A, bits |-> 32 | 128]   ip("10.0.0.1")   ip("2001:db8::1")
     [k |-> "range", lo |-> A, hi |-> B, bits |-> 0]         ip("10.0.0.1-10.0.0.9")   both ends included, one family
     [k |-> "cidr", lo |-> A, hi |-> A, bits |-> n]          ip("10.0.0.5/8")  ip("fe80::/10")   the address need not be masked
   A pattern of one family accepts no address of the other.  Texts are PARSED (ParseIP, ParsePat: transcriptions of
   netip.ParseAddr / ParsePrefix and netipx.ParseIPRange on texts without '%' and without an IPv4 tail inside an IPv6
   address), so every spelling of an IPv6 address - upper case, leading zeros, uncompressed zero groups - denotes its
   address.  The line scanner (IPLineFilter.match) is transcribed as it is: at a digit followed within three bytes by a
   dot the maximal run of digits and dots is a candidate; otherwise at "::" or at a hexadecimal digit with a colon
   anywhere behind it in the line the maximal run of hexadecimal digits and colons is one; the scan continues behind a
   candidate, otherwise one byte further. *)
EXTENDS Integers, Sequences, FiniteSets, Num

\* ---- netip.ParseAddr on IPv4 text: exactly four decimal fields of 1-3 digits, no leading zero, each <= 255
RECURSIVE SplitDots(_, _, _)
SplitDots(s, i, cur) == IF i > Len(s) THEN <<cur>>
                        ELSE IF s[i] = 46 THEN <<cur>> \o SplitDots(s, i + 1, <<>>)
                        ELSE SplitDots(s, i + 1, Append(cur, s[i]))
OctetOk(f) == /\ Len(f) \in 1..3 /\ AllDigits(f) /\ (Len(f) > 1 => f[1] # 48)
              /\ (IF Len(f) = 1 THEN f[1] - 48 ELSE IF Len(f) = 2 THEN (f[1] - 48) * 10 + (f[2] - 48)
                  ELSE (f[1] - 48) * 100 + (f[2] - 48) * 10 + (f[3] - 48)) <= 255
OctetVal(f) == IF Len(f) = 1 THEN f[1] - 48 ELSE IF Len(f) = 2 THEN (f[1] - 48) * 10 + (f[2] - 48)
               ELSE (f[1] - 48) * 100 + (f[2] - 48) * 10 + (f[3] - 48)
ParseIPv4(s) == LET fs == SplitDots(s, 1, <<>>) IN
                IF Len(fs) = 4 /\ \A k \in 1..4 : OctetOk(fs[k])
                  THEN [ok |-> TRUE, a |-> [k \in 1..4 |-> OctetVal(fs[k])]]
                  ELSE [ok |-> FALSE, a |-> <<0, 0, 0, 0>>]

\* ---- netip.ParseAddr on IPv6 text (hexadecimal digits and colons only)
IsHexDig(c) == IsDig(c) \/ (c >= 65 /\ c <= 70) \/ (c >= 97 /\ c <= 102)
HexVal(c) == IF IsDig(c) THEN c - 48 ELSE IF c >= 97 THEN c - 87 ELSE c - 55
RECURSIVE SplitColons(_, _, _)
SplitColons(s, i, cur) == IF i > Len(s) THEN <<cur>>
                          ELSE IF s[i] = 58 THEN <<cur>> \o SplitColons(s, i + 1, <<>>)
                          ELSE SplitColons(s, i + 1, Append(cur, s[i]))
GroupOk(f) == Len(f) \in 1..4 /\ \A k \in DOMAIN f : IsHexDig(f[k])
RECURSIVE GroupVal(_)
GroupVal(f) == IF f = <<>> THEN 0 ELSE GroupVal(SubSeq(f, 1, Len(f) - 1)) * 16 + HexVal(f[Len(f)])
FieldsOf(s) == IF s = <<>> THEN <<>> ELSE SplitColons(s, 1, <<>>)
NoAddr6 == [ok |-> FALSE, a |-> <<0, 0, 0, 0, 0, 0, 0, 0>>]
ParseIPv6(s) ==
  LET dbl == {k \in 1..(Len(s) - 1) : s[k] = 58 /\ s[k + 1] = 58} IN
  IF Cardinality(dbl) > 1 THEN NoAddr6                          \* two "::" (":::" counts twice)
  ELSE IF dbl = {} THEN LET fs == FieldsOf(s) IN
       IF Len(fs) = 8 /\ \A k \in 1..8 : GroupOk(fs[k]) THEN [ok |-> TRUE, a |-> [k \in 1..8 |-> GroupVal(fs[k])]] ELSE NoAddr6
  ELSE LET at == CHOOSE k \in dbl : TRUE
           ls == FieldsOf(SubSeq(s, 1, at - 1))
           rs == FieldsOf(SubSeq(s, at + 2, Len(s)))
           nz == 8 - Len(ls) - Len(rs)
       IN IF nz >= 1 /\ (\A k \in DOMAIN ls : GroupOk(ls[k])) /\ (\A k \in DOMAIN rs : GroupOk(rs[k]))
            THEN [ok |-> TRUE, a |-> [k \in 1..8 |-> IF k <= Len(ls) THEN GroupVal(ls[k]) ELSE IF k <= Len(ls) + nz THEN 0 ELSE GroupVal(rs[k - Len(ls) - nz])]]
            ELSE NoAddr6
\* netip.ParseAddr: the first '.' or ':' decides the family; a text with neither is no address.
\* `open`: texts this transcription does not cover (a zone, an IPv4 tail inside an IPv6 address)
HasByte(s, c) == \E i \in DOMAIN s : s[i] = c
ParseIP(s) == IF HasByte(s, 37) \/ (HasByte(s, 46) /\ HasByte(s, 58)) THEN [ok |-> FALSE, open |-> TRUE, a |-> <<0, 0, 0, 0>>]
              ELSE IF HasByte(s, 58) THEN LET r == ParseIPv6(s) IN [ok |-> r.ok, open |-> FALSE, a |-> r.a]
              ELSE IF HasByte(s, 46) THEN LET r == ParseIPv4(s) IN [ok |-> r.ok, open |-> FALSE, a |-> r.a]
              ELSE [ok |-> FALSE, open |-> FALSE, a |-> <<0, 0, 0, 0>>]

\* ---- matchers (an address of the other family is never accepted)
AddrLeq(x, y) == \/ x = y
                 \/ \E k \in DOMAIN x : (\A j \in 1..(k - 1) : x[j] = y[j]) /\ x[k] < y[k]
Pow2(n) == 2 ^ n
\* the first `bits` bits agree (w: bits per element, 8 or 16)
SamePrefix(x, y, bits) == LET w == IF Len(x) = 4 THEN 8 ELSE 16 IN
                          \A k \in DOMAIN x :
                            LET nb == IF bits >= w * k THEN w ELSE IF bits <= w * (k - 1) THEN 0 ELSE bits - w * (k - 1)
                            IN (x[k] \div Pow2(w - nb)) = (y[k] \div Pow2(w - nb))
IpMatch(p, x) == /\ Len(x) = Len(p.lo)
                 /\ CASE p.k = "addr" -> x = p.lo
                      [] p.k = "range" -> AddrLeq(p.lo, x) /\ AddrLeq(x, p.hi)
                      [] p.k = "cidr" -> SamePrefix(x, p.lo, p.bits)

\* ---- text of a pattern
DecText(n) == IF n < 10 THEN <<48 + n>> ELSE IF n < 100 THEN <<48 + (n \div 10), 48 + (n % 10)>>
              ELSE <<48 + (n \div 100), 48 + ((n \div 10) % 10), 48 + (n % 10)>>
AddrText(x) == DecText(x[1]) \o <<46>> \o DecText(x[2]) \o <<46>> \o DecText(x[3]) \o <<46>> \o DecText(x[4])
IpPatText(p) == CASE p.k = "addr" -> AddrText(p.lo)
                  [] p.k = "range" -> AddrText(p.lo) \o <<45>> \o AddrText(p.hi)
                  [] p.k = "cidr" -> AddrText(p.lo) \o <<47>> \o DecText(p.bits)
\* ---- the text of a pattern, parsed (netipx.ParseIPRange at a '-', netip.ParsePrefix at a '/', else netip.ParseAddr)
FirstAt(s, c) == CHOOSE i \in DOMAIN s : s[i] = c /\ \A j \in 1..(i - 1) : s[j] # c
LastAt(s, c) == CHOOSE i \in DOMAIN s : s[i] = c /\ \A j \in (i + 1)..Len(s) : s[j] # c
BadPat == [k |-> "bad", lo |-> <<>>, hi |-> <<>>, bits |-> 0]
RECURSIVE DecVal(_)
DecVal(f) == IF f = <<>> THEN 0 ELSE DecVal(SubSeq(f, 1, Len(f) - 1)) * 10 + (f[Len(f)] - 48)
ParsePat(s) ==
  IF HasByte(s, 45) THEN
       LET i == FirstAt(s, 45) f == ParseIP(SubSeq(s, 1, i - 1)) t == ParseIP(SubSeq(s, i + 1, Len(s))) IN
       IF f.ok /\ t.ok /\ Len(f.a) = Len(t.a) /\ AddrLeq(f.a, t.a) THEN [k |-> "range", lo |-> f.a, hi |-> t.a, bits |-> 0] ELSE BadPat
  ELSE IF HasByte(s, 47) THEN
       LET i == LastAt(s, 47) a == ParseIP(SubSeq(s, 1, i - 1)) b == SubSeq(s, i + 1, Len(s)) IN
       IF a.ok /\ Len(b) \in 1..3 /\ AllDigits(b) /\ (Len(b) > 1 => b[1] # 48) /\ DecVal(b) <= (IF Len(a.a) = 4 THEN 32 ELSE 128)
         THEN [k |-> "cidr", lo |-> a.a, hi |-> a.a, bits |-> DecVal(b)] ELSE BadPat
  ELSE LET a == ParseIP(s) IN IF a.ok THEN [k |-> "addr", lo |-> a.a, hi |-> a.a, bits |-> IF Len(a.a) = 4 THEN 32 ELSE 128] ELSE BadPat
IpPatWellFormed(p) == /\ p.k \in {"addr", "range", "cidr"} /\ Len(p.lo) \in {4, 8} /\ Len(p.hi) = Len(p.lo)
                      /\ p.bits \in 0..(IF Len(p.lo) = 4 THEN 32 ELSE 128)
                      /\ \A k \in DOMAIN p.lo : p.lo[k] \in 0..(IF Len(p.lo) = 4 THEN 255 ELSE 65535) /\ p.hi[k] \in 0..(IF Len(p.lo) = 4 THEN 255 ELSE 65535)
                      /\ (p.k = "range" => AddrLeq(p.lo, p.hi))
\* the pattern's text denotes the pattern (any spelling)
IpPatDenotes(txt, p) == ParsePat(txt) = [k |-> p.k, lo |-> p.lo, hi |-> p.hi, bits |-> p.bits]

\* ---- the line scanner
RECURSIVE HexEnd(_, _)
HexEnd(s, i) == IF i <= Len(s) /\ (IsHexDig(s[i]) \/ s[i] = 58) THEN HexEnd(s, i + 1) ELSE i
RECURSIVE Candidates(_, _)
Candidates(s, i) ==
  IF i > Len(s) THEN <<>>
  ELSE IF ~IsHexDig(s[i]) /\ s[i] # 58 THEN Candidates(s, i + 1)
  ELSE IF IsDig(s[i]) /\ Len(s) - i + 1 >= 4 /\ (s[i + 1] = 46 \/ s[i + 2] = 46 \/ s[i + 3] = 46)
    THEN LET j == NumEnd(s, i) IN <<SubSeq(s, i, j - 1)>> \o Candidates(s, j)
  ELSE IF Len(s) - i + 1 >= 2 /\ (IF s[i] = 58 THEN s[i + 1] = 58 ELSE \E k \in (i + 1)..Len(s) : s[k] = 58)
    THEN LET j == HexEnd(s, i) IN <<SubSeq(s, i, j - 1)>> \o Candidates(s, j)
  ELSE Candidates(s, i + 1)
\* does the line hold an address the pattern accepts?
LineHasIp(p, s) == LET cs == Candidates(s, 1) IN
                   \E k \in DOMAIN cs : LET a == ParseIP(cs[k]) IN a.ok /\ IpMatch(p, a.a)
=============================================================================
