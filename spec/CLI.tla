-------------------------------- MODULE CLI --------------------------------
(* Flag resolution of `docker logql query` (C16): --start/--end/--since/--step.
   Anchor: cmd/docker-logql/params.go.
   Instants between 2001 and 2200 do not fit TLC's 32-bit integers: an instant is <<hi, lo, ns>> with
   seconds = hi * 10^9 + lo (0 <= lo < 10^9) and 0 <= ns < 10^9.  Durations are <<s, ns>>. *)
EXTENDS Integers, Sequences, Num

G == 1000000000
TLt(a, b) == a[1] < b[1] \/ (a[1] = b[1] /\ (a[2] < b[2] \/ (a[2] = b[2] /\ a[3] < b[3])))
TMin(a, b) == IF TLt(b, a) THEN b ELSE a
\* t - d for a duration d = <<s, ns>> with s < 10^9
TSub(t, d) == LET ns0 == t[3] - d[2]
                  borrow == IF ns0 < 0 THEN 1 ELSE 0
                  lo0 == t[2] - d[1] - borrow
              IN IF lo0 < 0 THEN <<t[1] - 1, lo0 + G, ns0 + borrow * G>> ELSE <<t[1], lo0, ns0 + borrow * G>>

\* ---- timestamp spellings
Dec9(s) == DigitsVal(s)                                            \* at most 9 digits
SecOfDigits(s) == IF Len(s) <= 9 THEN <<0, Dec9(s)>> ELSE <<Dec9(SubSeq(s, 1, Len(s) - 9)), Dec9(SubSeq(s, Len(s) - 8, Len(s)))>>
\* a digit string of up to 10 digits is unix seconds, a longer one (up to 19) unix nanoseconds
DenoteDigits(s) == IF Len(s) <= 10 THEN LET p == SecOfDigits(s) IN <<p[1], p[2], 0>>
                   ELSE LET p == SecOfDigits(SubSeq(s, 1, Len(s) - 9)) IN <<p[1], p[2], Dec9(SubSeq(s, Len(s) - 8, Len(s)))>>
\* "seconds.mmm": seconds with a millisecond fraction (finer digits are left open: cases write exactly three)
DenoteFrac(s) == LET i == DotIndex(s) p == SecOfDigits(SubSeq(s, 1, i - 1)) IN <<p[1], p[2], Dec9(SubSeq(s, i + 1, Len(s))) * 1000000>>
\* [k |-> "val", t] | "bad" | "unspec"; RFC3339 text is rendered by the harness from the intended instant (trusted time.Format)
Denote(sp, shown) ==
  CASE sp.kind \in {"sec", "nano"} -> IF AllDigits(shown) /\ Len(shown) >= 1 /\ Len(shown) <= 19 THEN [k |-> "val", t |-> DenoteDigits(shown)] ELSE [k |-> "unspec", t |-> <<0, 0, 0>>]
    [] sp.kind = "frac" -> IF DotCount(shown) = 1 /\ AllDigits(SubSeq(shown, 1, DotIndex(shown) - 1)) /\ DotIndex(shown) >= 2 /\ DotIndex(shown) <= 11
                              /\ Len(shown) - DotIndex(shown) = 3 /\ AllDigits(SubSeq(shown, DotIndex(shown) + 1, Len(shown)))
                           THEN [k |-> "val", t |-> DenoteFrac(shown)] ELSE [k |-> "unspec", t |-> <<0, 0, 0>>]
    [] sp.kind = "rfc" -> [k |-> "val", t |-> sp.t]
    [] sp.kind = "raw" -> [k |-> "bad", t |-> <<0, 0, 0>>]            \* malformed by construction (letters, junk, two dots, 20 digits ...)

\* ---- Prometheus durations: (digits unit)+ with units y w d h m s ms in that order, each at most once
UnitRank(u) == CASE u = <<121>> -> 1 [] u = <<119>> -> 2 [] u = <<100>> -> 3 [] u = <<104>> -> 4 [] u = <<109>> -> 5 [] u = <<115>> -> 6 [] u = <<109, 115>> -> 7 [] OTHER -> 0
UnitSecs(rank) == CASE rank = 1 -> 31536000 [] rank = 2 -> 604800 [] rank = 3 -> 86400 [] rank = 4 -> 3600 [] rank = 5 -> 60 [] rank = 6 -> 1 [] OTHER -> 0
RECURSIVE PromFrom(_, _, _, _)
PromFrom(s, i, last, acc) ==
  IF i > Len(s) THEN [k |-> "val", d |-> acc]
  ELSE LET j == NumEnd(s, i) e == AlphaEnd(s, j)
           digits == SubSeq(s, i, j - 1) rank == UnitRank(SubSeq(s, j, e - 1)) IN
       IF j = i \/ e = j \/ ~AllDigits(digits) \/ Len(digits) > 6 \/ rank = 0 \/ rank <= last THEN [k |-> "bad", d |-> <<0, 0>>]
       ELSE IF rank = 7 THEN PromFrom(s, e, rank, <<acc[1] + DigitsVal(digits) \div 1000, acc[2] + (DigitsVal(digits) % 1000) * 1000000>>)
       ELSE PromFrom(s, e, rank, <<acc[1] + DigitsVal(digits) * UnitSecs(rank), acc[2]>>)
PromDur(s) == IF s = <<>> THEN [k |-> "bad", d |-> <<0, 0>>] ELSE PromFrom(s, 1, 0, <<0, 0>>)

\* ---- --step: plain (decimal) seconds or a Prometheus duration; strictly positive
HasUnitChar(s) == \E i \in DOMAIN s : s[i] \in {115, 109, 104, 100, 119, 121}
NonFinite == { <<78, 97, 78>>, <<73, 110, 102>>, <<45, 73, 110, 102>>, <<43, 73, 110, 102>>, <<105, 110, 102>>, <<110, 97, 110>> }
\* bytes that can occur in some spelling strconv.ParseFloat accepts (decimal, exponent, hex float, inf, nan, underscores)
FloatBytes == 48..57 \cup {43, 45, 46, 95} \cup 65..70 \cup 97..102 \cup {73, 78, 80, 84, 88, 89, 105, 110, 112, 116, 120, 121}
StepDenote(s) ==
  IF s \in NonFinite THEN [k |-> "bad", d |-> <<0, 0>>]
  ELSE IF ~HasUnitChar(s) /\ \E i \in DOMAIN s : s[i] \notin FloatBytes THEN [k |-> "bad", d |-> <<0, 0>>]
  ELSE IF ~HasUnitChar(s)
    THEN LET v == ParseNum(s) IN
         IF v.k = "bad" THEN [k |-> "bad", d |-> <<0, 0>>]
         ELSE IF v.k = "unspec" THEN (IF DotCount(s) > 1 THEN [k |-> "bad", d |-> <<0, 0>>] ELSE [k |-> "unspec", d |-> <<0, 0>>])
         ELSE IF v.n <= 0 THEN [k |-> "bad", d |-> <<0, 0>>]
         ELSE IF 1000000000 % v.d # 0 THEN [k |-> "unspec", d |-> <<0, 0>>]
         ELSE [k |-> "val", d |-> <<v.n \div v.d, (v.n % v.d) * (1000000000 \div v.d)>>]
  ELSE LET p == PromDur(s) IN
       IF p.k = "bad" THEN p ELSE IF p.d = <<0, 0>> THEN [k |-> "bad", d |-> <<0, 0>>] ELSE p

\* ---- default step: max(1 s, floor((end - start) / 250) s)
DefaultStep(start, end) ==
  IF ~TLt(start, end) THEN <<1, 0>>
  ELSE LET borrow == IF end[3] < start[3] THEN 1 ELSE 0
           lo0 == end[2] - start[2] - borrow
           dhi == IF lo0 < 0 THEN end[1] - start[1] - 1 ELSE end[1] - start[1]
           dlo == IF lo0 < 0 THEN lo0 + G ELSE lo0
           q == dhi * 4000000 + dlo \div 250
       IN IF q < 1 THEN <<1, 0>> ELSE <<q, 0>>

(* Resolve: --end defaults to now, --start to min(end, now) - since (default 6 h); explicit values are honoured;
   a malformed value is an error, never a default.  Result [ok, start, end] or [ok |-> FALSE]; open: the case is
   outside the modelled spellings. *)
SixHours == <<21600, 0>>
Resolve(now, has, startD, endD, sinceD) ==
  IF (has[3] /\ sinceD.k = "bad") \/ (has[2] /\ endD.k = "bad") \/ (has[1] /\ startD.k = "bad") THEN [ok |-> FALSE, open |-> FALSE, start |-> <<0, 0, 0>>, end |-> <<0, 0, 0>>]
  ELSE IF (has[2] /\ endD.k = "unspec") \/ (has[1] /\ startD.k = "unspec") THEN [ok |-> TRUE, open |-> TRUE, start |-> <<0, 0, 0>>, end |-> <<0, 0, 0>>]
  ELSE LET end == IF has[2] THEN endD.t ELSE now
           since == IF has[3] THEN sinceD.d ELSE SixHours
           start == IF has[1] THEN startD.t ELSE TSub(TMin(end, now), since)
       IN [ok |-> TRUE, open |-> FALSE, start |-> start, end |-> end]
=============================================================================
