----------------------------- MODULE MC_Regexp -----------------------------
(* C06, step 1 (the regexp stage).  RegexpExtractor.Process runs FindStringSubmatch and turns every named group into a
   label.  The specification side is Regex!FirstMatch: the backtracking order of a leftmost-first matcher (Prio).
   Checked here, for every expression of a pool of shapes (groups in alternatives, options, repetitions, nested groups,
   anchors) and every line over a three-letter alphabet up to MaxLen:
     - Prio and the set-valued Ends agree on where the expression can end (two independent transcriptions);
     - the stage never drops or changes the line; without a match it changes nothing;
     - every group that took part is a label holding exactly the bytes it spanned, inside the overall match, groups of
       the same name overriding existing labels; labels that are not group names are untouched.
   Every (expression, line) pair is exported as a conformance case and replayed through Engine.Eval. *)
EXTENDS Pipeline, TLC, Json

CONSTANTS MaxLen, Pools
Base == 1700000000
GA == <<97>>       \* group / label names a, b, o
GB == <<98>>
GO == <<111>>
ra == RLit(97)
rb == RLit(98)
rx == RLit(120)
Exprs ==
  { RAlt(RCap(GA, ra), RCap(GB, rb)),                                  \* (?P<a>a)|(?P<b>b)            one side takes no part
    RCat(ROpt(RCap(GA, rx)), RCap(GB, rb)),                            \* (?P<a>x)?(?P<b>b)
    RPlus(RCap(GO, RAlt(RCap(GA, ra), rb))),                           \* (?P<o>(?P<a>a)|b)+           nested, last iteration wins, inner keeps earlier
    RCat(RCap(GA, RStar(ra)), RCap(GB, RStar(RAlt(ra, rb)))),           \* (?P<a>a*)(?P<b>(a|b)*)       greedy split
    RCat(RCap(GA, RAlt(ra, RCat(ra, rb))), RCap(GB, ROpt(rb))),          \* (?P<a>a|ab)(?P<b>b?)         leftmost-first, not longest
    RCat(RBol, RCat(RCap(GA, RPlus(RNCls(<<120>>))), REol)),         \* ^(?P<a>[^x]+)$
    RCat(RCap(GA, RAny), RCat(rx, RCap(GB, RAny))),
    RCat(RGrp(RAlt(ra, rb)), RCap(GA, rx)) }                          \* (a|b)(?P<a>x)               an unnamed group shifts the index                  \* (?P<a>.)x(?P<b>.)
  \cup (IF Pools = "full"
          THEN { RCat(RCap(GA, ROpt(ra)), RCap(GB, ROpt(ra))),                         \* (?P<a>a?)(?P<b>a?)
                 RStar(RCat(RCap(GA, ra), ROpt(RCap(GB, rb)))),                        \* ((?P<a>a)(?P<b>b)?)*   b keeps an earlier iteration's value
                 RCat(RCap(GA, RStar(RCls(<<97, 98>>))), RCat(rx, RCap(GB, REps))),   \* (?P<a>[ab]*)x(?P<b>)   empty group that takes part
                 RAlt(RCat(RCap(GA, ra), RCat(rb, rx)), RCat(ra, RCap(GB, rb))) }         \* (?P<a>a)bx|a(?P<b>b)  first alternative fails late
          ELSE {})
Alphabet == {97, 98, 120}
RECURSIVE Strings(_)
Strings(n) == IF n = 0 THEN {<<>>} ELSE LET S == Strings(n - 1) IN S \cup {Append(s, c) : s \in {t \in S : Len(t) = n - 1}, c \in Alphabet}

VARIABLES re, line, old, pc
vars == <<re, line, old, pc>>
Init == re \in Exprs /\ line \in Strings(MaxLen) /\ old \in BOOLEAN /\ pc = "gen"

St == [t |-> "regexp", val |-> ReText(re), re |-> re]
Rec == [id |-> 1, ts |-> <<Base + 1, 0>>, line |-> line, attrs |-> IF old THEN << <<GA, <<111, 108, 100>>>>, <<<<122>>, <<122>>>> >> ELSE <<>>, doc |-> <<>>,
        jdoc |-> [k |-> "obj", fields |-> <<>>], jcanon |-> FALSE, jmal |-> TRUE, lmal |-> FALSE]
Case == [in |-> [recs |-> <<Rec>>, sel |-> <<>>, stages |-> <<St>>, queries |-> <<>>, caps |-> << [label |-> <<>>, line |-> <<>>] >>, limit |-> 0 - 1,
                 start |-> <<Base - 100, 0>>, end |-> <<Base + 100, 0>>]]
Export == pc = "gen" /\ pc' = "done" /\ UNCHANGED <<re, line, old>> /\ PrintT(<<"CASE", ToJson(Case)>>)
Next == Export

L0 == RecordLabels(Rec)
Res == Stage(St, {}, Rec, line, L0)
M == FirstMatch(re, line)
GroupNames == {CapNames(re)[k] : k \in DOMAIN CapNames(re)}

WellFormed == StageWellFormed(St)
\* two transcriptions of "where can r end when started at i" agree
PrioAgreesWithEnds == \A i \in 1..(Len(line) + 1) : {Prio(re, line, i)[k].e : k \in DOMAIN Prio(re, line, i)} = Ends(re, line, i)
\* ... and of "is there a match at all"
FoundIffSearch == M.found = Search(re, line)
NeverDroppedNorChanged == Res.keep /\ Res.line = line /\ ~Has(Res.L, S_error)
NoMatchNoChange == ~M.found => Res.L = L0 /\ Res.opt = {} /\ Res.vopen = {}
\* groups that took part: exactly the bytes they spanned, inside the match
GroupsAreSpans == M.found => \A t \in M.c : /\ M.b <= t[2] /\ t[2] <= t[3] /\ t[3] <= M.e
                                            /\ Get(Res.L, t[1]) = SubSeq(line, t[2], t[3] - 1)
                                            /\ t[1] \notin Res.opt
OthersUntouched == \A p \in L0 : p[1] \notin GroupNames => p \in Res.L
\* what the stage adds are group names only
OnlyGroups == NamesOf(Res.L) \subseteq NamesOf(L0) \cup GroupNames
=============================================================================
