---------------------------- MODULE TraceCommon ----------------------------
(* Shared skeleton of the trace specifications.  A recorded trace is a sequence of scenarios; each starts
   with a "Scenario" event that carries the inputs and is followed by the observations of the real code.
   A family's trace specification is a deterministic automaton over that sequence: every event either is
   explained by one of the family's actions (its guard holds in the current state) or it is not.  In the
   second case the scenario is put into `bad` and the automaton skips to the next scenario, so a single
   TLC run examines the whole batch and reports every rejected scenario.
   Acceptance: the final action prints RESULT <events consumed, scenarios seen, bad>. *)
EXTENDS Integers, Sequences, TLC, Json, IOUtils

CONSTANT Dev            \* set of named deviations (known findings) switched on for this run

VARIABLES l,            \* index of the next event
          bad,          \* scenario ids with an unexplained event
          skip,         \* TRUE while skipping the rest of a rejected scenario
          nscn          \* scenarios started

tcvars == <<l, bad, skip, nscn>>

Trace == ndJsonDeserialize(IOEnv.TRACE_FILE)
More  == l <= Len(Trace)
Ev    == Trace[l]
IsEv(name) == More /\ ~skip /\ Ev.ev = name
Has(r, f) == f \in DOMAIN r

TCInit == l = 1 /\ bad = {} /\ skip = FALSE /\ nscn = 0

\* bookkeeping of the four kinds of step
Begin   == More /\ Ev.ev = "Scenario" /\ l' = l + 1 /\ skip' = FALSE /\ nscn' = nscn + 1 /\ bad' = bad
Accept  == l' = l + 1 /\ UNCHANGED <<bad, skip, nscn>>
Reject  == More /\ ~skip /\ Ev.ev # "Scenario" /\ l' = l + 1 /\ bad' = bad \cup {Ev.scn} /\ skip' = TRUE /\ nscn' = nscn
Skipped == More /\ skip /\ Ev.ev # "Scenario" /\ l' = l + 1 /\ UNCHANGED <<bad, skip, nscn>>
Finish  == l = Len(Trace) + 1 /\ l' = l + 1 /\ UNCHANGED <<bad, skip, nscn>>
           /\ PrintT(<<"RESULT", Len(Trace), nscn, bad>>)
=============================================================================
