---------------------------- MODULE TraceCommon ----------------------------
(* Shared skeleton of the trace specifications.  A recorded trace is a sequence of scenarios; each starts
   with a "Scenario" event that carries the inputs and is followed by the observations of the real code.
   A family's trace specification is a deterministic automaton over that sequence: every event either is
   explained by one of the family's actions (its guard holds in the current state) or it is not.  In the
   second case the scenario is put into `bad` and the automaton skips to the next scenario, so a single
   TLC run examines the whole batch and reports every rejected scenario.
   Acceptance: the final action prints RESULT <events consumed, scenarios seen, bad>. *)
EXTENDS Integers, Sequences, TLC, Json, IOUtils

CONSTANT Dev            \* set of named deviations (known findings) switched on for this run

VARIABLES l,            \* index of the next event
          bad,          \* scenario ids with an unexplained event
          skip,         \* TRUE while skipping the rest of a rejected scenario
          nscn,         \* scenarios started
          envbad        \* scenario ids whose CASE (not the code) violates the family's assumptions: a harness error

tcvars == <<l, bad, skip, nscn, envbad>>

Trace == ndJsonDeserialize(IOEnv.TRACE_FILE)
More  == l <= Len(Trace)
Ev    == Trace[l]
IsEv(name) == More /\ ~skip /\ Ev.ev = name
Has(r, f) == f \in DOMAIN r

TCInit == l = 1 /\ bad = {} /\ skip = FALSE /\ nscn = 0 /\ envbad = {}

\* bookkeeping of the four kinds of step
Begin   == More /\ Ev.ev = "Scenario" /\ l' = l + 1 /\ skip' = FALSE /\ nscn' = nscn + 1 /\ bad' = bad /\ envbad' = envbad
Accept  == l' = l + 1 /\ UNCHANGED <<bad, skip, nscn, envbad>>
Reject  == More /\ ~skip /\ Ev.ev # "Scenario" /\ l' = l + 1 /\ bad' = bad \cup {Ev.scn} /\ skip' = TRUE /\ nscn' = nscn /\ envbad' = envbad
\* the case itself is outside the family's assumptions (generator / fake at fault): never a verdict about the code
RejectEnv == More /\ ~skip /\ Ev.ev # "Scenario" /\ l' = l + 1 /\ envbad' = envbad \cup {Ev.scn} /\ skip' = TRUE /\ nscn' = nscn /\ bad' = bad
Skipped == More /\ skip /\ Ev.ev # "Scenario" /\ l' = l + 1 /\ UNCHANGED <<bad, skip, nscn, envbad>>
Finish  == l = Len(Trace) + 1 /\ l' = l + 1 /\ UNCHANGED <<bad, skip, nscn, envbad>>
           /\ PrintT(<<"RESULT", Len(Trace), nscn, bad>>) /\ PrintT(<<"ENVBAD", envbad>>)
=============================================================================
