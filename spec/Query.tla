-------------------------------- MODULE Query --------------------------------
(* LogQL query structure (C05): the "wire" form of a query AST - what logql.Parse must produce for the text that is
   written from the AST - and the static rules of the grammar.
   Anchors: internal/logql/parser*.go, metric_expr.go, pipeline.go, op.go. *)
EXTENDS Integers, Sequences, FiniteSets, Num, JsonDoc, Tmpl, Pattern, Regex

NormPair(p) == LET r == Norm(p[1], p[2]) IN <<r.n, r.d>>
\* the compiled expression of a regex position: a matcher's is anchored on both sides, a line filter's is as written
Anchored(op, val) == IF op \in {"re", "nre"} THEN <<94, 40, 63, 58>> \o val \o <<41, 36>> ELSE <<>>
WireMatchers(ms) == [k \in DOMAIN ms |-> [label |-> ms[k].label, op |-> ms[k].op, val |-> ms[k].val, re |-> Anchored(ms[k].op, ms[k].val)]]

RECURSIVE WirePred(_)
WirePred(p) == CASE p.t = "m" -> [t |-> "m", label |-> p.label, op |-> p.op, val |-> p.val, re |-> Anchored(p.op, p.val)]
                 [] p.t \in {"num", "dur", "bytes"} -> [t |-> p.t, label |-> p.label, op |-> p.op, val |-> NormPair(p.val)]
                 [] p.t = "ip" -> [t |-> "ip", label |-> p.label, op |-> p.op, val |-> p.val]
                 [] p.t = "paren" -> WirePred(p.a)                      \* parentheses carry no meaning of their own
                 [] p.t \in {"and", "or"} -> [t |-> p.t, a |-> WirePred(p.a), b |-> WirePred(p.b)]

WireStage(st) ==
  CASE st.t = "line" -> IF "ip" \in DOMAIN st /\ st.ip THEN [t |-> "lineip", op |-> st.op, val |-> st.val]
                        ELSE [t |-> "line", op |-> st.op, val |-> st.val, re |-> IF st.op \in {"re", "nre"} THEN st.val ELSE <<>>]
    [] st.t = "label" -> [t |-> "label", pred |-> WirePred(st.pred)]
    [] st.t = "json" -> [t |-> "json", labels |-> st.labels, exprs |-> [k \in DOMAIN st.exprs |-> <<st.exprs[k].label, PathText(st.exprs[k].path, TRUE)>>]]
    [] st.t = "logfmt" -> [t |-> "logfmt", labels |-> st.labels, exprs |-> [k \in DOMAIN st.lexprs |-> <<st.lexprs[k].label, st.lexprs[k].key>>]]
    [] st.t = "pattern" -> [t |-> "pattern", txt |-> PatText(st.parts)]
    \* the regexp stage: its text and which capture index carries which name (groups count from 1 in order of "(")
    [] st.t = "regexp" -> [t |-> "regexp", txt |-> st.val, names |-> Indexed(st.re, 1)]
    [] st.t \in {"unpack", "decolorize"} -> [t |-> st.t]
    [] st.t = "linefmt" -> [t |-> "linefmt", txt |-> TmplText(st.parts)]
    [] st.t = "labelfmt" -> [t |-> "labelfmt", renames |-> [k \in DOMAIN st.renames |-> <<st.renames[k].dst, st.renames[k].src>>],
                             tmpls |-> [k \in DOMAIN st.tmpls |-> <<st.tmpls[k].dst, TmplText(st.tmpls[k].parts)>>]]
    [] st.t \in {"drop", "keep"} -> [t |-> st.t, labels |-> st.labels, matchers |-> WireMatchers(st.matchers)]
    [] st.t = "distinct" -> [t |-> "distinct", labels |-> IF "labels" \in DOMAIN st /\ st.labels # <<>> THEN st.labels ELSE <<st.label>>]
WireStages(sts) == [k \in DOMAIN sts |-> WireStage(sts[k])]

NoMod == [op |-> "", labels |-> <<>>, group |-> "", include |-> <<>>]
Opt(e, f) == IF f \in DOMAIN e THEN e[f] ELSE <<>>      \* an empty string is left out of the case
RECURSIVE WireExpr(_)
WireExpr(e) ==
  CASE e.t = "range" -> [t |-> "range", op |-> e.op, sel |-> WireMatchers(e.sel), stages |-> WireStages(e.stages), range |-> e.range, offset |-> e.offset,
                         unwrap |-> [on |-> e.unwrap.on, label |-> e.unwrap.label, conv |-> e.unwrap.conv,
                                     filters |-> WireMatchers(IF "filters" \in DOMAIN e.unwrap THEN e.unwrap.filters ELSE <<>>)],
                         param |-> IF e.op = "quantile_over_time" THEN NormPair(e.param) ELSE <<0, 1>>, grp |-> [mode |-> e.grp.mode, labels |-> e.grp.labels]]
    [] e.t = "vecagg" -> [t |-> "vecagg", op |-> e.op, k |-> IF e.op \in {"topk", "bottomk"} THEN e.k ELSE 0, grp |-> [mode |-> e.grp.mode, labels |-> e.grp.labels], e |-> WireExpr(e.e)]
    \* a vector-matching modifier is kept as written: on / ignoring with its labels, group_left / group_right with its include list
    [] e.t = "binop" -> [t |-> "binop", op |-> e.op, bool |-> e.bool, a |-> WireExpr(e.a), b |-> WireExpr(e.b),
                         mod |-> IF "mod" \in DOMAIN e THEN [op |-> e.mod.op, labels |-> e.mod.labels, group |-> e.mod.group, include |-> e.mod.include] ELSE NoMod]
    \* label_replace(e, dst, replacement, src, regex): four strings in that order; the regex is compiled anchored on both sides
    [] e.t = "lrepl" -> [t |-> "lrepl", e |-> WireExpr(e.e), dst |-> Opt(e, "dst"), repl |-> Opt(e, "repl"), src |-> Opt(e, "src"), regex |-> Opt(e, "regex"),
                         re |-> <<94, 40, 63, 58>> \o Opt(e, "regex") \o <<41, 36>>]
    [] e.t \in {"lit", "vector"} -> [t |-> e.t, v |-> NormPair(e.v)]
WireQuery(in) == IF in.kind = "log" THEN [t |-> "log", sel |-> WireMatchers(in.sel), stages |-> WireStages(in.stages)] ELSE WireExpr(in.expr)

\* ---- static rules (validate(), parser checks)
Groupable == {"avg_over_time", "stddev_over_time", "stdvar_over_time", "quantile_over_time", "max_over_time", "min_over_time", "first_over_time", "last_over_time"}
NeedsUnwrap == {"avg_over_time", "sum_over_time", "min_over_time", "max_over_time", "stdvar_over_time", "stddev_over_time", "quantile_over_time", "first_over_time", "last_over_time"}
NoUnwrap == {"count_over_time", "bytes_over_time", "bytes_rate"}
RECURSIVE WellFormedExpr(_)
WellFormedExpr(e) ==
  CASE e.t = "range" -> /\ (e.grp.mode # "none" => e.op \in Groupable)
                        /\ (e.op \in NeedsUnwrap => e.unwrap.on) /\ (e.op \in NoUnwrap => ~e.unwrap.on)
                        /\ e.range > 0
    [] e.t = "vecagg" -> /\ (e.op \in {"topk", "bottomk"} => e.k > 0) /\ (e.op \in {"sort", "sort_desc"} => e.grp.mode = "none") /\ WellFormedExpr(e.e)
    [] e.t = "binop" -> WellFormedExpr(e.a) /\ WellFormedExpr(e.b) /\ (e.op \in {"and", "or", "unless"} => e.a.t # "lit" /\ e.b.t # "lit")
                        /\ ~(e.a.t = "lit" /\ e.b.t = "lit")
                        /\ ("mod" \in DOMAIN e => e.mod.op \in {"on", "ignoring"} /\ e.mod.group \in {"", "left", "right"} /\ (e.mod.group = "" => e.mod.include = <<>>))
    [] e.t = "lrepl" -> WellFormedExpr(e.e)
    [] OTHER -> TRUE
\* the mutations of the conformance cases: each produces a text that the grammar or a static rule forbids
Mutations == {"drop_close_brace", "drop_close_paren", "drop_close_bracket", "double_pipe", "trailing_op", "trailing_junk", "unterminated_string",
              "bad_regex", "bad_label_regex", "unwrap_in_log", "dup_label_format", "dup_label_format_mixed", "dup_label_format_mixed2", "dup_label_format_tmpl", "empty_selector_matcher", "quantile_no_param", "param_not_allowed",
              "topk_no_param", "topk_zero", "sort_grouping", "range_grouping", "unwrap_missing", "unwrap_forbidden", "missing_range",
              "lrepl_bad_regex", "lrepl_three_args", "lrepl_bare_arg", "on_without_labels", "group_without_on", "upper_keyword", "upper_stage"}
=============================================================================
