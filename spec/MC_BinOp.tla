------------------------------ MODULE MC_BinOp ------------------------------
(* C12, step 1.  Binary operations.  Implementation-shaped: vector o vector builds a map of the LEFT samples by
   grouping key and walks the RIGHT samples, emitting left's labels with op(left, right) for the matches
   (binOpIterator); and / or / unless work on key sets (buildMergeSamplesOp); vector o scalar puts the literal
   on the side it was written (literalBinOpIterator).  Declarative: Metric.BinVec / Arith / Holds.
   Checked for every pair of vectors over the label `zone` (overlapping, disjoint, empty), every operator,
   scalar and side. *)
EXTENDS Metric, TLC, Json

CONSTANTS Pools
Base == 1700000000
APP == <<97, 112, 112>>
ZONE == <<122, 111, 110, 101>>
Zones == {<<>>, <<120>>, <<121>>}                       \* <<>>: records without a zone label -> series {}
ZonesQ == {<<120>>, <<121>>}
Zs == IF Pools = "full" THEN Zones ELSE ZonesQ
ArithOps == {"add", "sub", "mul", "div", "mod", "pow"}
SetOps == {"and", "or", "unless"}
Scalars == { <<0, 1>>, <<2, 1>>, <<0 - 3, 1>>, <<1, 2>> }

VARIABLES A, B,        \* zone -> number of log lines of app a / app b (0: no such series)
          mode, op, bool, scalar, pc
vars == <<A, B, mode, op, bool, scalar, pc>>

Init == A \in [Zs -> 0..2] /\ B \in [Zs -> 0..2] /\ mode = "vv" /\ op = "add" /\ bool = FALSE /\ scalar = <<0, 1>> /\ pc = "gen"

LabelsZ(z) == IF z = <<>> THEN {} ELSE {<<ZONE, z>>}
Vec(F) == {[L |-> LabelsZ(z), v |-> RatV(F[z], 1), sq |-> FALSE] : z \in {z \in Zs : F[z] > 0}}

\* ---- implementation-shaped
\* binOpIterator.Next: leftSamples[key] = s; for each right sample: lookup, apply
ImplVV(o) == LET L == Vec(A) Rr == Vec(B) IN
             {[L |-> (CHOOSE l \in L : l.L = r.L).L, v |-> Arith(o, (CHOOSE l \in L : l.L = r.L).v, r.v), sq |-> FALSE]
                : r \in {r \in Rr : \E l \in L : l.L = r.L}}
ImplSet(o) == LET L == Vec(A) Rr == Vec(B) keysR == {r.L : r \in Rr} keysL == {l.L : l \in L} IN
              CASE o = "and" -> IF L = {} \/ Rr = {} THEN {} ELSE {l \in L : l.L \in keysR}
                [] o = "or" -> IF L = {} THEN Rr ELSE IF Rr = {} THEN L ELSE L \cup {r \in Rr : r.L \notin keysL}
                [] o = "unless" -> IF L = {} \/ Rr = {} THEN L ELSE {l \in L : l.L \notin keysR}
\* literalBinOpIterator: literal takes the sample's labels; left/right as written
ImplVS(o, litLeft) == {[L |-> s.L, v |-> IF litLeft THEN Arith(o, LitV(scalar), s.v) ELSE Arith(o, s.v, LitV(scalar)), sq |-> FALSE] : s \in Vec(A)}

\* ---- the same through the declarative evaluator, on an expression over two fixed leaves
LeafA == [t |-> "vecagg", op |-> "sum", k |-> 0, grp |-> [mode |-> "by", labels |-> <<ZONE>>], e |-> [t |-> "range", id |-> 1]]
DeclVV(o) == BinVec(o, Vec(A), Vec(B))
DeclVS(o, litLeft) == {[L |-> s.L, v |-> IF litLeft THEN Arith(o, LitV(scalar), s.v) ELSE Arith(o, s.v, LitV(scalar)), sq |-> FALSE] : s \in Vec(A)}

Choose == pc = "gen" /\ pc' = "eval"
          /\ \/ mode' = "vv" /\ (\E o \in ArithOps \cup SetOps \cup CmpOps : op' = o) /\ bool' = FALSE /\ scalar' = <<0, 1>>
             \/ (\E m \in {"vs", "sv"} : mode' = m) /\ (\E o \in ArithOps \cup CmpOps : op' = o) /\ (\E s \in Scalars : scalar' = s)
                /\ (\E bl \in BOOLEAN : bool' = bl /\ (bl => op' \in CmpOps))
          /\ UNCHANGED <<A, B>>

\* ---- properties
ArithMatches == pc = "eval" /\ mode = "vv" /\ op \in ArithOps => ImplVV(op) = DeclVV(op)
SetOpsMatch  == pc = "eval" /\ mode = "vv" /\ op \in SetOps => ImplSet(op) = DeclVV(op)
\* one series per label set present on both sides, carrying the left labels
JoinShape == pc = "eval" /\ mode = "vv" /\ op \in ArithOps =>
               {s.L : s \in ImplVV(op)} = {a.L : a \in Vec(A)} \cap {b.L : b \in Vec(B)}
\* the scalar stays on the side it was written: sub, div, mod, pow are not commutative
SideMatters == pc = "eval" /\ mode \in {"vs", "sv"} /\ op \in ArithOps => ImplVS(op, mode = "sv") = DeclVS(op, mode = "sv")
DivModByZero == pc = "eval" /\ mode = "vs" /\ op \in {"div", "mod"} /\ scalar[1] = 0 => \A s \in ImplVS(op, FALSE) : s.v = NaNV

\* ---- export
M == <<109>>
RECURSIVE RecsOf(_, _, _, _)
RecsOf(F, app, zs, id) == IF zs = {} THEN <<>>
  ELSE LET z == CHOOSE z \in zs : TRUE IN
       [j \in 1..F[z] |-> [id |-> id + j, ts |-> <<Base + id + j, 0>>, line |-> M,
                           attrs |-> << <<APP, app>> >> \o (IF z = <<>> THEN <<>> ELSE << <<ZONE, z>> >>), doc |-> <<>>]]
       \o RecsOf(F, app, zs \ {z}, id + F[z])
RangeOf(id, app) == [t |-> "range", id |-> id, op |-> "count_over_time", sel |-> << [label |-> APP, op |-> "eq", val |-> app, re |-> [t |-> "eps"]] >>,
                     stages |-> << [t |-> "drop", labels |-> << <<109, 115, 103>> >>] >>, range |-> 100, offset |-> 0,
                     unwrap |-> [on |-> FALSE, label |-> <<>>, conv |-> ""], param |-> <<0, 1>>, grp |-> [mode |-> "none", labels |-> <<>>],
                     k |-> 0, bool |-> FALSE, v |-> <<0, 1>>, paren |-> FALSE]
SumBy(e) == [t |-> "vecagg", id |-> 0, op |-> "sum", k |-> 0, grp |-> [mode |-> "by", labels |-> <<ZONE>>], e |-> e, bool |-> FALSE, v |-> <<0, 1>>, paren |-> FALSE]
Lit == [t |-> "lit", id |-> 0, op |-> "", v |-> scalar, bool |-> FALSE, k |-> 0, paren |-> FALSE]
Expr == [t |-> "binop", id |-> 0, op |-> op, bool |-> bool, k |-> 0, v |-> <<0, 1>>, paren |-> FALSE,
         a |-> IF mode = "sv" THEN Lit ELSE SumBy(RangeOf(1, <<97>>)),
         b |-> IF mode = "vs" THEN Lit ELSE IF mode = "sv" THEN SumBy(RangeOf(1, <<97>>)) ELSE SumBy(RangeOf(2, <<98>>))]
Case == [in |-> [recs |-> RecsOf(A, <<97>>, Zs, 0) \o RecsOf(B, <<98>>, Zs, 10), expr |-> Expr,
                 evals |-> << [start |-> Base + 50, end |-> Base + 50, step |-> 0], [start |-> Base + 40, end |-> Base + 70, step |-> 15] >>, reps |-> 1]]
\* the same vectors, but varying over the steps of a range query: A and B in the first window, only B in the second, nothing in the third
\* (a join must be computed from the samples of ITS step only)
RangeN(e) == [e EXCEPT !.range = 30]
SumByN(id, app) == SumBy(RangeN(RangeOf(id, app)))
ExprN == [Expr EXCEPT !.a = IF mode = "sv" THEN Lit ELSE SumByN(1, <<97>>),
                      !.b = IF mode = "vs" THEN Lit ELSE IF mode = "sv" THEN SumByN(1, <<97>>) ELSE SumByN(2, <<98>>)]
CaseN == [in |-> [recs |-> RecsOf(A, <<97>>, Zs, 0) \o RecsOf(B, <<98>>, Zs, 10) \o RecsOf(B, <<98>>, Zs, 40), expr |-> ExprN,
                  evals |-> << [start |-> Base + 35, end |-> Base + 95, step |-> 30] >>, reps |-> 1]]
\* comparisons over samples that are NaN (x % 0): only != holds, whichever side the NaN is on and also between two NaNs
Lit0 == [t |-> "lit", id |-> 0, op |-> "", v |-> <<0, 1>>, bool |-> FALSE, k |-> 0, paren |-> FALSE]
NaNWrap(e) == [t |-> "binop", id |-> 0, op |-> "mod", bool |-> FALSE, k |-> 0, v |-> <<0, 1>>, paren |-> TRUE, a |-> e, b |-> Lit0]
ExprNaN == [Expr EXCEPT !.a = IF mode = "sv" THEN Lit ELSE NaNWrap(SumBy(RangeOf(1, <<97>>))),
                        !.b = IF mode = "vs" THEN Lit ELSE IF mode = "sv" THEN NaNWrap(SumBy(RangeOf(1, <<97>>))) ELSE NaNWrap(SumBy(RangeOf(2, <<98>>)))]
CaseNaN == [Case EXCEPT !.in.expr = ExprNaN]
NaNOnlyUnequal == \A o \in CmpOps, x \in {NaNV, One} : Holds(o, NaNV, x) = (o = "neq") /\ Holds(o, x, NaNV) = (o = "neq")
Export == pc = "eval" /\ pc' = "done" /\ UNCHANGED <<A, B, mode, op, bool, scalar>> /\ PrintT(<<"CASE", ToJson(Case)>>)
          /\ (mode = "vv" => PrintT(<<"CASE", ToJson(CaseN)>>))
          /\ (op \in CmpOps => PrintT(<<"CASE", ToJson(CaseNaN)>>))
Next == Choose \/ Export
=============================================================================
