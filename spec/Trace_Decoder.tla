--------------------------- MODULE Trace_Decoder ---------------------------
(* C03, step 3.  Observations of dockerlog.ParseLog (consumer "parselog") and of Engine.Eval over the
   Docker-backed storage (consumers "evallog", "evalrange") are checked against Decode(frames, fault). *)
EXTENDS TraceCommon, Docker, FiniteSets

VARIABLES frames, fault, consumer,
          exp,      \* Decode(frames, fault)
          seen,     \* parselog: records received so far; evallog: set of frame indices matched by entries
          phase     \* "recs" | "ended" | "returned"
fam == <<frames, fault, consumer, exp, seen, phase>>
vars == <<tcvars, fam>>

Init == TCInit /\ frames = <<>> /\ fault = [kind |-> "none", pos |-> 0] /\ consumer = "" /\ exp = [n |-> 0, err |-> FALSE]
        /\ seen = {} /\ phase = "recs"

Start == Begin /\ frames' = Trace[l].in.frames /\ fault' = Trace[l].in.fault /\ consumer' = Trace[l].in.consumer
         /\ exp' = Decode(Trace[l].in.frames, Trace[l].in.fault) /\ seen' = {} /\ phase' = "recs"

\* ---- ParseLog: the i-th record is exactly the i-th frame
RecOk == consumer = "parselog" /\ phase = "recs"
         /\ LET i == Cardinality(seen) + 1 IN
            i <= exp.n /\ Ev.ts = frames[i].ts /\ Ev.msg = frames[i].msg
EvRec == IsEv("Rec") /\ RecOk /\ Accept /\ seen' = seen \cup {Cardinality(seen) + 1} /\ UNCHANGED <<frames, fault, consumer, exp, phase>>

IterEndOk == consumer = "parselog" /\ phase = "recs" /\ Cardinality(seen) = exp.n /\ Ev.err = exp.err
EvIterEnd == IsEv("IterEnd") /\ IterEndOk /\ Accept /\ phase' = "ended" /\ UNCHANGED <<frames, fault, consumer, exp, seen>>

\* polling again after the end: still no record, and a reported error is still reported
AgainOk == consumer = "parselog" /\ phase = "ended" /\ Ev.ok = FALSE /\ Ev.err = exp.err
EvAgain == IsEv("Again") /\ AgainOk /\ Accept /\ UNCHANGED fam

\* ---- Engine.Eval('{}'): entries are the delivered frames as a bag (streams are keyed by content)
EntryMatches(i) == i \notin seen /\ Ev.ts = frames[i].ts /\ Ev.line = frames[i].msg
EntryOk == consumer = "evallog" /\ phase = "recs" /\ ~exp.err /\ \E i \in 1..exp.n : EntryMatches(i)
EvEntry == IsEv("Entry") /\ EntryOk /\ Accept
           /\ seen' = seen \cup {CHOOSE i \in 1..exp.n : EntryMatches(i)}
           /\ UNCHANGED <<frames, fault, consumer, exp, phase>>

ReturnOk == consumer \in {"evallog", "evalrange"} /\ phase = "recs"
            /\ Ev.outcome = (IF exp.err THEN "err" ELSE "ok")
            /\ (consumer = "evallog" /\ ~exp.err => Cardinality(seen) = exp.n)
EvReturn == IsEv("Return") /\ ReturnOk /\ Accept /\ phase' = "returned" /\ UNCHANGED <<frames, fault, consumer, exp, seen>>

TotalOk == consumer = "evalrange" /\ phase = "returned" /\ ~exp.err /\ Ev.n = exp.n
EvTotal == IsEv("Total") /\ TotalOk /\ Accept /\ UNCHANGED fam

Explained == \/ Ev.ev = "Rec" /\ RecOk
             \/ Ev.ev = "IterEnd" /\ IterEndOk
             \/ Ev.ev = "Again" /\ AgainOk
             \/ Ev.ev = "Entry" /\ EntryOk
             \/ Ev.ev = "Return" /\ ReturnOk
             \/ Ev.ev = "Total" /\ TotalOk
Bad  == Reject /\ ~Explained /\ UNCHANGED fam
Next == Start \/ EvRec \/ EvIterEnd \/ EvAgain \/ EvEntry \/ EvReturn \/ EvTotal \/ Bad
        \/ (Skipped /\ UNCHANGED fam) \/ (Finish /\ UNCHANGED fam)
TraceSpec == Init /\ [][Next]_vars
=============================================================================
