----------------------------- MODULE MC_Resolve -----------------------------
(* C16, step 1.  parseTimeRange transcribed step by step (since, end, end-or-now, start) and parseStep, checked
   against the declarative Resolve / StepDenote / DefaultStep for a grid of instants between 2001 and 2200 (on the
   9/10-digit and 2^31 boundaries), the four spellings of each, all 16 presence patterns of the flags, several
   durations and every class of malformed value. *)
EXTENDS CLI, Bytes, TLC, Json, FiniteSets

CONSTANTS Pools

Instants == IF Pools = "full"
  THEN { <<0, 999999999, 0>>, <<1, 0, 0>>, <<1, 700000000, 0>>, <<1, 700000000, 500000000>>, <<2, 147483647, 0>>, <<2, 147483648, 123000000>>,
         <<7, 258118399, 0>>, <<0, 978307200, 0>>, <<4, 102444800, 999000000>>, <<1, 700021600, 0>> }
  ELSE { <<0, 999999999, 0>>, <<1, 700000000, 500000000>>, <<7, 258118399, 0>> }
Nows == IF Pools = "full" THEN { <<1, 700000000, 0>>, <<1, 700010000, 250000000>>, <<0, 999999990, 0>>, <<7, 258118000, 0>> } ELSE { <<1, 700000000, 7>> }

Pad9(n) == LET d == DecBytes(n) IN [i \in 1..(9 - Len(d)) |-> 48] \o d
Pad3(n) == LET d == DecBytes(n) IN [i \in 1..(3 - Len(d)) |-> 48] \o d
SecDigits(t) == IF t[1] > 0 THEN DecBytes(t[1]) \o Pad9(t[2]) ELSE DecBytes(t[2])
SpellingsOf(t) == {[kind |-> "rfc", t |-> t, txt |-> <<>>], [kind |-> "nano", t |-> t, txt |-> SecDigits(t) \o Pad9(t[3])]}
                  \cup (IF t[3] = 0 THEN {[kind |-> "sec", t |-> t, txt |-> SecDigits(t)]} ELSE {})
                  \cup (IF t[3] % 1000000 = 0 THEN {[kind |-> "frac", t |-> t, txt |-> SecDigits(t) \o <<46>> \o Pad3(t[3] \div 1000000)]} ELSE {})
BadTimes == { <<97, 98, 99>>, <<49, 50, 120>>, <<49, 46, 50, 46, 51>>, <<32, 49, 50, 51>>, <<50, 48, 50, 52, 45, 48, 49, 45, 48, 49>> }     \* abc 12x 1.2.3 " 123" 2024-01-01
RawSpells == {[kind |-> "raw", t |-> <<0, 0, 0>>, txt |-> b] : b \in BadTimes}
Spells == UNION {SpellingsOf(t) : t \in Instants}
Sinces == { <<54, 104>>, <<49, 104, 51, 48, 109>>, <<49, 100>>, <<49, 53, 115>>, <<49, 121>>, <<49, 109, 115>> }     \* 6h 1h30m 1d 15s 1y 1ms
BadSinces == { <<54>>, <<49, 104, 49, 100>>, <<45, 49, 104>>, <<49, 46, 53, 104>>, <<97, 98, 99>> }                     \* 6 1h1d -1h 1.5h abc
Steps == { <<49, 53>>, <<48, 46, 53>>, <<49, 53, 115>>, <<49, 104, 51, 48, 109>>, <<50, 53, 48, 109, 115>> }           \* 15 0.5 15s 1h30m 250ms
BadSteps == { <<97, 98, 99>>, <<49, 113>>, <<48>>, <<45, 49>>, <<78, 97, 78>>, <<48, 115>>, <<49, 46, 50, 46, 51>>, <<48, 46, 48>> }   \* abc 1q 0 -1 NaN 0s 1.2.3 0.0

VARIABLES now, has, st, en, since, step, pc, sinceV, endV, startV, outcome
vars == <<now, has, st, en, since, step, pc, sinceV, endV, startV, outcome>>
NoSpell == [kind |-> "rfc", t |-> <<1, 0, 0>>, txt |-> <<>>]

Few(S, keep) == IF Pools = "full" THEN S ELSE keep
Init == /\ now \in Nows /\ has \in [1..4 -> BOOLEAN]
        /\ st \in Spells \cup Few(RawSpells, {[kind |-> "raw", t |-> <<0, 0, 0>>, txt |-> <<49, 50, 120>>]})
        /\ en \in Spells \cup Few(RawSpells, {[kind |-> "raw", t |-> <<0, 0, 0>>, txt |-> <<49, 46, 50, 46, 51>>]})
        /\ since \in Few(Sinces, {<<54, 104>>, <<49, 104, 51, 48, 109>>, <<49, 109, 115>>}) \cup Few(BadSinces, {<<54>>, <<49, 104, 49, 100>>})
        /\ step \in Few(Steps, {<<49, 53>>, <<48, 46, 53>>, <<49, 104, 51, 48, 109>>}) \cup Few(BadSteps, {<<48>>, <<45, 49>>, <<78, 97, 78>>, <<48, 115>>})
        \* absent flags carry a fixed placeholder (keeps the state space to the combinations that matter)
        /\ (~has[1] => st = NoSpell) /\ (~has[2] => en = NoSpell) /\ (~has[3] => since = <<54, 104>>) /\ (~has[4] => step = <<49, 53>>)
        \* at most one malformed flag per case
        /\ Cardinality({i \in 1..4 : (i = 1 /\ st.kind = "raw") \/ (i = 2 /\ en.kind = "raw") \/ (i = 3 /\ since \in BadSinces) \/ (i = 4 /\ step \in BadSteps)}) <= 1
        /\ pc = "start" /\ sinceV = <<0, 0>> /\ endV = <<0, 0, 0>> /\ startV = <<0, 0, 0>> /\ outcome = "none"

Shown(sp) == sp.txt         \* for rfc spellings the text is produced by the harness; the model only needs the denotation
Case == [in |-> [kind |-> "time", now |-> now, has |-> has, start |-> st, end |-> en, since |-> since, step |-> step]]
Export == pc = "start" /\ pc' = "since" /\ UNCHANGED <<now, has, st, en, since, step, sinceV, endV, startV, outcome>> /\ PrintT(<<"CASE", ToJson(Case)>>)

\* since := 6h; if given: model.ParseDuration, error -> fail
ParseSince == pc = "since" /\ (LET d == IF has[3] THEN PromDur(since) ELSE [k |-> "val", d |-> SixHours] IN
                IF d.k = "bad" THEN pc' = "done" /\ outcome' = "err" /\ UNCHANGED sinceV ELSE pc' = "end" /\ sinceV' = d.d /\ UNCHANGED outcome)
              /\ UNCHANGED <<now, has, st, en, since, step, endV, startV>>
\* end := parseTimestamp(endParam, now)
ParseEnd == pc = "end" /\ (LET d == IF has[2] THEN Denote(en, Shown(en)) ELSE [k |-> "val", t |-> now] IN
              IF d.k = "bad" THEN pc' = "done" /\ outcome' = "err" /\ UNCHANGED endV ELSE pc' = "startp" /\ endV' = d.t /\ UNCHANGED outcome)
            /\ UNCHANGED <<now, has, st, en, since, step, sinceV, startV>>
\* endOrNow := end; if end.After(now) { endOrNow = now }; start := parseTimestamp(startParam, endOrNow.Add(-since))
ParseStart == pc = "startp" /\ (LET endOrNow == IF TLt(now, endV) THEN now ELSE endV
                                   d == IF has[1] THEN Denote(st, Shown(st)) ELSE [k |-> "val", t |-> TSub(endOrNow, sinceV)] IN
                IF d.k = "bad" THEN pc' = "done" /\ outcome' = "err" /\ UNCHANGED startV ELSE pc' = "done" /\ outcome' = "ok" /\ startV' = d.t)
              /\ UNCHANGED <<now, has, st, en, since, step, sinceV, endV>>
Next == Export \/ ParseSince \/ ParseEnd \/ ParseStart

Decl == Resolve(now, has, IF has[1] THEN Denote(st, Shown(st)) ELSE [k |-> "val", t |-> <<0, 0, 0>>],
                IF has[2] THEN Denote(en, Shown(en)) ELSE [k |-> "val", t |-> <<0, 0, 0>>],
                IF has[3] THEN PromDur(since) ELSE [k |-> "val", d |-> <<0, 0>>])
ResolveMatches == pc = "done" => (outcome = "ok") = Decl.ok /\ (Decl.ok => startV = Decl.start /\ endV = Decl.end)
\* every spelling of one instant denotes that instant
SpellingsAgree == \A sp \in Spells : sp.kind = "rfc" \/ Denote(sp, sp.txt) = [k |-> "val", t |-> sp.t]
MalformedRejected == (\A b \in BadSinces : PromDur(b).k = "bad") /\ (\A b \in BadSteps : StepDenote(b).k = "bad")
                     /\ (\A g \in Sinces : PromDur(g).k = "val") /\ (\A g \in Steps : StepDenote(g).k = "val")
StepPositive == \A g \in Steps : LET d == StepDenote(g).d IN d[1] > 0 \/ d[2] > 0
=============================================================================
