----------------------------- MODULE MC_Render -----------------------------
(* C15, step 1.  renderResult transcribed: a first pass over the streams assigns every new container the next
   palette colour (names[len(containerColors) % (len(names) - 1) + 1]: grey is skipped) and flattens the entries,
   a stable sort orders them by timestamp, a second pass formats one line per entry.  Checked: the palette index
   is always inside the table (for any number of containers), the produced output parses as one line per entry in
   time order with consistent colours (CanParse), for 0..MaxCtr containers, entries with timestamp ties, messages
   with embedded and trailing CR / LF, and the eight option combinations. *)
EXTENDS Render, TLC, Json

CONSTANTS MaxCtr, MaxEntries, Mode        \* Mode: "entries" (few containers, rich entries) | "many" (many containers, one entry each)

Base == 1700000000
NamesTable == 8                            \* grey red green yellow blue magenta cyan white
Msgs == { <<97>>, <<97, 10>>, <<13, 10>>, <<97, 10, 98, 13, 10>>, <<>>, <<32, 97, 32>> }
TsPool == { <<Base, 0>>, <<Base, 500000000>>, <<Base + 1, 0>> }

VARIABLES streams, opts, pc, colors, flat, out, idxBad
vars == <<streams, opts, pc, colors, flat, out, idxBad>>

CtrName(c) == <<99>> \o DecBytes(c)
Init == streams = <<>> /\ opts \in [1..3 -> BOOLEAN] /\ pc = "gen" /\ colors = {} /\ flat = <<>> /\ out = <<>> /\ idxBad = FALSE
NEntries == LET RECURSIVE Sum(_) Sum(k) == IF k = 0 THEN 0 ELSE Len(streams[k].entries) + Sum(k - 1) IN Sum(Len(streams))
AddStream == pc = "gen" /\ Len(streams) < MaxCtr
             /\ streams' = Append(streams, [container |-> CtrName(Len(streams) + 1), noLabel |-> FALSE,
                                            entries |-> IF Mode = "many" THEN << <<<<Base + (Len(streams) % 3), 0>>, <<97>>>> >> ELSE <<>>])
             /\ UNCHANGED <<opts, pc, colors, flat, out, idxBad>>
AddEntry == pc = "gen" /\ Mode = "entries" /\ streams # <<>> /\ NEntries < MaxEntries
            /\ \E ts \in TsPool, m \in Msgs :
                 streams' = [streams EXCEPT ![Len(streams)].entries = Append(@, <<ts, m>>)]
            /\ UNCHANGED <<opts, pc, colors, flat, out, idxBad>>
Case == [in |-> [kind |-> "render", now |-> <<0, 0, 0>>, has |-> <<FALSE, FALSE, FALSE, FALSE>>, streams |-> streams, opts |-> opts]]
Go == pc = "gen" /\ pc' = "assign" /\ UNCHANGED <<streams, opts, colors, flat, out, idxBad>> /\ PrintT(<<"CASE", ToJson(Case)>>)

\* ---- first pass: colour assignment + flattening (whole pass as one step; the index computation is the point)
PaletteIndex(n) == (n % (NamesTable - 1)) + 1          \* 0-based index into names, never 0 (grey), never past the table
CodeOf(idx) == <<ESC, 91, 51, 48 + idx, 109>>
RECURSIVE AssignFrom(_, _)
AssignFrom(k, cs) == IF k > Len(streams) THEN cs
                     ELSE IF streams[k].entries = <<>> \/ (\E p \in cs : p[1] = streams[k].container) THEN AssignFrom(k + 1, cs)
                     ELSE AssignFrom(k + 1, cs \cup {<<streams[k].container, CodeOf(PaletteIndex(Cardinality(cs)))>>})
RECURSIVE FlatFrom(_)
FlatFrom(k) == IF k > Len(streams) THEN <<>>
               ELSE [j \in DOMAIN streams[k].entries |-> [ts |-> streams[k].entries[j][1], msg |-> streams[k].entries[j][2], ctr |-> streams[k].container]] \o FlatFrom(k + 1)
Assign == pc = "assign" /\ pc' = "sort"
          /\ colors' = (IF opts[3] THEN AssignFrom(1, {}) ELSE {})
          /\ idxBad' = (opts[3] /\ \E n \in 0..Len(streams) : PaletteIndex(n) > NamesTable - 1)
          /\ flat' = FlatFrom(1) /\ UNCHANGED <<streams, opts, out>>
\* ---- slices.SortFunc by timestamp (any order among equal timestamps), then format
RECURSIVE SortByTs(_)
SortByTs(s) == IF s = <<>> THEN <<>>
               ELSE LET i == CHOOSE i \in DOMAIN s : \A j \in DOMAIN s : ~TsLess(s[j].ts, s[i].ts)
                    IN <<s[i]>> \o SortByTs([j \in 1..(Len(s) - 1) |-> IF j < i THEN s[j] ELSE s[j + 1]])
\* the model renders timestamps as their decimal seconds/nanoseconds (the real text comes from time.Format: trusted)
TsTxt(ts) == DecBytes(ts[1]) \o <<46>> \o DecBytes(ts[2])
Texts == LET S == {flat[i].ts : i \in DOMAIN flat}
             RECURSIVE ToSeq(_) ToSeq(T) == IF T = {} THEN <<>> ELSE LET x == CHOOSE x \in T : TRUE IN <<[ts |-> x, txt |-> TsTxt(x)]>> \o ToSeq(T \ {x})
         IN ToSeq(S)
ColourFor(c) == IF \E p \in colors : p[1] = c THEN (CHOOSE p \in colors : p[1] = c)[2] ELSE <<>>
RECURSIVE Format(_)
Format(s) == IF s = <<>> THEN <<>> ELSE RenderEntry(s[1], opts, ColourFor(s[1].ctr), TsTxt(s[1].ts)) \o Format(Tail(s))
Sort == pc = "sort" /\ pc' = "done" /\ out' = Format(SortByTs(flat)) /\ UNCHANGED <<streams, opts, colors, flat, idxBad>>
Next == AddStream \/ AddEntry \/ Go \/ Assign \/ Sort

PaletteIndexInRange == ~idxBad
OutputParses == pc = "done" => CanParse(out, 1, flat, DOMAIN flat, {}, opts, Texts)
ColoursArePalette == \A p \in colors : IsPaletteCode(p[2])
NoEscapeWithoutColour == pc = "done" /\ ~opts[3] => \A k \in DOMAIN out : out[k] # ESC
=============================================================================
