-------------------------- MODULE Trace_Lifecycle --------------------------
(* C14, step 3.  Observed at the fake Docker client (every open, read fault, Close, in the order the fake's
   mutex saw them) and at Engine.Eval's return.  At Return: every reader that was opened has been closed,
   an injected fault of an error kind has surfaced as an error, and an "ok" log result is complete. *)
EXTENDS TraceCommon, Docker, FiniteSets

VARIABLES ctrs, faults, listErr, shape, win,
          opened, closed, nent, returned
fam == <<ctrs, faults, listErr, shape, win, opened, closed, nent, returned>>
vars == <<tcvars, fam>>

None == [kind |-> "none", pos |-> 0]
StreamFaults(c) == {k \in DOMAIN faults : faults[k].ctr = c /\ faults[k].kind \in {"cut", "readerr"}}
StreamFault(c) == IF StreamFaults(c) = {} THEN None
                  ELSE LET k == CHOOSE k \in StreamFaults(c) : TRUE IN [kind |-> faults[k].kind, pos |-> faults[k].pos]
Dec(c) == Decode(ctrs[c].frames, StreamFault(c))
ExpectErr == listErr \/ (\E k \in DOMAIN faults : faults[k].kind = "open") \/ (\E c \in DOMAIN ctrs : Dec(c).err)
RECURSIVE SumN(_)
SumN(S) == IF S = {} THEN 0 ELSE LET c == CHOOSE c \in S : TRUE IN Dec(c).n + SumN(S \ {c})

\* assumption of the family: every well-formed frame lies inside the window the daemon is asked for
WinOf(in) == [lo |-> in.start[1] - (IF in.shape = "log" THEN (IF in.start = in.end THEN 30 ELSE 0) ELSE in.range), hi |-> in.end[1]]
CaseOk == \A c \in DOMAIN ctrs : \A j \in DOMAIN ctrs[c].frames :
             LET f == ctrs[c].frames[j] IN f.raw \/ (f.ts[1] >= win.lo /\ f.ts[1] <= win.hi)

Init == TCInit /\ ctrs = <<>> /\ faults = <<>> /\ listErr = FALSE /\ shape = "" /\ win = [lo |-> 0, hi |-> 0] /\ opened = {} /\ closed = {} /\ nent = 0 /\ returned = FALSE
Start == Begin /\ ctrs' = Trace[l].in.ctrs /\ faults' = Trace[l].in.faults /\ listErr' = Trace[l].in.listErr /\ shape' = Trace[l].in.shape
         /\ win' = WinOf(Trace[l].in) /\ opened' = {} /\ closed' = {} /\ nent' = 0 /\ returned' = FALSE

EvRun == IsEv("Run") /\ CaseOk /\ Accept /\ opened' = {} /\ closed' = {} /\ nent' = 0 /\ returned' = FALSE /\ UNCHANGED <<ctrs, faults, listErr, shape, win>>

OpenOkOk == Ev.reader \notin opened /\ ~returned
EvOpenOk == IsEv("OpenOk") /\ OpenOkOk /\ Accept /\ opened' = opened \cup {Ev.reader} /\ UNCHANGED <<ctrs, faults, listErr, shape, win, closed, nent, returned>>

\* a reader is closed only after it was opened (closing twice is left open)
CloseOk == Ev.reader \in opened /\ ~returned
EvClose == IsEv("Close") /\ CloseOk /\ Accept /\ closed' = closed \cup {Ev.reader} /\ UNCHANGED <<ctrs, faults, listErr, shape, win, opened, nent, returned>>

EvEntry == IsEv("Entry") /\ ~returned /\ Accept /\ nent' = nent + 1 /\ UNCHANGED <<ctrs, faults, listErr, shape, win, opened, closed, returned>>

ReturnOk == /\ ~returned
            /\ opened \subseteq closed                                   \* no reader leaks, on any path
            /\ (ExpectErr => Ev.outcome = "err")                         \* failures surface
            /\ (Ev.outcome = "ok" /\ shape = "log" => nent = SumN(DOMAIN ctrs))   \* never a silently truncated result
EvReturn == IsEv("Return") /\ ReturnOk /\ Accept /\ returned' = TRUE /\ UNCHANGED <<ctrs, faults, listErr, shape, win, opened, closed, nent>>

Free == {"Query", "List", "ListFail", "ContainerLogs", "Release", "OpenFail", "FaultHit", "Eof", "RunEnd", "Point", "Unschedulable"}
EvFree == More /\ ~skip /\ Ev.ev \in Free /\ Accept /\ UNCHANGED fam

Explained == \/ Ev.ev \in Free \/ Ev.ev = "Run"       \* (a Run of an ill-formed case is taken by BadCase)
             \/ Ev.ev = "Entry" /\ ~returned
             \/ Ev.ev = "OpenOk" /\ OpenOkOk
             \/ Ev.ev = "Close" /\ CloseOk
             \/ Ev.ev = "Return" /\ ReturnOk
Bad  == Reject /\ ~Explained /\ UNCHANGED fam
BadCase == RejectEnv /\ Ev.ev = "Run" /\ ~CaseOk /\ UNCHANGED fam
Next == Start \/ BadCase \/ EvRun \/ EvOpenOk \/ EvClose \/ EvEntry \/ EvReturn \/ EvFree \/ Bad \/ (Skipped /\ UNCHANGED fam) \/ (Finish /\ UNCHANGED fam)
TraceSpec == Init /\ [][Next]_vars
=============================================================================
