------------------------------ MODULE MC_Parse ------------------------------
(* C05, step 1.  Query ASTs drawn per syntactic position from small pools: selectors with all four operators, every
   stage kind (line filters, label predicates with string / number / duration / bytes literals and and/or/parentheses,
   json / logfmt with field lists and expressions, pattern, unpack, line_format, label_format, drop / keep with
   matchers, decolorize, distinct), range aggregations with every operation, unwrap + conversion, parameter,
   grouping, range and offset, vector aggregations with parameter and grouping, binary operations with `bool` and a
   literal on either side, vector().  Checked on the model: every generated AST satisfies the static rules
   (WellFormedExpr), so each exported text is valid; the forbidden mutations are exported alongside.  Each AST is
   exported under six layouts (whitespace, newlines, tabs, comments, back-quotes, redundant parentheses, grouping
   before / after the operand, compound durations). *)
EXTENDS Query, Regex, TLC, Json

CONSTANTS MaxStages, Pools
A == <<97>>
Bb == <<98>>
K == <<107>>
APP == <<97, 112, 112>>
M(lb, op, v) == [label |-> lb, op |-> op, val |-> v, re |-> REps]
Sels == { <<>>, <<M(APP, "eq", A)>>, <<M(APP, "neq", <<>>), M(K, "re", <<97, 46, 42>>)>>, <<M(K, "nre", <<91, 97, 98, 93, 43>>)>> }
Line(op, v) == [t |-> "line", op |-> op, val |-> v, re |-> REps]
PM(lb, op, v) == [t |-> "m", label |-> lb, op |-> op, val |-> v, lit |-> <<>>, re |-> REps]
PN(kind, lb, op, lit, n, d) == [t |-> kind, label |-> lb, op |-> op, val |-> <<n, d>>, lit |-> lit, re |-> REps]
Par(p) == [t |-> "paren", a |-> p, label |-> <<>>, op |-> "", val |-> <<>>, lit |-> <<>>]
Bin(op, a, b) == [t |-> op, a |-> a, b |-> b, label |-> <<>>, op |-> "", val |-> <<>>, lit |-> <<>>]
Label(p) == [t |-> "label", pred |-> p]
Lit(s) == [t |-> "lit", s |-> s, name |-> <<>>]
Lab(n) == [t |-> "label", s |-> <<>>, name |-> n]
P1 == PN("num", K, "gte", <<53>>, 5, 1)
P2 == PN("dur", K, "lt", <<49, 109, 51, 48, 115>>, 90, 1)           \* 1m30s
P3 == PN("bytes", K, "neq", <<49, 75, 66>>, 1000, 1)                \* 1KB
P4 == PM(APP, "re", <<97, 124, 98>>)
StagesFull ==
  { Line("eq", A), Line("neq", <<34, 32, 92>>), Line("re", <<97, 43>>), Line("nre", <<46>>),
    Label(PM(K, "eq", A)), Label(P1), Label(P2), Label(P3), Label(Bin("and", P1, P4)), Label(Bin("or", Par(Bin("and", P1, P2)), P4)), Label(Bin("and", P1, Bin("and", P2, P3))),
    [t |-> "json", labels |-> <<>>, exprs |-> <<>>], [t |-> "json", labels |-> <<A, Bb>>, exprs |-> <<>>],
    [t |-> "json", labels |-> <<A>>, exprs |-> << [label |-> K, path |-> << [t |-> "key", key |-> A, i |-> 0], [t |-> "idx", key |-> <<>>, i |-> 2], [t |-> "key", key |-> <<120, 32, 121>>, i |-> 0] >>] >>],
    [t |-> "logfmt", labels |-> <<>>, lexprs |-> <<>>], [t |-> "logfmt", labels |-> <<K>>, lexprs |-> << [key |-> A, label |-> Bb] >>],
    [t |-> "pattern", parts |-> << [t |-> "cap", s |-> <<>>, name |-> A], Lit(<<32>>), [t |-> "cap", s |-> <<>>, name |-> <<95>>] >>],
    [t |-> "unpack"], [t |-> "decolorize"],
    [t |-> "linefmt", parts |-> <<Lab(A), Lit(<<45>>), [t |-> "line", s |-> <<>>, name |-> <<>>]>>],
    [t |-> "labelfmt", renames |-> << [dst |-> Bb, src |-> A] >>, tmpls |-> <<>>],
    [t |-> "labelfmt", renames |-> << [dst |-> Bb, src |-> A] >>, tmpls |-> << [dst |-> K, parts |-> <<Lab(A), Lit(<<33>>)>>] >>],
    [t |-> "drop", labels |-> <<A>>, matchers |-> <<>>], [t |-> "keep", labels |-> <<A>>, matchers |-> <<M(K, "eq", A), M(Bb, "nre", <<46, 43>>)>>],
    [t |-> "distinct", label |-> K] }
StagesQuick == {s \in StagesFull : s.t \notin {"line", "label"}} \cup {Line("eq", A), Line("nre", <<46>>), Label(P2), Label(Bin("or", Par(Bin("and", P1, P2)), P4))}
StagePool == IF Pools = "full" THEN StagesFull ELSE StagesQuick

NoUnw == [on |-> FALSE, label |-> <<>>, conv |-> ""]
Unw(c) == [on |-> TRUE, label |-> <<118>>, conv |-> c]
NoGrp == [mode |-> "none", labels |-> <<>>]
Range(op, unw, param, grp, r, o) == [t |-> "range", id |-> 1, op |-> op, sel |-> <<M(APP, "eq", A)>>, stages |-> <<Line("eq", A)>>, range |-> r, offset |-> o,
                                     unwrap |-> unw, param |-> param, grp |-> grp, k |-> 0, bool |-> FALSE, v |-> <<0, 1>>, paren |-> FALSE]
Ranges0 == {Range(op, NoUnw, <<0, 1>>, NoGrp, r, o) : op \in {"count_over_time", "rate", "bytes_over_time", "bytes_rate"}, r \in {5, 90}, o \in {0, 3600}}
           \cup {Range(op, Unw(c), <<0, 1>>, g, 300, 0) : op \in {"sum_over_time", "avg_over_time", "min_over_time", "max_over_time", "stdvar_over_time", "stddev_over_time", "first_over_time", "last_over_time"},
                 c \in {"", "bytes", "duration"}, g \in {NoGrp}}
           \cup {Range(op, Unw(""), <<0, 1>>, g, 60, 30) : op \in {"avg_over_time", "max_over_time", "last_over_time"}, g \in {[mode |-> "by", labels |-> <<APP>>], [mode |-> "without", labels |-> <<APP, K>>]}}
           \cup {Range("quantile_over_time", Unw("duration_seconds"), p, g, 5400, 0) : p \in {<<1, 2>>, <<99, 100>>}, g \in {NoGrp, [mode |-> "by", labels |-> <<>>]}}
VecAgg(op, k, grp, e) == [t |-> "vecagg", id |-> 0, op |-> op, k |-> k, grp |-> grp, e |-> e, bool |-> FALSE, v |-> <<0, 1>>, paren |-> FALSE]
R0 == Range("count_over_time", NoUnw, <<0, 1>>, NoGrp, 5, 0)
VecAggs == {VecAgg(op, 0, g, R0) : op \in {"sum", "avg", "min", "max", "count", "stddev", "stdvar"}, g \in {NoGrp, [mode |-> "by", labels |-> <<APP>>], [mode |-> "without", labels |-> <<APP, K>>], [mode |-> "by", labels |-> <<>>]}}
           \cup {VecAgg(op, k, g, R0) : op \in {"topk", "bottomk"}, k \in {1, 10}, g \in {NoGrp, [mode |-> "by", labels |-> <<APP>>]}}
           \cup {VecAgg(op, 0, NoGrp, R0) : op \in {"sort", "sort_desc"}}
           \cup {VecAgg("sum", 0, [mode |-> "by", labels |-> <<APP>>], VecAgg("max", 0, [mode |-> "without", labels |-> <<K>>], R0))}
LitE(n, d) == [t |-> "lit", id |-> 0, op |-> "", v |-> <<n, d>>, bool |-> FALSE, k |-> 0, paren |-> FALSE]
VecE(n, d) == [t |-> "vector", id |-> 0, op |-> "", v |-> <<n, d>>, bool |-> FALSE, k |-> 0, paren |-> FALSE]
BinE(op, bl, a, b) == [t |-> "binop", id |-> 0, op |-> op, bool |-> bl, a |-> a, b |-> b, k |-> 0, v |-> <<0, 1>>, paren |-> FALSE]
AllBin == {"add", "sub", "mul", "div", "mod", "pow", "eq", "neq", "gt", "gte", "lt", "lte"}
BinOps == {BinE(op, FALSE, R0, LitE(2, 1)) : op \in AllBin} \cup {BinE(op, FALSE, LitE(1, 2), R0) : op \in AllBin}
          \cup {BinE(op, TRUE, R0, LitE(3, 1)) : op \in {"eq", "gt", "lte"}}
          \cup {BinE(op, FALSE, R0, VecAgg("sum", 0, NoGrp, R0)) : op \in AllBin \cup {"and", "or", "unless"}}
          \cup {BinE("add", FALSE, BinE("mul", FALSE, R0, LitE(2, 1)), VecE(1, 1)), BinE("gt", TRUE, VecE(3, 2), VecE(1, 1))}
\* vector-matching modifiers and label_replace: kept by the parser as written (the engine refuses to evaluate them)
S1 == VecAgg("sum", 0, [mode |-> "by", labels |-> <<APP>>], R0)
ModE(op, bl, m) == [t |-> "binop", id |-> 0, op |-> op, bool |-> bl, a |-> S1, b |-> R0, k |-> 0, v |-> <<0, 1>>, paren |-> FALSE, mod |-> m]
Mods == {[op |-> o, labels |-> ls, group |-> "", include |-> <<>>, emptyParens |-> 0] : o \in {"on", "ignoring"}, ls \in {<<>>, <<APP>>, <<APP, K>>}}
        \cup {[op |-> o, labels |-> <<APP>>, group |-> g, include |-> inc, emptyParens |-> ep] : o \in {"on", "ignoring"}, g \in {"left", "right"}, inc \in {<<>>, <<K>>, <<K, A>>}, ep \in {0, 1}}
ModOps == {ModE(op, FALSE, m) : op \in {"div", "and", "gt"}, m \in Mods} \cup {ModE("gt", TRUE, m) : m \in Mods}
LRepl(e, dst, repl, src, re) == [t |-> "lrepl", id |-> 0, op |-> "", e |-> e, dst |-> dst, repl |-> repl, src |-> src, regex |-> re, k |-> 0, v |-> <<0, 1>>, bool |-> FALSE, paren |-> FALSE]
LRepls == {LRepl(R0, Bb, <<36, 49>>, APP, <<40, 46, 42, 41>>), LRepl(S1, APP, <<>>, K, <<97, 124, 98>>), LRepl(R0, K, <<120>>, A, <<>>),
           LRepl(LRepl(R0, A, <<36, 49>>, Bb, <<40, 46, 41>>), Bb, <<121>>, A, <<46, 43>>),
           BinE("add", FALSE, LRepl(R0, Bb, <<36, 49>>, APP, <<40, 46, 42, 41>>), LitE(1, 1)),
           VecAgg("sum", 0, [mode |-> "by", labels |-> <<Bb>>], LRepl(R0, Bb, <<36, 49>>, APP, <<40, 46, 42, 41>>))}
Exprs == Ranges0 \cup VecAggs \cup BinOps \cup {VecE(0, 1), VecE(5, 2)} \cup ModOps \cup LRepls

Layouts == { [ws |-> 0, raw |-> FALSE, paren |-> FALSE, grpPre |-> FALSE, durComp |-> FALSE], [ws |-> 1, raw |-> TRUE, paren |-> FALSE, grpPre |-> TRUE, durComp |-> TRUE],
             [ws |-> 2, raw |-> FALSE, paren |-> TRUE, grpPre |-> FALSE, durComp |-> TRUE], [ws |-> 3, raw |-> TRUE, paren |-> TRUE, grpPre |-> TRUE, durComp |-> FALSE],
             [ws |-> 4, raw |-> FALSE, paren |-> FALSE, grpPre |-> TRUE, durComp |-> FALSE], [ws |-> 4, raw |-> TRUE, paren |-> TRUE, grpPre |-> FALSE, durComp |-> TRUE] }
LogMuts == {"upper_stage", "drop_close_brace", "double_pipe", "trailing_op", "trailing_junk", "bad_regex", "bad_label_regex", "unwrap_in_log", "dup_label_format", "dup_label_format_mixed", "dup_label_format_mixed2", "dup_label_format_tmpl", "empty_selector_matcher"}
MetricMuts == {"drop_close_brace", "drop_close_paren", "drop_close_bracket", "trailing_junk", "empty_selector_matcher", "quantile_no_param", "param_not_allowed", "topk_no_param",
               "topk_zero", "sort_grouping", "range_grouping", "unwrap_missing", "unwrap_forbidden", "missing_range",
               "lrepl_bad_regex", "lrepl_three_args", "lrepl_bare_arg", "on_without_labels", "group_without_on", "upper_keyword"}

VARIABLES kind, sel, stages, expr, pc
vars == <<kind, sel, stages, expr, pc>>
Init == kind \in {"log", "metric"} /\ sel \in (IF kind = "log" THEN Sels ELSE {<<>>}) /\ stages = <<>>
        /\ expr \in (IF kind = "metric" THEN Exprs ELSE {VecE(0, 1)}) /\ pc = "gen"
\* (`drop a` directly followed by `!= "x"` would denote a drop matcher: that text is never generated)
Ambiguous(prev, s) == IF prev.t \in {"drop", "keep"} THEN prev.matchers = <<>> /\ s.t = "line" /\ s.op \in {"neq", "nre"} ELSE FALSE
AddStage == pc = "gen" /\ kind = "log" /\ Len(stages) < MaxStages
            /\ \E s \in StagePool : (IF stages = <<>> THEN TRUE ELSE ~Ambiguous(stages[Len(stages)], s)) /\ stages' = Append(stages, s)
            /\ UNCHANGED <<kind, sel, expr, pc>>
CaseOf(ly, mut) == [in |-> [kind |-> kind, sel |-> sel, stages |-> stages, expr |-> expr, layout |-> ly, mut |-> mut]]
DefaultLayout == [ws |-> 0, raw |-> FALSE, paren |-> FALSE, grpPre |-> TRUE, durComp |-> FALSE]
Export == pc = "gen" /\ pc' = "done" /\ UNCHANGED <<kind, sel, stages, expr>>
          /\ \A ly \in Layouts : PrintT(<<"CASE", ToJson(CaseOf(ly, ""))>>)
          /\ \A m \in (IF kind = "log" THEN LogMuts ELSE MetricMuts) : PrintT(<<"CASE", ToJson(CaseOf(DefaultLayout, m))>>)
Next == AddStage \/ Export

GeneratedAreWellFormed == kind = "metric" => WellFormedExpr(expr)
MutationsKnown == LogMuts \cup MetricMuts \subseteq Mutations
\* `drop a` directly followed by `!= "x"` would be a drop matcher: the pools never generate that text
UnambiguousStages == \A k \in 1..(Len(stages) - 1) : stages[k].t \in {"drop", "keep", "distinct"} => ~(stages[k + 1].t = "line" /\ stages[k + 1].op \in {"neq", "nre"})
=============================================================================
