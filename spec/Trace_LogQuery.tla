--------------------------- MODULE Trace_LogQuery ---------------------------
(* C01, step 3.  One scenario = one record set and one log query evaluated through Engine.Eval over the
   in-memory storage under several capability configurations (events Run .. Return).  For every run the
   bag of returned entries must be exactly LogResult(query, records): every matching record once, no other,
   original timestamp, original line, final label set (the text of the error labels is left open) - which
   also makes the result independent of what the storage was asked to evaluate itself.  The storage's own
   answer (StorageSelect) is checked as an environment step. *)
EXTENDS TraceCommon, Pipeline

CONSTANT CheckStreams     \* TRUE: also check the partition into streams (C08); FALSE: entries only (C01)

VARIABLES recs, sel, stages, limit, exp, open, unsorted,
          matched, returned,
          curStream, curLabels, lastTs, seenL      \* stream bookkeeping (C08)
fam == <<recs, sel, stages, limit, exp, open, unsorted, matched, returned, curStream, curLabels, lastTs, seenL>>
strm == <<curStream, curLabels, lastTs, seenL>>
vars == <<tcvars, fam>>

TsLt(a, b) == a[1] < b[1] \/ (a[1] = b[1] /\ a[2] < b[2])
SortedRecs(rs) == \A i \in 1..(Len(rs) - 1) : ~TsLt(rs[i + 1].ts, rs[i].ts)
\* records come in time order - or in any order when the case says the storage is unordered and every record is asked for
\* (the specification processes them in the order given, as the engine does)
CaseOk == (SortedRecs(recs) \/ (unsorted /\ limit <= 0)) /\ (\A k \in DOMAIN stages : StageWellFormed(stages[k])) /\ UnambiguousText(stages)
          /\ (\A k \in DOMAIN sel : sel[k].op \in {"re", "nre"} => sel[k].val = ReText(sel[k].re))

Init == TCInit /\ unsorted = FALSE /\ recs = <<>> /\ sel = <<>> /\ stages = <<>> /\ limit = 0 /\ exp = <<>> /\ open = FALSE /\ matched = {} /\ returned = FALSE
        /\ curStream = 0 /\ curLabels = {} /\ lastTs = <<0, 0>> /\ seenL = {}
Start == Begin /\ unsorted' = (IF Has(Trace[l].in, "unsorted") THEN Trace[l].in.unsorted ELSE FALSE) /\ recs' = Trace[l].in.recs /\ sel' = Trace[l].in.sel /\ stages' = Trace[l].in.stages /\ limit' = Trace[l].in.limit
         /\ exp' = LogResult(Trace[l].in.sel, Trace[l].in.stages, Trace[l].in.recs)
         /\ open' = AnyOpen(Trace[l].in.sel, Trace[l].in.stages, Trace[l].in.recs)
         /\ matched' = {} /\ returned' = FALSE /\ curStream' = 0 /\ curLabels' = {} /\ lastTs' = <<0, 0>> /\ seenL' = {}

EvRun == IsEv("Run") /\ CaseOk /\ Accept /\ matched' = {} /\ returned' = FALSE /\ UNCHANGED <<recs, sel, stages, limit, exp, open, unsorted>>
         /\ curStream' = 0 /\ curLabels' = {} /\ lastTs' = <<0, 0>> /\ seenL' = {}
BadCase == RejectEnv /\ Ev.ev = "Run" /\ ~CaseOk /\ UNCHANGED fam

\* ---- environment: the in-memory storage returned, in time order, the records that satisfy what it was asked
ById(id) == CHOOSE r \in PairsOf(recs) : r.id = id
OffOk(r) == /\ \A k \in DOMAIN Ev.offLabels : \E m \in PairsOf(sel) :
                   m.label = Ev.offLabels[k].label /\ m.op = Ev.offLabels[k].op /\ m.val = Ev.offLabels[k].val
                   /\ ValueMatch(m.op, m.val, m.re, Get(RecordLabels(r), m.label))
            /\ \A k \in DOMAIN Ev.offLines : \E s \in PairsOf(stages) :
                   s.t = "line" /\ s.op = Ev.offLines[k].op /\ s.val = Ev.offLines[k].val /\ LineMatch(s.op, s.val, s.re, r.line)
StorageOk == Ev.returned = [i \in 1..Len(SelectSeq(recs, OffOk)) |-> SelectSeq(recs, OffOk)[i].id]
EvStorage == IsEv("StorageSelect") /\ StorageOk /\ Accept /\ UNCHANGED fam
BadStorage == RejectEnv /\ Ev.ev = "StorageSelect" /\ ~StorageOk /\ UNCHANGED fam

\* ---- entries
ErrNames == {S_error, S_error_details}
LabelsMatch(obs, L) == /\ NamesOf(obs) = NamesOf(L)
                       /\ {p \in obs : p[1] \notin ErrNames} = {p \in L : p[1] \notin ErrNames}
\* lopen: malformed input - only the error flag is required; vopen: names whose value is left open; opt: names that may be absent
LabelsFit(obs, e) == IF e.lopen THEN S_error \in NamesOf(obs)
                     ELSE /\ (NamesOf(e.L) \ e.opt) \subseteq NamesOf(obs) /\ NamesOf(obs) \subseteq NamesOf(e.L)
                          /\ \A p \in obs : p[1] \in ErrNames \cup e.vopen \/ p \in e.L
Fits(i) == i \notin matched /\ exp[i].ts = Ev.ts /\ exp[i].line = Ev.line /\ LabelsFit(PairsOf(Ev.labels), exp[i])
\* C08: streams are listed one after the other; no two streams share a label set, every entry carries its stream's
\* labels, timestamps inside a stream do not decrease
StreamOk == \/ ~CheckStreams
            \/ Ev.stream = curStream /\ PairsOf(Ev.labels) = curLabels /\ ~TsLt(Ev.ts, lastTs)
            \/ Ev.stream > curStream /\ PairsOf(Ev.labels) \notin seenL
EntryOk == ~returned /\ (open \/ \E i \in DOMAIN exp : Fits(i)) /\ StreamOk
EvEntry == IsEv("Entry") /\ EntryOk /\ Accept
           /\ matched' = (IF open THEN matched ELSE matched \cup {CHOOSE i \in DOMAIN exp : Fits(i)})
           /\ curStream' = Ev.stream /\ curLabels' = PairsOf(Ev.labels) /\ lastTs' = Ev.ts /\ seenL' = seenL \cup {PairsOf(Ev.labels)}
           /\ UNCHANGED <<recs, sel, stages, limit, exp, open, unsorted, returned>>

Min(a, b) == IF a < b THEN a ELSE b
ReturnOk == /\ ~returned /\ Ev.outcome = "ok"
            /\ (open \/ IF limit > 0 THEN Cardinality(matched) = Min(limit, Len(exp))
                                               /\ \A i \in matched, j \in DOMAIN exp \ matched : ~TsLt(exp[j].ts, exp[i].ts)
                        ELSE matched = DOMAIN exp)
EvReturn == IsEv("Return") /\ ReturnOk /\ Accept /\ returned' = TRUE /\ UNCHANGED <<recs, sel, stages, limit, exp, open, unsorted, matched>> /\ UNCHANGED strm

Explained == \/ Ev.ev \in {"Run", "StorageSelect"}
             \/ Ev.ev = "Entry" /\ EntryOk
             \/ Ev.ev = "Return" /\ ReturnOk
Bad  == Reject /\ ~Explained /\ UNCHANGED fam
Next == Start \/ BadCase \/ EvRun \/ EvStorage \/ BadStorage \/ EvEntry \/ EvReturn \/ Bad
        \/ (Skipped /\ UNCHANGED fam) \/ (Finish /\ UNCHANGED fam)
TraceSpec == Init /\ [][Next]_vars
=============================================================================
