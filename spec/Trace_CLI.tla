------------------------------ MODULE Trace_CLI ------------------------------
(* C16, step 3: parseTimeRange / parseStep observed through a test mapped into cmd/docker-logql with -overlay. *)
EXTENDS TraceCommon, CLI

VARIABLES in, shown, res
fam == <<in, shown, res>>
vars == <<tcvars, fam>>
None == [ok |-> FALSE, open |-> FALSE, start |-> <<0, 0, 0>>, end |-> <<0, 0, 0>>]

Init == TCInit /\ in = <<>> /\ shown = <<>> /\ res = None
Start == Begin /\ in' = Trace[l].in /\ shown' = <<>> /\ res' = None

\* the texts actually handed to the code (RFC3339 spellings are rendered by the harness from the intended instant)
EvSpelled == IsEv("Spelled") /\ Accept /\ shown' = [start |-> Ev.start, end |-> Ev.end] /\ UNCHANGED <<in, res>>

Expected == Resolve(in.now, in.has,
                    IF in.has[1] THEN Denote(in.start, shown.start) ELSE [k |-> "val", t |-> <<0, 0, 0>>],
                    IF in.has[2] THEN Denote(in.end, shown.end) ELSE [k |-> "val", t |-> <<0, 0, 0>>],
                    IF in.has[3] THEN PromDur(in.since) ELSE [k |-> "val", d |-> <<0, 0>>])
ResolvedOk == LET e == Expected IN
              e.open \/ (Ev.ok = e.ok /\ (e.ok => Ev.start = e.start /\ Ev.end = e.end))
EvResolved == IsEv("Resolved") /\ ResolvedOk /\ Accept /\ res' = [ok |-> Ev.ok, open |-> Expected.open, start |-> Ev.start, end |-> Ev.end] /\ UNCHANGED <<in, shown>>

StepOk == \/ res.open
          \/ /\ res.ok
             /\ IF in.has[4]
                  THEN LET d == StepDenote(in.step) IN
                       d.k = "unspec" \/ (Ev.ok = (d.k = "val") /\ (d.k = "val" => ~Ev.neg /\ Ev.step = d.d))
                  ELSE Ev.ok /\ ~Ev.neg /\ Ev.step = DefaultStep(res.start, res.end)
EvStep == IsEv("Step") /\ StepOk /\ Accept /\ UNCHANGED fam

Explained == \/ Ev.ev = "Spelled"
             \/ Ev.ev = "Resolved" /\ ResolvedOk
             \/ Ev.ev = "Step" /\ StepOk
Bad  == Reject /\ ~Explained /\ UNCHANGED fam
Next == Start \/ EvSpelled \/ EvResolved \/ EvStep \/ Bad \/ (Skipped /\ UNCHANGED fam) \/ (Finish /\ UNCHANGED fam)
TraceSpec == Init /\ [][Next]_vars
=============================================================================
