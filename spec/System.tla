------------------------------- MODULE System -------------------------------
(* `docker logql query`, end to end, for log queries: the composition of the per-property modules.
     flags (--start --end --limit --timestamp --container --color) and the query text
       -> the evaluation window [start, end]                         (CLI; here both ends are given)
       -> the containers the selector picks, each with its label set  (DockerSel)
       -> their frames inside the window, merged in time order        (Docker / merge)
       -> the pipeline on every record, the first `limit` entries     (Pipeline!LogResult)
       -> one printed line per entry in time order                    (Render)
   Anchors: cmd/docker-logql/query.go (queryCmd, renderResult), internal/dockerlog, internal/logql/logqlengine.
   A case is [ctrs, sel, stages, start, end, limit, opts (, since, metric)]; with `metric` the same log query is wrapped into
   count_over_time(... [1m]): the command evaluates it, cannot print a matrix, fails and prints nothing.  Containers as in DockerSel with frames
   [typ, ts, msg, raw]; the window ends are whole seconds and every frame lies at least two seconds away from them
   (what happens ON the edges is C02's subject). *)
EXTENDS Pipeline
DS == INSTANCE DockerSel

SysTsLt(a, b) == a[1] < b[1] \/ (a[1] = b[1] /\ a[2] < b[2])
InWindow(ts, start, end) == ~SysTsLt(ts, start) /\ ~SysTsLt(end, ts)
RECURSIVE SetAsSeq(_)
SetAsSeq(S) == IF S = {} THEN <<>> ELSE LET x == CHOOSE x \in S : TRUE IN <<x>> \o SetAsSeq(S \ {x})

\* the records one container contributes: its frames inside the window, in its own order, carrying the container's labels
CtrRecords(ctrs, i, start, end) ==
  LET fr == ctrs[i].frames
      attrs == SetAsSeq(DS!CtrLabels(ctrs[i]))
      idx == SelectSeq([j \in DOMAIN fr |-> j], LAMBDA j : InWindow(fr[j].ts, start, end))
  IN [k \in DOMAIN idx |-> [id |-> 1000 * i + idx[k], ts |-> fr[idx[k]].ts, line |-> fr[idx[k]].msg, attrs |-> attrs, doc |-> <<>>, src |-> i]]

\* merge in time order; ties go to the container listed first, then to the earlier frame (ids grow that way)
RECURSIVE MergeRecs(_)
MergeRecs(S) == IF S = {} THEN <<>>
                ELSE LET m == CHOOSE r \in S : \A q \in S : SysTsLt(r.ts, q.ts) \/ (r.ts = q.ts /\ r.id <= q.id)
                     IN <<m>> \o MergeRecs(S \ {m})
\* the window: --start and --end, or --end and --since (start = end - since); `since` is whole seconds, 0 when --start is given
WStart(c) == IF Fld(c, "since", 0) > 0 THEN <<c.end[1] - c.since, 0>> ELSE c.start
SeqRange(q) == {q[k] : k \in DOMAIN q}
Merged(c) == LET sel == DS!Selected(c.ctrs, c.sel)
                 all == UNION {SeqRange(CtrRecords(c.ctrs, i, WStart(c), c.end)) : i \in sel}
             IN MergeRecs(all)

\* the entries the query returns (the selector was applied to containers: the engine has nothing left to prefilter)
Entries(c) == LET all == LogResult(<<>>, c.stages, Merged(c))
              IN IF c.limit > 0 /\ Len(all) > c.limit THEN SubSeq(all, 1, c.limit) ELSE all
\* what the renderer is given: [ts, msg, ctr] per entry (ctr: the value of the `container` label, empty when dropped)
Printed(c) == LET es == Entries(c) IN [k \in DOMAIN es |-> [ts |-> es[k].ts, msg |-> es[k].line, ctr |-> Get(es[k].L, S_container)]]

\* assumptions on a case
CaseWellFormed(c) == /\ \A i \in DOMAIN c.ctrs : DS!Unambiguous(c.ctrs[i])
                     /\ \A k \in DOMAIN c.sel : DS!MatcherWellFormed(c.sel[k])
                     /\ \A k \in DOMAIN c.stages : StageWellFormed(c.stages[k]) /\ c.stages[k].t \in {"line", "label", "drop", "keep", "labelfmt", "linefmt"}
                     /\ UnambiguousText(c.stages)
                     \* every step of the pipeline lies inside the modelled grammar
                     /\ LET m == Merged(c) res == LogResult(<<>>, c.stages, m) IN
                        /\ \A k \in DOMAIN res : ~res[k].open /\ ~res[k].lopen /\ res[k].vopen = {} /\ res[k].opt = {}
                        /\ ~AnyOpen(<<>>, c.stages, m)
                     /\ c.start[2] = 0 /\ c.end[2] = 0 /\ Fld(c, "since", 0) >= 0
                     /\ \A i \in DOMAIN c.ctrs : \A j \in DOMAIN c.ctrs[i].frames :
                          LET t == c.ctrs[i].frames[j].ts[1] IN
                          (t >= WStart(c)[1] + 2 /\ t <= c.end[1] - 2) \/ t <= WStart(c)[1] - 2 \/ t >= c.end[1] + 2
=============================================================================
