------------------------------- MODULE MC_Prec -------------------------------
(* C13, step 1.  Precedence climbing as the parser is meant to do it (parseBinOp: for every operator of at least
   the minimum precedence, parse the right operand, then let the inner loop absorb the operators that bind
   tighter - or, for the right-associative ^, as tight) compared with the conventional reading
   (^ > * / % > + - > comparisons > and unless > or; left associative except ^) for EVERY chain of up to
   MaxOperands operands over the fifteen operators, with and without one parenthesised sub-chain.
   The same chains are exported as conformance cases vector(a) op vector(b) op ... *)
EXTENDS Integers, Sequences, FiniteSets, TLC, Json

CONSTANTS MaxOperands, OpSet

AllOps == {"or", "and", "unless", "eq", "neq", "gt", "gte", "lt", "lte", "add", "sub", "mul", "div", "mod", "pow"}
\* one representative per precedence level plus a second operator on the levels where associativity shows
SomeOps == {"or", "and", "unless", "gt", "add", "sub", "mul", "div", "pow"}
Ops == IF OpSet = "all" THEN AllOps ELSE SomeOps
CmpOps == {"eq", "neq", "gt", "gte", "lt", "lte"}
Prec(op) == CASE op = "or" -> 1 [] op \in {"and", "unless"} -> 2 [] op \in CmpOps -> 3
              [] op \in {"add", "sub"} -> 4 [] op \in {"mul", "div", "mod"} -> 5 [] op = "pow" -> 6
RightAssoc(op) == op = "pow"

VARIABLES ops, open, close, pc
vars == <<ops, open, close, pc>>
N == Len(ops) + 1                 \* number of operands

Init == ops = <<>> /\ open = 0 /\ close = 0 /\ pc = "gen"
AddOp == pc = "gen" /\ N < MaxOperands /\ \E o \in Ops : ops' = Append(ops, o) /\ UNCHANGED <<open, close, pc>>
\* operand values: small, position dependent, so that regrouping changes the value for most chains
Operand(i) == CASE i % 5 = 1 -> <<2, 1>> [] i % 5 = 2 -> <<3, 1>> [] i % 5 = 3 -> <<1, 2>> [] i % 5 = 4 -> <<2, 1>> [] OTHER -> <<3, 1>>
Case == [in |-> [recs |-> <<>>, flat |-> [operands |-> [i \in 1..N |-> Operand(i)], ops |-> ops, open |-> open', close |-> close'],
                 evals |-> << [start |-> 1700000000, end |-> 1700000000, step |-> 0] >>, reps |-> 1]]
\* the same chain with scalar literals for operands (arithmetic chains of two or three operands; never two literals as the
\* operands of one operator): a literal operand is handled by another evaluation path, the grouping must not change
ArithOnly == \A i \in DOMAIN ops : ops[i] \in {"add", "sub", "mul", "div", "mod", "pow"}
LitOperand(i) == CASE i = 1 -> <<3, 1>> [] i = 2 -> <<6, 1>> [] OTHER -> <<4, 1>>
LitPatterns == IF N = 2 THEN {<<FALSE, TRUE>>}
               ELSE IF N = 3 /\ open' = 1 /\ close' = 2 THEN {<<FALSE, TRUE, TRUE>>, <<FALSE, TRUE, FALSE>>}
               ELSE IF N = 3 /\ open' = 2 /\ close' = 3 THEN {<<TRUE, FALSE, TRUE>>, <<FALSE, FALSE, TRUE>>}
               ELSE IF N = 3 THEN {<<FALSE, TRUE, FALSE>>, <<FALSE, FALSE, TRUE>>}
               ELSE {}
CaseLit(lits) == [in |-> [recs |-> <<>>, flat |-> [operands |-> [i \in 1..N |-> LitOperand(i)], ops |-> ops, open |-> open', close |-> close', lits |-> lits],
                          evals |-> << [start |-> 1700000000, end |-> 1700000000, step |-> 0] >>, reps |-> 1]]
Go == pc = "gen" /\ N >= 2 /\ pc' = "parsed"
      /\ \/ open' = 0 /\ close' = 0
         \/ \E a \in 1..N, b \in 1..N : a < b /\ ~(a = 1 /\ b = N) /\ open' = a /\ close' = b
      /\ UNCHANGED ops /\ PrintT(<<"CASE", ToJson(Case)>>)
      /\ (ArithOnly => \A lits \in LitPatterns : PrintT(<<"CASE", ToJson(CaseLit(lits))>>))
Next == AddOp \/ Go

\* ---- trees over operand indices
MinOf(S) == CHOOSE m \in S : \A x \in S : m <= x
MaxOf(S) == CHOOSE m \in S : \A x \in S : x <= m
RECURSIVE ConvTree(_, _)
ConvTree(operands, os) ==
  IF Len(operands) = 1 THEN operands[1]
  ELSE LET low == MinOf({Prec(os[i]) : i \in DOMAIN os})
           cand == {i \in DOMAIN os : Prec(os[i]) = low}
           i == IF low = 6 THEN MinOf(cand) ELSE MaxOf(cand)
       IN [op |-> os[i], a |-> ConvTree(SubSeq(operands, 1, i), SubSeq(os, 1, i - 1)),
           b |-> ConvTree(SubSeq(operands, i + 1, Len(operands)), SubSeq(os, i + 1, Len(os)))]
\* precedence climbing, as intended: the inner loop re-enters with precedence+1 for a left-associative operator
RECURSIVE PB(_, _, _, _, _)
RECURSIVE Inner(_, _, _, _)
Inner(lv, os, op, r) == IF r.i > Len(os) \/ Prec(os[r.i]) < Prec(op) \/ (Prec(os[r.i]) = Prec(op) /\ ~RightAssoc(op)) THEN r
                        ELSE LET np == IF Prec(os[r.i]) > Prec(op) THEN Prec(op) + 1 ELSE Prec(op)
                             IN Inner(lv, os, op, PB(lv, os, r.tr, np, r.i))
PB(lv, os, left, mp, i) ==
  IF i > Len(os) \/ Prec(os[i]) < mp THEN [tr |-> left, i |-> i]
  ELSE LET inner == Inner(lv, os, os[i], [tr |-> lv[i + 1], i |-> i + 1])
       IN PB(lv, os, [op |-> os[i], a |-> left, b |-> inner.tr], mp, inner.i)
Climb(operands, os) == PB(operands, os, operands[1], 0, 1).tr
WithParens(G(_, _)) ==
  LET leaves == [i \in 1..N |-> i] IN
  IF open = 0 THEN G(leaves, ops)
  ELSE G(SubSeq(leaves, 1, open - 1) \o <<G(SubSeq(leaves, open, close), SubSeq(ops, open, close - 1))>> \o SubSeq(leaves, close + 1, N),
         SubSeq(ops, 1, open - 1) \o SubSeq(ops, close, Len(ops)))

ClimbingIsConventional == pc = "parsed" => WithParens(Climb) = WithParens(ConvTree)
=============================================================================
