------------------------------ MODULE Docker ------------------------------
(* Docker's multiplexed log stream and what decoding it must yield (C03).
   Anchor: internal/dockerlog/daemonlog.go.
   A frame is [typ, ts, msg, raw]: typ 1 stdout, 2 stderr, 3 daemon error; ts = <<seconds, nanoseconds>>;
   raw = TRUE means the payload is msg verbatim (no rendered timestamp: used for corrupt payloads).
   On the wire: 8 header bytes (typ,0,0,0,len32) + payload; payload = RFC3339Nano(ts) " " msg. *)
EXTENDS Integers, Sequences

RECURSIVE TrailingZeros(_)
TrailingZeros(n) == IF n % 10 = 0 THEN 1 + TrailingZeros(n \div 10) ELSE 0
\* length of time.RFC3339Nano for a UTC instant with a four-digit year
TsLen(ns) == 20 + (IF ns = 0 THEN 0 ELSE 1 + 9 - TrailingZeros(ns))

PayloadLen(f) == IF f.raw THEN Len(f.msg) ELSE TsLen(f.ts[2]) + 1 + Len(f.msg)
FrameSize(f)  == 8 + PayloadLen(f)

RECURSIVE OffsetOf(_, _)      \* byte offset at which frame k starts (k may be Len+1: end of stream)
OffsetOf(frames, k) == IF k <= 1 THEN 0 ELSE OffsetOf(frames, k - 1) + FrameSize(frames[k - 1])
StreamLen(frames) == OffsetOf(frames, Len(frames) + 1)

\* payload-level corruption: which frames cannot be turned into a record
Space == 32
HasSpace(s) == \E i \in 1..Len(s) : s[i] = Space
IsErrorFrame(f) == f.typ = 3 \/ f.raw     \* raw payloads in the cases are: no space, or an unparsable timestamp before the space

(* Decode: the meaning of a stream with at most one byte-level fault.
   fault = [kind |-> "none"] | [kind |-> "cut", pos |-> p] (stream ends after p bytes)
         | [kind |-> "readerr", pos |-> p] (the transport fails after p bytes).
   Result: [n |-> number of leading frames delivered as records, err |-> whether an error must be reported].
   A cut inside a header (fewer than 8 bytes of it) or exactly between frames is a clean end; a cut inside a
   body, a transport error anywhere, a daemon error frame and a corrupt payload are errors. Fragmentation of
   reads is deliberately not a parameter. *)
RECURSIVE DecodeFrom(_, _, _)
DecodeFrom(frames, fault, k) ==
  LET off == OffsetOf(frames, k) IN
  IF k > Len(frames)
    THEN [n |-> k - 1, err |-> fault.kind = "readerr" /\ fault.pos = off]
  ELSE LET sz == FrameSize(frames[k]) IN
    IF fault.kind = "readerr" /\ fault.pos >= off /\ fault.pos < off + sz THEN [n |-> k - 1, err |-> TRUE]
    ELSE IF fault.kind = "cut" /\ fault.pos >= off /\ fault.pos < off + sz
      THEN [n |-> k - 1, err |-> fault.pos - off >= 8]
    ELSE IF IsErrorFrame(frames[k]) THEN [n |-> k - 1, err |-> TRUE]
    ELSE DecodeFrom(frames, fault, k + 1)
Decode(frames, fault) == DecodeFrom(frames, fault, 1)
=============================================================================
