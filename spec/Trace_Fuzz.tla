----------------------------- MODULE Trace_Fuzz -----------------------------
(* C17, step 3: every Engine.Eval call (under recover() and a watchdog) ends in Return(ok) or Return(err); a query that
   the case marks invalid (forbidden mutation of a valid query) ends in Return(err).  Panic and Hang are events no
   action explains. *)
EXTENDS TraceCommon
VARIABLES invalid, calls
fam == <<invalid, calls>>
vars == <<tcvars, fam>>
Init == TCInit /\ invalid = FALSE /\ calls = 0
Start == Begin /\ invalid' = Trace[l].in.invalid /\ calls' = 0
EvCall == IsEv("Call") /\ Accept /\ calls' = calls + 1 /\ UNCHANGED invalid
ReturnOk == calls > 0 /\ Ev.outcome \in {"ok", "err"} /\ (invalid => Ev.outcome = "err")
EvReturn == IsEv("Return") /\ ReturnOk /\ Accept /\ UNCHANGED fam
Explained == Ev.ev = "Call" \/ (Ev.ev = "Return" /\ ReturnOk)
Bad  == Reject /\ ~Explained /\ UNCHANGED fam
Next == Start \/ EvCall \/ EvReturn \/ Bad \/ (Skipped /\ UNCHANGED fam) \/ (Finish /\ UNCHANGED fam)
TraceSpec == Init /\ [][Next]_vars
=============================================================================
