-------------------------- MODULE Trace_Determinism --------------------------
(* C18, step 3.  One scenario = one inventory and one query evaluated many times: under every forced completion
   order of the concurrent per-container requests (exhaustive up to five containers) and several repetitions each
   (Go re-randomises hash-map iteration on every range).  Every run must yield the same result as the first one:
   the same set of (labels, timestamp, line) entries or (labels, time, value) points, the same outcome, and - for
   the runs that were rendered - byte-identical output. *)
EXTENDS TraceCommon, FiniteSets

VARIABLES ref, cur, run, refOut, unsched
fam == <<ref, cur, run, refOut, unsched>>
vars == <<tcvars, fam>>

Init == TCInit /\ ref = {} /\ cur = {} /\ run = 0 /\ refOut = <<>> /\ unsched = FALSE
Start == Begin /\ ref' = {} /\ cur' = {} /\ run' = 0 /\ refOut' = <<>> /\ unsched' = FALSE

EvRun == IsEv("Run") /\ Accept /\ cur' = {} /\ run' = Ev.run /\ unsched' = FALSE /\ UNCHANGED <<ref, refOut>>
EvEntry == IsEv("Entry") /\ Accept /\ cur' = cur \cup {<<"e", Ev.labels, Ev.ts, Ev.line>>} /\ UNCHANGED <<ref, run, refOut, unsched>>
EvPoint == IsEv("Point") /\ Accept /\ cur' = cur \cup {<<"p", Ev.labels, Ev.t, Ev.val>>} /\ UNCHANGED <<ref, run, refOut, unsched>>
\* (no fault is injected in this family: a query that fails is a mistake of the case, not a repeatable result worth comparing)
EvReturn == IsEv("Return") /\ Ev.outcome # "err" /\ Accept /\ cur' = cur \cup {<<"r", Ev.outcome, Ev.kind>>} /\ UNCHANGED <<ref, run, refOut, unsched>>
BadCase == RejectEnv /\ Ev.ev = "Return" /\ Ev.outcome = "err" /\ UNCHANGED fam
EvUnsched == IsEv("Unschedulable") /\ Accept /\ unsched' = TRUE /\ UNCHANGED <<ref, cur, run, refOut>>
\* rendered bytes (colour off): identical to the first rendering
RenderedOk == IF run = 1 \/ unsched THEN TRUE ELSE Ev.out = refOut[1]
EvRendered == IsEv("Rendered") /\ RenderedOk /\ Accept /\ refOut' = (IF run = 1 THEN <<Ev.out>> ELSE refOut) /\ UNCHANGED <<ref, cur, run, unsched>>
RunEndOk == IF run = 1 \/ unsched THEN TRUE ELSE cur = ref
EvRunEnd == IsEv("RunEnd") /\ RunEndOk /\ Accept /\ ref' = (IF run = 1 THEN cur ELSE ref) /\ UNCHANGED <<cur, run, refOut, unsched>>

Free == {"Query", "List", "ListFail", "ContainerLogs", "Release", "OpenOk", "OpenFail", "FaultHit", "Eof", "Close", "TsTexts"}
EvFree == More /\ ~skip /\ Ev.ev \in Free /\ Accept /\ UNCHANGED fam
Explained == \/ Ev.ev \in Free \/ Ev.ev \in {"Run", "Entry", "Point", "Return", "Unschedulable"}       \* (a failing Return is taken by BadCase)
             \/ Ev.ev = "Rendered" /\ RenderedOk
             \/ Ev.ev = "RunEnd" /\ RunEndOk
Bad  == Reject /\ ~Explained /\ UNCHANGED fam
Next == Start \/ BadCase \/ EvRun \/ EvEntry \/ EvPoint \/ EvReturn \/ EvUnsched \/ EvRendered \/ EvRunEnd \/ EvFree \/ Bad
        \/ (Skipped /\ UNCHANGED fam) \/ (Finish /\ UNCHANGED fam)
TraceSpec == Init /\ [][Next]_vars
=============================================================================
