------------------------------ MODULE MC_Merge ------------------------------
(* C04, step 1.  SelectLogs' concurrent opening (one goroutine per container writing iters[idx]; Wait is the
   only join) followed by mergeIter (init: one Next per source in index order; Next: pop the minimum, refill
   from the same source) with container/heap transcribed.  Checked for every inventory of NC containers with
   up to MaxRec records each (timestamps with ties, sorted and unsorted logs, empty logs) and every
   interleaving of the OpenDone actions. *)
EXTENDS Heap, TLC, Json, FiniteSets

CONSTANTS NC, MaxRec, TSMax

Ctr == 1..NC
Base == 1700000000

VARIABLES logs,     \* logs[c]: sequence of timestamps (record j of container c is identified by <<c, j>>)
          pc,       \* "gen" | "open" | "init" | "merge" | "done"
          cur,      \* gen: container being filled
          iters,    \* iters[idx]: which container's reader sits in slot idx (0 = not yet written)
          heap, pos, out, initIdx
vars == <<logs, pc, cur, iters, heap, pos, out, initIdx>>

Less(a, b) == a.ts < b.ts       \* iterHeapElem.Less: strict, timestamps only

Init == logs = [c \in Ctr |-> <<>>] /\ pc = "gen" /\ cur = 1 /\ iters = [c \in Ctr |-> 0] /\ heap = <<>>
        /\ pos = [c \in Ctr |-> 0] /\ out = <<>> /\ initIdx = 1

AddRec == pc = "gen" /\ Len(logs[cur]) < MaxRec /\ \E t \in 1..TSMax : logs' = [logs EXCEPT ![cur] = Append(@, t)]
          /\ UNCHANGED <<pc, cur, iters, heap, pos, out, initIdx>>
NextCtr == pc = "gen" /\ cur < NC /\ cur' = cur + 1 /\ UNCHANGED <<logs, pc, iters, heap, pos, out, initIdx>>

\* ---- export
IdOf(c) == <<105, 100, 48 + c>>
NameOf(c) == <<110, 48 + c>>
MsgOf(c, j) == <<99, 48 + c, 45, 48 + j>>
CtrRec(c) == [id |-> IdOf(c), name |-> NameOf(c), image |-> <<105>>, imageId |-> <<115>>, command |-> <<99>>, created |-> 1,
              state |-> <<114>>, status |-> <<85>>, labels |-> <<>>, noName |-> FALSE,
              frames |-> [j \in 1..Len(logs[c]) |-> [typ |-> 1, ts |-> <<Base + logs[c][j], 0>>, msg |-> MsgOf(c, j), raw |-> FALSE]]]
RECURSIVE Perms(_)
Perms(S) == IF S = {} THEN {<<>>} ELSE UNION {{<<x>> \o p : p \in Perms(S \ {x})} : x \in S}
RECURSIVE SetToSeq(_)
SetToSeq(S) == IF S = {} THEN <<>> ELSE LET x == CHOOSE x \in S : TRUE IN <<x>> \o SetToSeq(S \ {x})
Case == [in |-> [ctrs |-> [c \in Ctr |-> CtrRec(c)], sel |-> <<>>, sel2 |-> <<>>, shape |-> "merge",
                 start |-> <<Base - 100, 0>>, end |-> <<Base + 100, 0>>, step |-> 0, range |-> 1000, limit |-> 0 - 1,
                 orders |-> SetToSeq(Perms(Ctr)), reps |-> 1, faults |-> <<>>, listErr |-> FALSE, frag |-> <<>>]]

Start == pc = "gen" /\ cur = NC /\ pc' = "open" /\ UNCHANGED <<logs, cur, iters, heap, pos, out, initIdx>>
         /\ PrintT(<<"CASE", ToJson(Case)>>)

\* ---- grp.Go(func() { iter := openLog(ctr); iters[idx] = iter }) for every idx, in any completion order
OpenDone(c) == pc = "open" /\ iters[c] = 0 /\ iters' = [iters EXCEPT ![c] = c] /\ UNCHANGED <<logs, pc, cur, heap, pos, out, initIdx>>
Wait == pc = "open" /\ (\A c \in Ctr : iters[c] # 0) /\ pc' = "init" /\ UNCHANGED <<logs, cur, iters, heap, pos, out, initIdx>>

\* ---- mergeIter.init: for idx, iter := range iters { if iter.Next(&record) { heap.Push(...) } }
InitStep ==
  /\ pc = "init" /\ initIdx <= NC
  /\ LET c == iters[initIdx] IN
       IF Len(logs[c]) >= 1
         THEN heap' = HeapPush(Less, heap, [src |-> initIdx, c |-> c, j |-> 1, ts |-> logs[c][1]]) /\ pos' = [pos EXCEPT ![c] = 1]
         ELSE UNCHANGED <<heap, pos>>
  /\ initIdx' = initIdx + 1 /\ UNCHANGED <<logs, pc, cur, iters, out>>
InitDone == pc = "init" /\ initIdx > NC /\ pc' = "merge" /\ UNCHANGED <<logs, cur, iters, heap, pos, out, initIdx>>

\* ---- mergeIter.Next
Pop ==
  /\ pc = "merge" /\ Len(heap) >= 1
  /\ LET e == heap[1]
         h1 == HeapPop(Less, heap)
         c == iters[e.src]
     IN /\ out' = Append(out, <<e.c, e.j>>)
        /\ IF pos[c] < Len(logs[c])
             THEN /\ heap' = HeapPush(Less, h1, [src |-> e.src, c |-> c, j |-> pos[c] + 1, ts |-> logs[c][pos[c] + 1]])
                  /\ pos' = [pos EXCEPT ![c] = @ + 1]
             ELSE heap' = h1 /\ pos' = pos
  /\ UNCHANGED <<logs, pc, cur, iters, initIdx>>
Drained == pc = "merge" /\ Len(heap) = 0 /\ pc' = "done" /\ UNCHANGED <<logs, cur, iters, heap, pos, out, initIdx>>

Next == AddRec \/ NextCtr \/ Start \/ (\E c \in Ctr : OpenDone(c)) \/ Wait \/ InitStep \/ InitDone \/ Pop \/ Drained

\* ---- properties
OutOf(c) == SelectSeq(out, LAMBDA r : r[1] = c)
\* each container's own order is preserved: what came out of c so far is <<c,1>>, <<c,2>>, ...
PerSourcePrefix == \A c \in Ctr : LET o == OutOf(c) IN \A k \in 1..Len(o) : o[k] = <<c, k>>
\* every record exactly once
Conservation == pc = "done" => \A c \in Ctr : Len(OutOf(c)) = Len(logs[c])
IsSorted(s) == \A k \in 1..(Len(s) - 1) : s[k] <= s[k + 1]
TsOut == [k \in 1..Len(out) |-> logs[out[k][1]][out[k][2]]]
\* merged output is time ordered whenever every log is
TimeOrder == (\A c \in Ctr : IsSorted(logs[c])) => IsSorted(TsOut)
\* slot idx holds container idx whatever the completion order (index-addressed slice, no shared writes)
SlotsIndexAddressed == pc \in {"init", "merge", "done"} => \A c \in Ctr : iters[c] = c
\* a slot is written once and never rewritten
SlotWriteOnce == [][\A c \in Ctr : iters[c] # 0 => iters'[c] = iters[c]]_vars
=============================================================================
