----------------------------- MODULE Trace_Render -----------------------------
(* C15, step 3: renderResult observed through a test mapped into cmd/docker-logql with -overlay. *)
EXTENDS TraceCommon, Render

VARIABLES E, opts, texts
fam == <<E, opts, texts>>
vars == <<tcvars, fam>>

\* flatten the streams of the case: one [ts, msg, ctr] per entry (a stream without a container label prints an empty name)
RECURSIVE Flatten(_, _)
Flatten(streams, k) == IF k > Len(streams) THEN <<>>
                       ELSE [j \in DOMAIN streams[k].entries |-> [ts |-> streams[k].entries[j][1], msg |-> streams[k].entries[j][2],
                                                                  ctr |-> IF streams[k].noLabel THEN <<>> ELSE streams[k].container]]
                            \o Flatten(streams, k + 1)
Init == TCInit /\ E = <<>> /\ opts = <<FALSE, FALSE, FALSE>> /\ texts = <<>>
Start == Begin /\ E' = Flatten(Trace[l].in.streams, 1) /\ opts' = Trace[l].in.opts /\ texts' = <<>>

\* trusted base: the RFC3339Nano text of every distinct timestamp, as rendered by Go's time package
TextsOk == \A i \in DOMAIN E : \E k \in DOMAIN Ev.texts : Ev.texts[k].ts = E[i].ts
EvTexts == IsEv("TsTexts") /\ TextsOk /\ Accept /\ texts' = Ev.texts /\ UNCHANGED <<E, opts>>
BadTexts == RejectEnv /\ Ev.ev = "TsTexts" /\ ~TextsOk /\ UNCHANGED fam

\* rendering succeeds, and the output is exactly one line per entry in time order
RenderedOk == Ev.ok /\ CanParse(Ev.out, 1, E, DOMAIN E, {}, opts, texts)
EvRendered == IsEv("Rendered") /\ RenderedOk /\ Accept /\ UNCHANGED fam

Explained == \/ Ev.ev = "TsTexts"
             \/ Ev.ev = "Rendered" /\ RenderedOk
Bad  == Reject /\ ~Explained /\ UNCHANGED fam
Next == Start \/ EvTexts \/ BadTexts \/ EvRendered \/ Bad \/ (Skipped /\ UNCHANGED fam) \/ (Finish /\ UNCHANGED fam)
TraceSpec == Init /\ [][Next]_vars
=============================================================================
