---------------------------- MODULE MC_LogQuery ----------------------------
(* C01 / C08, step 1.  The engine's log path transcribed: extractQueryConditions splits selector matchers
   and line filters between the storage parameters and the engine-side prefilter according to the storage's
   capabilities (line filters are offloaded only up to the first stage that rewrites the line or has memory),
   the storage returns - in time order - the records that satisfy what was offloaded, and entryIterator.Next
   runs limit guard, prefilter and pipeline on each.  Checked against the declarative LogResult for every
   record set, query, capability set and limit of the bounded pools. *)
EXTENDS Pipeline, TLC, Json

CONSTANTS MaxRec, MaxStages, Pools

Base == 1700000000
A == <<97>>
Bb == <<98>>
K == <<107>>
N == <<110>>
APP == <<97, 112, 112>>
KA == <<107, 61, 97>>                     \* k=a

\* a record is a logfmt line, or - when its document is Packed - a Promtail-packed JSON line whose _entry is a logfmt line
Packed == << <<<<112>>, <<112>>>> >>       \* marker document
PackedDoc == [k |-> "obj", fields |-> << <<S_entry, [k |-> "str", s |-> KA]>>, <<<<120>>, [k |-> "str", s |-> Bb]>> >>]     \* {"_entry":"k=a","x":"b"}
DocPool == IF Pools = "full"
             THEN { << <<K, A>> >>, << <<K, Bb>> >>, << <<K, A>>, <<N, <<53>>>> >>, << <<N, <<55>>>> >>, << <<K, A>>, <<N, <<120>>>> >>, Packed }
             ELSE { << <<K, A>> >>, << <<K, Bb>> >>, << <<K, A>>, <<N, <<55>>>> >>, Packed }
AttrPool == IF Pools = "full" THEN {<<>>, << <<APP, A>> >>, << <<APP, Bb>> >>} ELSE {<<>>, << <<APP, A>> >>}

LineEq(v)  == [t |-> "line", op |-> "eq", val |-> v, re |-> REps]
LineNeq(v) == [t |-> "line", op |-> "neq", val |-> v, re |-> REps]
LineRe(r)  == [t |-> "line", op |-> "re", val |-> ReText(r), re |-> r]
LineNre(r) == [t |-> "line", op |-> "nre", val |-> ReText(r), re |-> r]
LabelM(lb, op, v) == [t |-> "label", pred |-> [t |-> "m", label |-> lb, op |-> op, val |-> v, lit |-> <<>>, re |-> REps]]
LabelNum(lb, op, lit, n) == [t |-> "label", pred |-> [t |-> "num", label |-> lb, op |-> op, val |-> <<n, 1>>, lit |-> lit, re |-> REps]]
StagePool == IF Pools = "full"
               THEN { LineEq(A), LineEq(N), LineNeq(KA), LineRe(RCat(RLit(110), RCat(RLit(61), RAny))), LineNre(RCat(RLit(61), RLit(98))),
                      LabelM(K, "eq", A), LabelM(APP, "neq", A), LabelNum(N, "gt", <<53>>, 5), LabelNum(N, "lte", <<53>>, 5),
                      [t |-> "logfmt"], [t |-> "distinct", label |-> K], [t |-> "distinct", label |-> APP], [t |-> "unpack"],
                      [t |-> "linefmt", parts |-> << [t |-> "label", s |-> <<>>, name |-> APP] >>],
                      \* a regexp stage looks at the line without changing it: line filters behind it may still be offloaded
                      [t |-> "regexp", val |-> ReText(RCat(RCap(K, RPlus(RCls(<<107, 110>>))), RLit(61))), re |-> RCat(RCap(K, RPlus(RCls(<<107, 110>>))), RLit(61))] }
               ELSE { LineEq(N), LineNeq(Bb), LineRe(RCat(RLit(61), RLit(98))), LabelM(K, "eq", A), LabelNum(N, "gt", <<53>>, 5),
                      [t |-> "logfmt"], [t |-> "distinct", label |-> K], [t |-> "distinct", label |-> APP], [t |-> "unpack"],
                      [t |-> "linefmt", parts |-> << [t |-> "label", s |-> <<>>, name |-> APP] >>] }
SelPool == IF Pools # "full" THEN { <<>>, << [label |-> APP, op |-> "eq", val |-> A, re |-> REps] >> } ELSE
           { <<>>, << [label |-> APP, op |-> "eq", val |-> A, re |-> REps] >>, << [label |-> APP, op |-> "neq", val |-> A, re |-> REps] >>,
             << [label |-> APP, op |-> "re", val |-> ReText(RAlt(RLit(97), REps)), re |-> RAlt(RLit(97), REps)] >>,
             \* several matchers on one label with the same operator are a conjunction, not a repetition
             << [label |-> APP, op |-> "neq", val |-> A, re |-> REps], [label |-> APP, op |-> "neq", val |-> Bb, re |-> REps] >>,
             << [label |-> APP, op |-> "eq", val |-> A, re |-> REps], [label |-> APP, op |-> "eq", val |-> Bb, re |-> REps] >> }
Ops == {"eq", "neq", "re", "nre"}
LabelCaps == IF Pools = "full" THEN {{}, Ops, {"eq"}} ELSE {{}, Ops}
LineCaps == IF Pools = "full" THEN SUBSET Ops ELSE {{}, Ops, {"eq"}, {"neq", "re"}}
Limits == IF Pools = "full" THEN {0 - 1, 1, 2} ELSE {0 - 1, 1}

VARIABLES recs, sel, stages, capL, capF, limit,      \* the case
          pc, offLabels, prefilter, offLines, avail, idx, emitted, mems
vars == <<recs, sel, stages, capL, capF, limit, pc, offLabels, prefilter, offLines, avail, idx, emitted, mems>>

MkRec(i, doc, attrs) ==
  IF doc = Packed THEN [id |-> i, ts |-> <<Base + i, 0>>, line |-> EncJson(PackedDoc), attrs |-> attrs, doc |-> <<>>, jdoc |-> PackedDoc, jcanon |-> TRUE, jmal |-> FALSE, lmal |-> TRUE]
  ELSE [id |-> i, ts |-> <<Base + i, 0>>, line |-> EncLogfmt(doc), attrs |-> attrs, doc |-> doc, jdoc |-> [k |-> "obj", fields |-> <<>>], jcanon |-> FALSE, jmal |-> TRUE, lmal |-> FALSE]

Init == recs = <<>> /\ sel = <<>> /\ stages = <<>> /\ capL = {} /\ capF = {} /\ limit = 0 - 1 /\ pc = "gen"
        /\ offLabels = <<>> /\ prefilter = <<>> /\ offLines = <<>> /\ avail = <<>> /\ idx = 1 /\ emitted = <<>> /\ mems = <<>>

Rest == <<offLabels, prefilter, offLines, avail, idx, emitted, mems>>
AddRec == pc = "gen" /\ stages = <<>> /\ Len(recs) < MaxRec /\ \E d \in DocPool, a \in AttrPool :
            recs' = Append(recs, MkRec(Len(recs) + 1, d, a)) /\ UNCHANGED <<sel, stages, capL, capF, limit, pc>> /\ UNCHANGED Rest
AddStage == pc = "gen" /\ Len(recs) >= 1 /\ Len(stages) < MaxStages /\ \E s \in StagePool : stages' = Append(stages, s)
            /\ UNCHANGED <<recs, sel, capL, capF, limit, pc>> /\ UNCHANGED Rest
ChooseQuery == pc = "gen" /\ Len(recs) >= 1 /\ pc' = "caps" /\ (\E s \in SelPool : sel' = s) /\ (\E lm \in Limits : limit' = lm)
            /\ UNCHANGED <<recs, stages, capL, capF>> /\ UNCHANGED Rest
SetSeq(S) == LET RECURSIVE F(_) F(T) == IF T = {} THEN <<>> ELSE LET x == CHOOSE x \in T : TRUE IN <<x>> \o F(T \ {x}) IN F(S)
CapsList == SetSeq({[label |-> SetSeq(cl), line |-> SetSeq(cf)] : cl \in {{}, Ops}, cf \in {{}, Ops, {"eq"}}})
Case == [in |-> [recs |-> recs, sel |-> sel, stages |-> stages, queries |-> <<>>, caps |-> CapsList, limit |-> limit,
                 start |-> <<Base - 100, 0>>, end |-> <<Base + 100, 0>>]]
\* the case is exported once (before the capability set is chosen); the model then explores every capability set
Export == pc = "caps" /\ pc' = "plan" /\ (\E cl \in LabelCaps : capL' = cl) /\ (\E cf \in LineCaps : capF' = cf)
          /\ UNCHANGED <<recs, sel, stages, limit>> /\ UNCHANGED Rest
          /\ PrintT(<<"CASE", ToJson(Case)>>)

\* ---- extractQueryConditions
RECURSIVE OffloadLines(_, _)
OffloadLines(sts, k) ==
  IF k > Len(sts) THEN <<>>
  ELSE IF sts[k].t = "line" THEN (IF sts[k].op \in capF THEN <<sts[k]>> ELSE <<>>) \o OffloadLines(sts, k + 1)
  ELSE IF sts[k].t \in {"label", "logfmt", "json", "pattern", "regexp", "labelfmt", "drop", "keep"} THEN OffloadLines(sts, k + 1)     \* do nothing on the line: skip
  ELSE <<>>       \* line_format, decolorize, unpack rewrite the line, distinct has memory: later line filters stay in the engine
Plan == pc = "plan" /\ pc' = "select"
        /\ offLabels' = SelectSeq(sel, LAMBDA m : m.op \in capL)
        /\ prefilter' = SelectSeq(sel, LAMBDA m : m.op \notin capL)
        /\ offLines' = OffloadLines(stages, 1)
        /\ UNCHANGED <<recs, sel, stages, capL, capF, limit, avail, idx, emitted, mems>>

\* ---- the storage (environment): records satisfying what it was given, in time order
StorageOk(r) == /\ \A k \in DOMAIN offLabels : ValueMatch(offLabels[k].op, offLabels[k].val, offLabels[k].re, Get(RecordLabels(r), offLabels[k].label))
                /\ \A k \in DOMAIN offLines : LineMatch(offLines[k].op, offLines[k].val, offLines[k].re, r.line)
StorageSelect == pc = "select" /\ pc' = "iter" /\ avail' = SelectSeq(recs, StorageOk) /\ idx' = 1 /\ emitted' = <<>>
                 /\ mems' = EmptyMems(stages) /\ UNCHANGED <<recs, sel, stages, capL, capF, limit, offLabels, prefilter, offLines>>

\* ---- entryIterator.Next
NextRecord ==
  /\ pc = "iter" /\ idx <= Len(avail) /\ ~(limit > 0 /\ Len(emitted) >= limit)
  /\ LET r == avail[idx]
         L0 == RecordLabels(r)
         pre == \A k \in DOMAIN prefilter : ValueMatch(prefilter[k].op, prefilter[k].val, prefilter[k].re, Get(L0, prefilter[k].label))
     IN IF ~pre THEN UNCHANGED <<emitted, mems>>
        ELSE LET res == Run(stages, mems, r) IN
             /\ mems' = res.mems
             /\ emitted' = IF res.keep THEN Append(emitted, [id |-> r.id, ts |-> r.ts, line |-> res.line, L |-> res.L, open |-> res.open,
                                                             lopen |-> res.lopen, vopen |-> res.vopen, opt |-> res.opt]) ELSE emitted
  /\ idx' = idx + 1
  /\ UNCHANGED <<recs, sel, stages, capL, capF, limit, pc, offLabels, prefilter, offLines, avail>>
IterEnd == pc = "iter" /\ (idx > Len(avail) \/ (limit > 0 /\ Len(emitted) >= limit)) /\ pc' = "done"
           /\ UNCHANGED <<recs, sel, stages, capL, capF, limit, offLabels, prefilter, offLines, avail, idx, emitted, mems>>

Next == AddRec \/ AddStage \/ ChooseQuery \/ Export \/ Plan \/ StorageSelect \/ NextRecord \/ IterEnd

\* ---- properties
Expected == LET all == LogResult(sel, stages, recs) IN IF limit > 0 /\ Len(all) > limit THEN SubSeq(all, 1, limit) ELSE all
\* exactly the matching records, once each, original timestamp, whatever was offloaded; a positive limit keeps the first L
ResultExact == pc = "done" => emitted = Expected
NoOpenInPools == pc = "done" => ~AnyOpen(sel, stages, recs)
StagesWellFormed == \A k \in DOMAIN stages : StageWellFormed(stages[k])
=============================================================================
