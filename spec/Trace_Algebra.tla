---------------------------- MODULE Trace_Algebra ----------------------------
(* C19, step 3.  One scenario = one record set and a family of related queries evaluated on it; res[k] is the
   set of (timestamp, line) pairs the k-th query returned (records have distinct timestamps, so sets are
   multisets).  The relations are evaluated on the OBSERVED results only, so they hold for filters the
   specification cannot interpret (arbitrary needles, arbitrary valid regular expressions). *)
EXTENDS TraceCommon, FiniteSets

VARIABLES kind, nq, res, cur, q, okc
fam == <<kind, nq, res, cur, q, okc>>
vars == <<tcvars, fam>>

\* assumption of the family (as Pipeline!UnambiguousText): the text "| drop a != x" denotes a drop with a value matcher,
\* so no query of a case means "drop a" followed by a negative line filter
UnambiguousQ(st) == \A k \in 1..(Len(st) - 1) :
                      st[k].t \in {"drop", "keep"} /\ (IF Has(st[k], "matchers") THEN st[k].matchers = <<>> ELSE TRUE)
                        => ~(st[k + 1].t = "line" /\ st[k + 1].op \in {"neq", "nre"})
Init == TCInit /\ kind = "" /\ nq = 0 /\ res = <<>> /\ cur = {} /\ q = 0 /\ okc = TRUE
Start == Begin /\ kind' = Trace[l].in.fam /\ nq' = Len(Trace[l].in.queries) /\ res' = <<>> /\ cur' = {} /\ q' = 0
         /\ okc' = \A k \in DOMAIN Trace[l].in.queries : UnambiguousQ(Trace[l].in.queries[k])
BadCase == RejectEnv /\ Ev.ev = "Run" /\ ~okc /\ UNCHANGED fam

EvRun == IsEv("Run") /\ okc /\ Ev.q = Len(res) + 1 /\ Accept /\ q' = Ev.q /\ cur' = {} /\ UNCHANGED <<kind, nq, res, okc>>
EvEntry == IsEv("Entry") /\ Accept /\ cur' = cur \cup {<<Ev.ts, Ev.line>>} /\ UNCHANGED <<kind, nq, res, q, okc>>
EvStorage == IsEv("StorageSelect") /\ Accept /\ UNCHANGED fam

R == Append(res, cur)      \* results including the query that is returning now
RelationsFG == /\ R[2] \subseteq R[1]                                   \* q | f is a part of q
               /\ R[2] \cup R[3] = R[1] /\ R[2] \cap R[3] = {}           \* f and its negation split q
               /\ R[4] = R[5]                                           \* stateless filters commute
               /\ R[6] = R[2]                                           \* and are idempotent
               /\ R[7] \subseteq R[1]
               /\ R[8] = R[1]                                           \* |= "" changes nothing
RelationsP == /\ R[1] = R[3] \cap R[4]                                  \* a and b = intersection
              /\ R[2] = R[3] \cup R[4]                                  \* a or b  = union
              /\ R[3] \subseteq R[5] /\ R[4] \subseteq R[5]
ReturnOk == Ev.outcome = "ok"
            /\ (Len(res) + 1 = nq => IF kind = "fg" THEN RelationsFG ELSE RelationsP)
EvReturn == IsEv("Return") /\ ReturnOk /\ Accept /\ res' = R /\ cur' = {} /\ UNCHANGED <<kind, nq, q, okc>>

Explained == \/ Ev.ev \in {"Entry", "StorageSelect"}
             \/ Ev.ev = "Run" /\ Ev.q = Len(res) + 1
             \/ Ev.ev = "Return" /\ ReturnOk
Bad  == Reject /\ ~(Ev.ev = "Run" /\ ~okc) /\ ~Explained /\ UNCHANGED fam
Next == Start \/ BadCase \/ EvRun \/ EvEntry \/ EvStorage \/ EvReturn \/ Bad \/ (Skipped /\ UNCHANGED fam) \/ (Finish /\ UNCHANGED fam)
TraceSpec == Init /\ [][Next]_vars
=============================================================================
