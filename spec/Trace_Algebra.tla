---------------------------- MODULE Trace_Algebra ----------------------------
(* C19, step 3.  One scenario = one record set and a family of related queries evaluated on it; res[k] is the
   set of (timestamp, line) pairs the k-th query returned (records have distinct timestamps, so sets are
   multisets).  The relations are evaluated on the OBSERVED results only, so they hold for filters the
   specification cannot interpret (arbitrary needles, arbitrary valid regular expressions). *)
EXTENDS TraceCommon, FiniteSets

VARIABLES kind, nq, res, cur, q
fam == <<kind, nq, res, cur, q>>
vars == <<tcvars, fam>>

Init == TCInit /\ kind = "" /\ nq = 0 /\ res = <<>> /\ cur = {} /\ q = 0
Start == Begin /\ kind' = Trace[l].in.fam /\ nq' = Len(Trace[l].in.queries) /\ res' = <<>> /\ cur' = {} /\ q' = 0

EvRun == IsEv("Run") /\ Ev.q = Len(res) + 1 /\ Accept /\ q' = Ev.q /\ cur' = {} /\ UNCHANGED <<kind, nq, res>>
EvEntry == IsEv("Entry") /\ Accept /\ cur' = cur \cup {<<Ev.ts, Ev.line>>} /\ UNCHANGED <<kind, nq, res, q>>
EvStorage == IsEv("StorageSelect") /\ Accept /\ UNCHANGED fam

R == Append(res, cur)      \* results including the query that is returning now
RelationsFG == /\ R[2] \subseteq R[1]                                   \* q | f is a part of q
               /\ R[2] \cup R[3] = R[1] /\ R[2] \cap R[3] = {}           \* f and its negation split q
               /\ R[4] = R[5]                                           \* stateless filters commute
               /\ R[6] = R[2]                                           \* and are idempotent
               /\ R[7] \subseteq R[1]
               /\ R[8] = R[1]                                           \* |= "" changes nothing
RelationsP == /\ R[1] = R[3] \cap R[4]                                  \* a and b = intersection
              /\ R[2] = R[3] \cup R[4]                                  \* a or b  = union
              /\ R[3] \subseteq R[5] /\ R[4] \subseteq R[5]
ReturnOk == Ev.outcome = "ok"
            /\ (Len(res) + 1 = nq => IF kind = "fg" THEN RelationsFG ELSE RelationsP)
EvReturn == IsEv("Return") /\ ReturnOk /\ Accept /\ res' = R /\ cur' = {} /\ UNCHANGED <<kind, nq, q>>

Explained == \/ Ev.ev \in {"Entry", "StorageSelect"}
             \/ Ev.ev = "Run" /\ Ev.q = Len(res) + 1
             \/ Ev.ev = "Return" /\ ReturnOk
Bad  == Reject /\ ~Explained /\ UNCHANGED fam
Next == Start \/ EvRun \/ EvEntry \/ EvStorage \/ EvReturn \/ Bad \/ (Skipped /\ UNCHANGED fam) \/ (Finish /\ UNCHANGED fam)
TraceSpec == Init /\ [][Next]_vars
=============================================================================
