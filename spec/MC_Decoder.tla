---------------------------- MODULE MC_Decoder ----------------------------
(* C03, step 1.  streamIter.parseNext transcribed as a state machine (ReadFull of the 8-byte header,
   CopyN of the body, type test, payload parse) over a transport that delivers the stream in arbitrary
   fragments chosen by the environment, with a cut or a transport error at any byte.  TLC checks that the
   machine's outcome equals Decode(frames, fault) for every fragmentation. *)
EXTENDS Docker, TLC, Json, FiniteSets

CONSTANTS MaxFrames, PoolSet

Base == 1700000000
PoolFull == { [typ |-> 1, ts |-> <<Base, 0>>, msg |-> <<97>>, raw |-> FALSE],
              [typ |-> 2, ts |-> <<Base + 1, 500000000>>, msg |-> <<>>, raw |-> FALSE],
              [typ |-> 1, ts |-> <<Base + 2, 123456789>>, msg |-> <<32, 10>>, raw |-> FALSE],
              [typ |-> 3, ts |-> <<0, 0>>, msg |-> <<111, 111, 109>>, raw |-> TRUE],
              [typ |-> 1, ts |-> <<0, 0>>, msg |-> <<120, 32, 97>>, raw |-> TRUE],      \* "x a": bad timestamp
              [typ |-> 2, ts |-> <<0, 0>>, msg |-> <<120>>, raw |-> TRUE],              \* "x": no space
              [typ |-> 1, ts |-> <<0, 0>>, msg |-> <<>>, raw |-> TRUE],                 \* empty payload: no timestamp either
              [typ |-> 3, ts |-> <<0, 0>>, msg |-> <<>>, raw |-> TRUE] }                \* empty daemon error
PoolQuick == { [typ |-> 1, ts |-> <<Base, 0>>, msg |-> <<97>>, raw |-> FALSE],
               [typ |-> 2, ts |-> <<Base + 1, 500000000>>, msg |-> <<32, 10>>, raw |-> FALSE],
               [typ |-> 3, ts |-> <<0, 0>>, msg |-> <<111>>, raw |-> TRUE],
               [typ |-> 1, ts |-> <<0, 0>>, msg |-> <<120, 32, 97>>, raw |-> TRUE],
               [typ |-> 2, ts |-> <<0, 0>>, msg |-> <<>>, raw |-> TRUE] }                \* empty payload
Pool == IF PoolSet = "full" THEN PoolFull ELSE PoolQuick
Frags == { <<>>, <<1>>, <<3>>, <<7>>, <<2, 5, 1>> }
Chunk == {1, 3, 7, 64}          \* fragment sizes the environment may deliver in step 1

VARIABLES frames, fault,   \* the case
          pc,              \* "gen" | "fault" | "header" | "body" | "done"
          k, got,          \* current frame, bytes of the current header/body obtained so far
          pos,             \* bytes delivered by the transport
          out, err         \* records delivered (count: they are delivered in order, content is the frame's), error flag
vars == <<frames, fault, pc, k, got, pos, out, err>>

Init == frames = <<>> /\ fault = [kind |-> "none", pos |-> 0] /\ pc = "gen" /\ k = 1 /\ got = 0 /\ pos = 0 /\ out = 0 /\ err = FALSE

AddFrame == pc = "gen" /\ Len(frames) < MaxFrames /\ \E f \in Pool : frames' = Append(frames, f)
            /\ UNCHANGED <<fault, pc, k, got, pos, out, err>>
ChooseFault == pc = "gen" /\ Len(frames) >= 1 /\ pc' = "fault"
            /\ \/ fault' = [kind |-> "none", pos |-> 0]
               \/ \E kind \in {"cut", "readerr"}, p \in 0..StreamLen(frames) : fault' = [kind |-> kind, pos |-> p]
            /\ UNCHANGED <<frames, k, got, pos, out, err>>
Start == pc = "fault" /\ pc' = "header" /\ UNCHANGED <<frames, fault, k, got, pos, out, err>>
      \* beside: the query also selects a second, healthy container (what is observed of THIS stream must not change:
      \* in particular its failure is still the query's failure, wherever in the stream it sits)
      /\ \A fr \in Frags : \A c \in {"parselog", "evallog", "evalrange"} : \A bs \in (IF c = "parselog" THEN {FALSE} ELSE BOOLEAN) :
            PrintT(<<"CASE", ToJson([in |-> [frames |-> frames, fault |-> fault, frag |-> fr, consumer |-> c, beside |-> bs]])>>)

\* ---- transport: how many bytes a Read may deliver at stream offset pos
Limit == IF fault.kind = "none" THEN StreamLen(frames) ELSE fault.pos
AtEof == pos >= Limit /\ fault.kind # "readerr"
AtErr == pos >= Limit /\ fault.kind = "readerr"

\* ---- io.ReadFull(rd, header[:])
HeaderRead ==
  /\ pc = "header" /\ pos < Limit
  /\ \E c \in Chunk : LET n == IF c < 8 - got THEN (IF c < Limit - pos THEN c ELSE Limit - pos)
                                 ELSE (IF 8 - got < Limit - pos THEN 8 - got ELSE Limit - pos)
       IN /\ pos' = pos + n
          /\ IF got + n = 8 THEN pc' = "body" /\ got' = 0 ELSE pc' = pc /\ got' = got + n
  /\ UNCHANGED <<frames, fault, k, out, err>>
\* EOF / ErrUnexpectedEOF while reading the header: graceful end ("docker-cli does the same thing")
HeaderEof == pc = "header" /\ AtEof /\ pc' = "done" /\ UNCHANGED <<frames, fault, k, got, pos, out, err>>
HeaderErr == pc = "header" /\ AtErr /\ pc' = "done" /\ err' = TRUE /\ UNCHANGED <<frames, fault, k, got, pos, out>>

\* ---- io.CopyN(&buf, rd, frameSize)
BodyLen == PayloadLen(frames[k])
BodyRead ==
  /\ pc = "body" /\ got < BodyLen /\ pos < Limit
  /\ \E c \in Chunk : LET want == BodyLen - got
                          n == IF c < want THEN (IF c < Limit - pos THEN c ELSE Limit - pos)
                                           ELSE (IF want < Limit - pos THEN want ELSE Limit - pos)
       IN pos' = pos + n /\ got' = got + n
  /\ UNCHANGED <<frames, fault, pc, k, out, err>>
BodyFail == pc = "body" /\ got < BodyLen /\ pos >= Limit /\ pc' = "done" /\ err' = TRUE
            /\ UNCHANGED <<frames, fault, k, got, pos, out>>
\* typ == systemerr -> error; parseDockerLine: cut at the first space, parse the timestamp
BodyDone ==
  /\ pc = "body" /\ got = BodyLen
  /\ IF IsErrorFrame(frames[k])
       THEN pc' = "done" /\ err' = TRUE /\ UNCHANGED <<k, out, got>>
       ELSE out' = out + 1 /\ k' = k + 1 /\ got' = 0 /\ pc' = "header" /\ err' = err
  /\ UNCHANGED <<frames, fault, pos>>

Next == AddFrame \/ ChooseFault \/ Start \/ HeaderRead \/ HeaderEof \/ HeaderErr \/ BodyRead \/ BodyFail \/ BodyDone

\* the frame index never runs past the stream while a body is being read
TypeOK == pc = "body" => k <= Len(frames)
\* outcome is a function of (frames, fault) alone: no record lost or invented, errors surface, whatever the fragmentation
MatchesDecode == pc = "done" => out = Decode(frames, fault).n /\ err = Decode(frames, fault).err
\* delivered records are a prefix at every moment
PrefixAlways == pc \in {"header", "body", "done"} => out <= Decode(frames, fault).n
=============================================================================
