----------------------------- MODULE Trace_Parse -----------------------------
(* C05, step 3: logql.Parse on texts written from an AST under a layout: the valid text must be accepted and denote
   exactly the AST (wire form); a text produced by a forbidden mutation must be rejected. *)
EXTENDS TraceCommon, Query

VARIABLES in, applied
fam == <<in, applied>>
vars == <<tcvars, fam>>
Init == TCInit /\ in = <<>> /\ applied = FALSE
Start == Begin /\ in' = Trace[l].in /\ applied' = FALSE
EvText == IsEv("Text") /\ Accept /\ applied' = Ev.applied /\ UNCHANGED in
ParsedOk == IF in.mut = "" THEN ~Ev.err /\ Ev.ast = WireQuery(in)
            ELSE IF applied /\ in.mut \in Mutations THEN Ev.err       \* forbidden text: rejected, not accepted with another meaning
            ELSE TRUE                                                 \* the mutation did not apply to this query: nothing to check
EvParsed == IsEv("Parsed") /\ ParsedOk /\ Accept /\ UNCHANGED fam
Explained == Ev.ev = "Text" \/ (Ev.ev = "Parsed" /\ ParsedOk)
Bad  == Reject /\ ~Explained /\ UNCHANGED fam
Next == Start \/ EvText \/ EvParsed \/ Bad \/ (Skipped /\ UNCHANGED fam) \/ (Finish /\ UNCHANGED fam)
TraceSpec == Init /\ [][Next]_vars
=============================================================================
