----------------------------- MODULE MC_System -----------------------------
(* The composed system on small inventories: every pair of containers (labels from a pool, 0-2 frames each inside or
   outside the window), selector, one-stage pipeline, limit and rendering options of the pools.  Checked on the
   composition itself:
     - what is printed stems from frames of selected containers inside the window, each at most once, in time order;
     - a limit keeps the first entries of the unlimited answer;
     - for the stateless stages of the pools, filtering the merged stream equals merging the filtered streams.
   Every case is exported and executed through the plugin's own command. *)
EXTENDS System, TLC, Json

CONSTANTS Pools
Base == 1700000000
APP == <<97, 112, 112>>
A == <<97>>
B == <<98>>
Start == <<Base, 0>>
End == <<Base + 100, 0>>
Msg(c, j) == <<99, 48 + c, 45, 48 + j>>           \* c1-1
\* frame times: inside (10, 20, 30, 40), before (-50), after (+150); container 2's frames interleave with container 1's
Times(c) == IF c = 1 THEN <<10, 30, 150>> ELSE <<20, 0 - 50, 40>>
Ctr(c, app, nf) == [id |-> <<105, 100, 48 + c>>, name |-> <<110, 48 + c>>, image |-> <<105>>, imageId |-> <<115>>, command |-> <<99>>, created |-> 1,
                    state |-> <<114>>, status |-> <<85>>, labels |-> IF app = <<>> THEN <<>> ELSE << <<APP, app>> >>, noName |-> FALSE,
                    frames |-> [j \in 1..nf |-> [typ |-> 1 + (j % 2), ts |-> <<Base + Times(c)[j], 0>>, msg |-> Msg(c, j), raw |-> FALSE]]]
M(lb, op, v) == [label |-> lb, op |-> op, val |-> v, re |-> REps]
Sels == { <<>>, <<M(APP, "eq", A)>>, <<M(APP, "neq", A)>>, <<M(S_container, "eq", <<110, 49>>)>> }
        \cup (IF Pools = "full" THEN { <<M(APP, "eq", <<>>)>>, <<[label |-> APP, op |-> "re", val |-> ReText(RAlt(RLit(97), RLit(98))), re |-> RAlt(RLit(97), RLit(98))]>> } ELSE {})
Line(op, v) == [t |-> "line", op |-> op, val |-> v, re |-> REps]
StagePool == { <<>>, <<Line("eq", <<45, 49>>)>>, <<Line("neq", <<99, 49>>)>>,
               <<[t |-> "label", pred |-> [t |-> "m", label |-> APP, op |-> "eq", val |-> B, lit |-> <<>>, re |-> REps]]>>,
               \* the printed container name is the value of the label `container` at the END of the pipeline
               <<[t |-> "drop", labels |-> <<S_container>>, matchers |-> <<>>]>>,
               <<[t |-> "keep", labels |-> <<APP>>, matchers |-> <<>>], Line("eq", <<45, 49>>)>> }
Limits == IF Pools = "full" THEN {0 - 1, 1, 2, 3} ELSE {0 - 1, 2}
OptsPool == IF Pools = "full" THEN {<<t, c, FALSE>> : t \in BOOLEAN, c \in BOOLEAN} \cup {<<TRUE, TRUE, TRUE>>} ELSE {<<TRUE, TRUE, FALSE>>, <<FALSE, FALSE, FALSE>>, <<TRUE, TRUE, TRUE>>}

VARIABLES case, pc
vars == <<case, pc>>
\* (the case is chosen by an ACTION: TLC enumerates initial states on one thread, successors on all)
CaseOf(a1, a2, n1, n2, sel, st, lm, o, point, since, metric) ==
  [ctrs |-> <<Ctr(1, a1, n1), Ctr(2, a2, n2)>>, sel |-> sel, stages |-> st, start |-> IF point THEN <<Base + 25, 0>> ELSE Start,
   end |-> IF point THEN <<Base + 25, 0>> ELSE End, limit |-> lm, opts |-> o, since |-> since, metric |-> metric]
Init == pc = "init" /\ case = CaseOf(A, B, 0, 0, <<>>, <<>>, 0 - 1, <<TRUE, TRUE, FALSE>>, FALSE, 0, FALSE)
Choose == /\ pc = "init" /\ pc' = "gen"
          /\ \E a1 \in (IF Pools = "full" THEN {A, B} ELSE {A}), a2 \in (IF Pools = "full" THEN {A, B, <<>>} ELSE {B, <<>>}),
                n1 \in (IF Pools = "full" THEN 0..3 ELSE {0, 2, 3}), n2 \in (IF Pools = "full" THEN 0..3 ELSE {0, 3}),
                sel \in Sels, st \in StagePool, lm \in Limits, o \in OptsPool, point \in BOOLEAN, since \in {0, 75}, metric \in BOOLEAN :
               \* point: the window is the single instant Base + 25, on which no frame lies - nothing may be printed
               /\ (point => st = <<>> /\ lm = 0 - 1 /\ since = 0 /\ ~metric)
               \* since: the window is [End - 75, End] given as --end and --since (frames at +30 and +40 fall inside, +10 and +20 outside)
               /\ (since > 0 => lm = 0 - 1 /\ o = <<TRUE, TRUE, FALSE>>)
               \* metric: the query is count_over_time(<the log query> [1m]) - the command must fail and print nothing
               /\ (metric => since = 0 /\ lm = 0 - 1 /\ o = <<TRUE, TRUE, FALSE>> /\ st \in {<<>>, <<Line("eq", <<45, 49>>)>>})
               /\ case' = CaseOf(a1, a2, n1, n2, sel, st, lm, o, point, since, metric)
Export == pc = "gen" /\ pc' = "done" /\ UNCHANGED case /\ PrintT(<<"CASE", ToJson([in |-> case @@ [kind |-> "cmd"]])>>)
Next == Choose \/ Export

WellFormed == CaseWellFormed(case)
\* (LET: TLC evaluates a LET-bound value once per state, a top-level definition at every mention)
FromSelectedInWindow ==
  LET Pr == Printed(case) sel == DS!Selected(case.ctrs, case.sel) IN
  \A k \in DOMAIN Pr : \E i \in sel : \E j \in DOMAIN case.ctrs[i].frames :
     LET f == case.ctrs[i].frames[j] IN f.msg = Pr[k].msg /\ f.ts = Pr[k].ts /\ InWindow(f.ts, WStart(case), case.end)
       /\ (Pr[k].ctr = case.ctrs[i].name \/ (Pr[k].ctr = <<>> /\ \E s \in DOMAIN case.stages : case.stages[s].t \in {"drop", "keep"}))
InTimeOrderOnce == LET Pr == Printed(case) IN \A k, m \in DOMAIN Pr : k < m => SysTsLt(Pr[k].ts, Pr[m].ts)
LimitIsPrefix == LET Pr == Printed(case) Unlimited == Printed([case EXCEPT !.limit = 0 - 1]) IN
                 IF case.limit > 0 /\ Len(Unlimited) > case.limit THEN Pr = SubSeq(Unlimited, 1, case.limit) ELSE Pr = Unlimited
\* filter-then-merge = merge-then-filter (the stages of the pools are stateless)
MergeCommutes ==
  LET sel == DS!Selected(case.ctrs, case.sel)
      ids == UNION {LET per == LogResult(<<>>, case.stages, CtrRecords(case.ctrs, i, WStart(case), case.end)) IN {per[k].id : k \in DOMAIN per} : i \in sel}
      all == LogResult(<<>>, case.stages, Merged(case))
  IN {all[k].id : k \in DOMAIN all} = ids
=============================================================================
