------------------------------- MODULE Regex -------------------------------
(* A small regular-expression algebra with the matching semantics of Go's regexp (RE2 syntax) on the
   constructs it contains, and its rendering to regexp text.
     [t |-> "eps"]                        empty
     [t |-> "lit", c |-> byte]            one ASCII byte (rendered escaped when it is a metacharacter)
     [t |-> "any"]                        .   (any rune except newline)
     [t |-> "cls", set |-> <<bytes>>, neg |-> B]  [..] / [^..] over ASCII letters and digits (set is a sequence)
     [t |-> "cat"|"alt", a |-> r, b |-> r]
     [t |-> "star"|"plus"|"opt", a |-> r]
     [t |-> "bol"] / [t |-> "eol"]        ^ / $ without the m flag: beginning / end of the subject
     [t |-> "cap", name |-> bytes, a |-> r]   (?P<name>r): matches as r and records where
     [t |-> "grp", a |-> r]               (r): an unnamed capturing group - it only takes an index
     [t |-> "ci", a |-> r]                (?i)r at the very beginning: r matches without regard to (ASCII) letter case
   Subjects are arbitrary byte strings; "any" and negated classes consume one rune as Go decodes it. *)
EXTENDS Integers, Sequences, Utf8

\* case folding over ASCII letters: a letter becomes the class of its two cases, a class gains the other cases
\* (subjects are ASCII where this node is used: Go additionally folds a few non-ASCII runes such as U+212A onto letters)
IsLetter(c) == (c >= 65 /\ c <= 90) \/ (c >= 97 /\ c <= 122)
Other(c) == IF c >= 97 THEN c - 32 ELSE c + 32
RECURSIVE BothCases(_)
BothCases(set) == IF set = <<>> THEN <<>> ELSE (IF IsLetter(set[1]) THEN <<set[1], Other(set[1])>> ELSE <<set[1]>>) \o BothCases(Tail(set))
RECURSIVE Fold(_)
Fold(r) == CASE r.t = "lit" -> IF IsLetter(r.c) THEN [t |-> "cls", set |-> <<r.c, Other(r.c)>>, neg |-> FALSE] ELSE r
             [] r.t = "cls" -> [r EXCEPT !.set = BothCases(r.set)]
             [] r.t \in {"cat", "alt"} -> [r EXCEPT !.a = Fold(r.a), !.b = Fold(r.b)]
             [] r.t \in {"star", "plus", "opt", "cap", "grp", "ci"} -> [r EXCEPT !.a = Fold(r.a)]
             [] OTHER -> r
RECURSIVE Ends(_, _, _)
\* closure of a position set under one more iteration of r
RECURSIVE StarClose(_, _, _)
StarClose(r, s, S) == LET T == S \cup UNION {Ends(r, s, j) : j \in S}
                      IN IF T = S THEN S ELSE StarClose(r, s, T)

\* Ends(r, s, i): the set of positions j such that r matches s[i .. j-1]
Ends(r, s, i) ==
  CASE r.t = "eps"  -> {i}
    [] r.t = "lit"  -> IF i <= Len(s) /\ s[i] = r.c THEN {i + 1} ELSE {}
    [] r.t = "any"  -> IF i <= Len(s) /\ s[i] # 10 THEN {i + RuneAt(s, i).w} ELSE {}
    [] r.t = "cls"  -> IF i > Len(s) THEN {}
                       ELSE LET w == RuneAt(s, i).w
                                member == w = 1 /\ \E k \in DOMAIN r.set : r.set[k] = s[i]
                            IN IF member # r.neg THEN {i + w} ELSE {}
    [] r.t = "cat"  -> UNION {Ends(r.b, s, j) : j \in Ends(r.a, s, i)}
    [] r.t = "alt"  -> Ends(r.a, s, i) \cup Ends(r.b, s, i)
    [] r.t = "star" -> StarClose(r.a, s, {i})
    [] r.t = "plus" -> StarClose(r.a, s, Ends(r.a, s, i))
    [] r.t = "opt"  -> {i} \cup Ends(r.a, s, i)
    [] r.t = "bol"  -> IF i = 1 THEN {i} ELSE {}
    [] r.t = "eol"  -> IF i = Len(s) + 1 THEN {i} ELSE {}
    [] r.t \in {"cap", "grp"} -> Ends(r.a, s, i)
    [] r.t = "ci"   -> Ends(Fold(r.a), s, i)

FullMatch(r, s) == (Len(s) + 1) \in Ends(r, s, 1)           \* ^(?:r)$
Search(r, s)    == \E i \in 1..(Len(s) + 1) : Ends(r, s, i) # {}   \* unanchored

\* ---- rendering
Meta == {92, 46, 43, 42, 63, 40, 41, 124, 91, 93, 123, 125, 94, 36}   \* \ . + * ? ( ) | [ ] { } ^ $
Grp(x) == <<40, 63, 58>> \o x \o <<41>>                       \* (?:x)
RECURSIVE ReText(_)
ReText(r) ==
  CASE r.t = "eps"  -> <<>>
    [] r.t = "lit"  -> IF r.c \in Meta THEN <<92, r.c>> ELSE <<r.c>>
    [] r.t = "any"  -> <<46>>
    [] r.t = "cls"  -> <<91>> \o (IF r.neg THEN <<94>> ELSE <<>>) \o r.set \o <<93>>
    [] r.t = "cat"  -> (IF r.a.t = "alt" THEN Grp(ReText(r.a)) ELSE ReText(r.a))
                       \o (IF r.b.t = "alt" THEN Grp(ReText(r.b)) ELSE ReText(r.b))
    [] r.t = "alt"  -> ReText(r.a) \o <<124>> \o ReText(r.b)
    [] r.t = "star" -> Grp(ReText(r.a)) \o <<42>>
    [] r.t = "plus" -> Grp(ReText(r.a)) \o <<43>>
    [] r.t = "opt"  -> Grp(ReText(r.a)) \o <<63>>
    [] r.t = "bol"  -> <<94>>
    [] r.t = "eol"  -> <<36>>
    [] r.t = "cap"  -> <<40, 63, 80, 60>> \o r.name \o <<62>> \o ReText(r.a) \o <<41>>      \* (?P<name>...)
    [] r.t = "grp"  -> <<40>> \o ReText(r.a) \o <<41>>
    [] r.t = "ci"   -> <<40, 63, 105, 41>> \o ReText(r.a)                    \* (?i)...

\* handy constructors
RLit(x) == [t |-> "lit", c |-> x]
RAny == [t |-> "any"]
REps == [t |-> "eps"]
RCat(a, b) == [t |-> "cat", a |-> a, b |-> b]
RAlt(a, b) == [t |-> "alt", a |-> a, b |-> b]
RStar(a) == [t |-> "star", a |-> a]
RPlus(a) == [t |-> "plus", a |-> a]
ROpt(a) == [t |-> "opt", a |-> a]
RCls(S) == [t |-> "cls", set |-> S, neg |-> FALSE]
RNCls(S) == [t |-> "cls", set |-> S, neg |-> TRUE]
RBol == [t |-> "bol"]
REol == [t |-> "eol"]
RCap(n, a) == [t |-> "cap", name |-> n, a |-> a]
RGrp(a) == [t |-> "grp", a |-> a]
RCi(a) == [t |-> "ci", a |-> a]

(* ---- submatches: leftmost-first, as Go's regexp (and Perl) choose them.
   Prio(r, s, i) lists the ways r can match at position i in the order a backtracking matcher tries them: the left
   alternative first, a repetition or an option greedily.  Each way is [e |-> end position, c |-> captures], captures a
   set of <<name, begin, end>> with one triple per group that took part (a later iteration of a repetition replaces an
   earlier one; a group that does not take part in a later iteration keeps its earlier value).
   The match of an unanchored search is the best way at the leftmost position that has one.
   Repetition bodies must not match the empty string (NonNullableReps): RE2 simplifies empty iterations in ways this
   transcription does not follow. *)
Over(c1, c2) == {t \in c1 : \A u \in c2 : u[1] # t[1]} \cup c2
RECURSIVE ConcatAll(_)
ConcatAll(ss) == IF ss = <<>> THEN <<>> ELSE Head(ss) \o ConcatAll(Tail(ss))
RECURSIVE Prio(_, _, _)
RECURSIVE PrioStar(_, _, _)
PrioStar(a, s, i) ==
  LET pa == Prio(a, s, i) IN
  ConcatAll([k \in DOMAIN pa |->
               IF pa[k].e = i THEN <<>>
               ELSE LET rest == PrioStar(a, s, pa[k].e) IN [m \in DOMAIN rest |-> [e |-> rest[m].e, c |-> Over(pa[k].c, rest[m].c)]]])
  \o << [e |-> i, c |-> {}] >>
Prio(r, s, i) ==
  CASE r.t \in {"eps", "lit", "any", "cls", "bol", "eol"} ->
         LET E == Ends(r, s, i) IN IF E = {} THEN <<>> ELSE << [e |-> CHOOSE x \in E : TRUE, c |-> {}] >>
    [] r.t = "cap"  -> LET pa == Prio(r.a, s, i) IN [k \in DOMAIN pa |-> [e |-> pa[k].e, c |-> Over(pa[k].c, {<<r.name, i, pa[k].e>>})]]
    [] r.t = "grp"  -> Prio(r.a, s, i)
    [] r.t = "ci"   -> Prio(Fold(r.a), s, i)
    [] r.t = "cat"  -> LET pa == Prio(r.a, s, i) IN
                       ConcatAll([k \in DOMAIN pa |-> LET pb == Prio(r.b, s, pa[k].e) IN [m \in DOMAIN pb |-> [e |-> pb[m].e, c |-> Over(pa[k].c, pb[m].c)]]])
    [] r.t = "alt"  -> Prio(r.a, s, i) \o Prio(r.b, s, i)
    [] r.t = "opt"  -> Prio(r.a, s, i) \o << [e |-> i, c |-> {}] >>
    [] r.t = "star" -> PrioStar(r.a, s, i)
    [] r.t = "plus" -> LET pa == Prio(r.a, s, i) IN
                       ConcatAll([k \in DOMAIN pa |-> LET rest == PrioStar(r.a, s, pa[k].e) IN [m \in DOMAIN rest |-> [e |-> rest[m].e, c |-> Over(pa[k].c, rest[m].c)]]])
\* FindStringSubmatch: [found, b, e, c]
FirstMatch(r, s) ==
  LET starts == {i \in 1..(Len(s) + 1) : Prio(r, s, i) # <<>>} IN
  IF starts = {} THEN [found |-> FALSE, b |-> 0, e |-> 0, c |-> {}]
  ELSE LET i == CHOOSE i \in starts : \A j \in starts : i <= j
           p == Prio(r, s, i)[1]
       IN [found |-> TRUE, b |-> i, e |-> p.e, c |-> p.c]
\* group names in the order of their opening parentheses
RECURSIVE CapNames(_)
CapNames(r) == CASE r.t = "cap" -> <<r.name>> \o CapNames(r.a)
                 [] r.t = "grp" -> CapNames(r.a)
                 [] r.t \in {"cat", "alt"} -> CapNames(r.a) \o CapNames(r.b)
                 [] r.t \in {"star", "plus", "opt"} -> CapNames(r.a)
                 [] OTHER -> <<>>
\* capturing groups, named or not, are numbered from 1 in the order of their opening parentheses: <<index, name>> of the named ones
RECURSIVE NGroups(_)
NGroups(r) == CASE r.t \in {"cap", "grp"} -> 1 + NGroups(r.a)
                [] r.t \in {"cat", "alt"} -> NGroups(r.a) + NGroups(r.b)
                [] r.t \in {"star", "plus", "opt"} -> NGroups(r.a)
                [] OTHER -> 0
RECURSIVE Indexed(_, _)
Indexed(r, k) == CASE r.t = "cap" -> << <<k, r.name>> >> \o Indexed(r.a, k + 1)
                   [] r.t = "grp" -> Indexed(r.a, k + 1)
                   [] r.t \in {"cat", "alt"} -> Indexed(r.a, k) \o Indexed(r.b, k + NGroups(r.a))
                   [] r.t \in {"star", "plus", "opt"} -> Indexed(r.a, k)
                   [] OTHER -> <<>>
RECURSIVE Nullable(_)
Nullable(r) == CASE r.t \in {"eps", "bol", "eol", "star", "opt"} -> TRUE
                 [] r.t \in {"lit", "any", "cls"} -> FALSE
                 [] r.t \in {"cap", "grp", "plus"} -> Nullable(r.a)
                 [] r.t = "cat" -> Nullable(r.a) /\ Nullable(r.b)
                 [] r.t = "alt" -> Nullable(r.a) \/ Nullable(r.b)
RECURSIVE NonNullableReps(_)
NonNullableReps(r) == CASE r.t \in {"star", "plus"} -> ~Nullable(r.a) /\ NonNullableReps(r.a)
                        [] r.t \in {"cap", "grp", "opt"} -> NonNullableReps(r.a)
                        [] r.t \in {"cat", "alt"} -> NonNullableReps(r.a) /\ NonNullableReps(r.b)
                        [] OTHER -> TRUE
=============================================================================
