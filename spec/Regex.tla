------------------------------- MODULE Regex -------------------------------
(* A small regular-expression algebra with the matching semantics of Go's regexp (RE2 syntax) on the
   constructs it contains, and its rendering to regexp text.
     [t |-> "eps"]                        empty
     [t |-> "lit", c |-> byte]            one ASCII byte (rendered escaped when it is a metacharacter)
     [t |-> "any"]                        .   (any rune except newline)
     [t |-> "cls", set |-> <<bytes>>, neg |-> B]  [..] / [^..] over ASCII letters and digits (set is a sequence)
     [t |-> "cat"|"alt", a |-> r, b |-> r]
     [t |-> "star"|"plus"|"opt", a |-> r]
     [t |-> "bol"] / [t |-> "eol"]        ^ / $ without the m flag: beginning / end of the subject
   Subjects are arbitrary byte strings; "any" and negated classes consume one rune as Go decodes it. *)
EXTENDS Integers, Sequences, Utf8

RECURSIVE Ends(_, _, _)
\* closure of a position set under one more iteration of r
RECURSIVE StarClose(_, _, _)
StarClose(r, s, S) == LET T == S \cup UNION {Ends(r, s, j) : j \in S}
                      IN IF T = S THEN S ELSE StarClose(r, s, T)

\* Ends(r, s, i): the set of positions j such that r matches s[i .. j-1]
Ends(r, s, i) ==
  CASE r.t = "eps"  -> {i}
    [] r.t = "lit"  -> IF i <= Len(s) /\ s[i] = r.c THEN {i + 1} ELSE {}
    [] r.t = "any"  -> IF i <= Len(s) /\ s[i] # 10 THEN {i + RuneAt(s, i).w} ELSE {}
    [] r.t = "cls"  -> IF i > Len(s) THEN {}
                       ELSE LET w == RuneAt(s, i).w
                                member == w = 1 /\ \E k \in DOMAIN r.set : r.set[k] = s[i]
                            IN IF member # r.neg THEN {i + w} ELSE {}
    [] r.t = "cat"  -> UNION {Ends(r.b, s, j) : j \in Ends(r.a, s, i)}
    [] r.t = "alt"  -> Ends(r.a, s, i) \cup Ends(r.b, s, i)
    [] r.t = "star" -> StarClose(r.a, s, {i})
    [] r.t = "plus" -> StarClose(r.a, s, Ends(r.a, s, i))
    [] r.t = "opt"  -> {i} \cup Ends(r.a, s, i)
    [] r.t = "bol"  -> IF i = 1 THEN {i} ELSE {}
    [] r.t = "eol"  -> IF i = Len(s) + 1 THEN {i} ELSE {}

FullMatch(r, s) == (Len(s) + 1) \in Ends(r, s, 1)           \* ^(?:r)$
Search(r, s)    == \E i \in 1..(Len(s) + 1) : Ends(r, s, i) # {}   \* unanchored

\* ---- rendering
Meta == {92, 46, 43, 42, 63, 40, 41, 124, 91, 93, 123, 125, 94, 36}   \* \ . + * ? ( ) | [ ] { } ^ $
Grp(x) == <<40, 63, 58>> \o x \o <<41>>                       \* (?:x)
RECURSIVE ReText(_)
ReText(r) ==
  CASE r.t = "eps"  -> <<>>
    [] r.t = "lit"  -> IF r.c \in Meta THEN <<92, r.c>> ELSE <<r.c>>
    [] r.t = "any"  -> <<46>>
    [] r.t = "cls"  -> <<91>> \o (IF r.neg THEN <<94>> ELSE <<>>) \o r.set \o <<93>>
    [] r.t = "cat"  -> (IF r.a.t = "alt" THEN Grp(ReText(r.a)) ELSE ReText(r.a))
                       \o (IF r.b.t = "alt" THEN Grp(ReText(r.b)) ELSE ReText(r.b))
    [] r.t = "alt"  -> ReText(r.a) \o <<124>> \o ReText(r.b)
    [] r.t = "star" -> Grp(ReText(r.a)) \o <<42>>
    [] r.t = "plus" -> Grp(ReText(r.a)) \o <<43>>
    [] r.t = "opt"  -> Grp(ReText(r.a)) \o <<63>>
    [] r.t = "bol"  -> <<94>>
    [] r.t = "eol"  -> <<36>>

\* handy constructors
RLit(x) == [t |-> "lit", c |-> x]
RAny == [t |-> "any"]
REps == [t |-> "eps"]
RCat(a, b) == [t |-> "cat", a |-> a, b |-> b]
RAlt(a, b) == [t |-> "alt", a |-> a, b |-> b]
RStar(a) == [t |-> "star", a |-> a]
RPlus(a) == [t |-> "plus", a |-> a]
ROpt(a) == [t |-> "opt", a |-> a]
RCls(S) == [t |-> "cls", set |-> S, neg |-> FALSE]
RNCls(S) == [t |-> "cls", set |-> S, neg |-> TRUE]
RBol == [t |-> "bol"]
REol == [t |-> "eol"]
=============================================================================
