---------------------------- MODULE Trace_System ----------------------------
(* The plugin's own command (`logql query ...` built by rootCmd over a fake Docker CLI) observed from outside:
   its exit and the bytes it wrote.  Checked against System!Printed through Render!CanParse. *)
EXTENDS TraceCommon, System
RD == INSTANCE Render

VARIABLES case, texts, exited, badflag, metric
fam == <<case, texts, exited, badflag, metric>>
vars == <<tcvars, fam>>
NoCase == [ctrs |-> <<>>, sel |-> <<>>, stages |-> <<>>, start |-> <<0, 0>>, end |-> <<0, 0>>, limit |-> 0 - 1, opts |-> <<FALSE, FALSE, FALSE>>, since |-> 0]

Init == TCInit /\ case = NoCase /\ texts = <<>> /\ exited = FALSE /\ badflag = <<>> /\ metric = FALSE
Start == Begin /\ case' = [ctrs |-> Trace[l].in.ctrs, sel |-> Trace[l].in.sel, stages |-> Trace[l].in.stages, start |-> Trace[l].in.start,
                           end |-> Trace[l].in.end, limit |-> Trace[l].in.limit, opts |-> Trace[l].in.opts, since |-> Fld(Trace[l].in, "since", 0)]
         /\ texts' = <<>> /\ exited' = FALSE /\ badflag' = Fld(Trace[l].in, "badflag", <<>>) /\ metric' = Fld(Trace[l].in, "metric", FALSE)

\* the command line the probe built (free: recorded for the reader of a replay)
EvArgs == IsEv("Args") /\ CaseWellFormed(case) /\ Accept /\ UNCHANGED fam
BadCase == RejectEnv /\ Ev.ev = "Args" /\ ~CaseWellFormed(case) /\ UNCHANGED fam
\* trusted base: RFC3339Nano text of every frame's timestamp
EvTexts == IsEv("TsTexts") /\ Accept /\ texts' = Ev.texts /\ UNCHANGED <<case, exited, badflag, metric>>
\* a well-formed command over a healthy daemon succeeds; one with a malformed flag value is refused and prints nothing;
\* so does a metric query (the command has no rendering for samples: it fails after evaluating, it does not print something else)
ExitOk == ~exited /\ (Ev.ok = (badflag = <<>> /\ ~metric))
EvExit == IsEv("Exit") /\ ExitOk /\ Accept /\ exited' = TRUE /\ UNCHANGED <<case, texts, badflag, metric>>
RenderedOk == exited /\ (IF badflag = <<>> /\ ~metric THEN LET E == Printed(case) IN RD!CanParse(Ev.out, 1, E, DOMAIN E, {}, case.opts, texts) ELSE Ev.out = <<>>)
EvRendered == IsEv("Rendered") /\ RenderedOk /\ Accept /\ UNCHANGED fam

Explained == \/ Ev.ev \in {"Args", "TsTexts"}
             \/ Ev.ev = "Exit" /\ ExitOk
             \/ Ev.ev = "Rendered" /\ RenderedOk
Bad  == Reject /\ ~Explained /\ UNCHANGED fam
Next == Start \/ EvArgs \/ BadCase \/ EvTexts \/ EvExit \/ EvRendered \/ Bad \/ (Skipped /\ UNCHANGED fam) \/ (Finish /\ UNCHANGED fam)
TraceSpec == Init /\ [][Next]_vars
=============================================================================
