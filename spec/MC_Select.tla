----------------------------- MODULE MC_Select -----------------------------
(* C02, step 1.  fetchContainers transcribed: for every listed container derive the label map, then
   containerLabels.Match walks the matchers and stops at the first that fails.  Checked against the
   declarative Selected(ctrs, ms) for every inventory / selector of the bounded pools. *)
EXTENDS DockerSel, TLC, Json

CONSTANTS MaxCtr, Pools        \* Pools: "quick" | "full"

Base == 1700000000
A == <<97>>
AB == <<97, 98>>
Bb == <<98>>
E == <<>>
K == <<107>>            \* k
KX == <<107, 46, 120>>  \* k.x   -> k_x
K1 == <<49, 107>>       \* 1k    -> _1k
ZZ == <<122, 122>>      \* never present

NamePool == IF Pools = "full" THEN {A, AB, Bb} ELSE {A, AB}
LabelPool == IF Pools = "full" THEN {<<>>, << <<K, A>> >>, << <<K, AB>> >>, << <<KX, AB>> >>, << <<K1, E>> >>, << <<KX, A>>, <<K, E>> >>}
             ELSE {<<>>, << <<K, A>> >>, << <<KX, AB>> >>, << <<K1, E>> >>}
MLabelPool == {S_container, S_container_name, K, <<107, 95, 120>>, <<95, 49, 107>>, ZZ}
ValPool == {E, A, AB}
RePool == { RCat(RLit(97), RStar(RAny)),        \* a.*
            RAlt(RLit(97), RLit(98)),           \* a|b
            RPlus(RAny),                        \* .+
            RCls(<<97, 98>>),                   \* [ab]
            REps,                               \* ""
            RCat(RLit(97), ROpt(RLit(98))) }    \* ab?
Matchers1 == {[label |-> lb, op |-> op, val |-> v, re |-> REps] : lb \in MLabelPool, op \in {"eq", "neq"}, v \in ValPool}
             \cup {[label |-> lb, op |-> op, val |-> ReText(r), re |-> r] : lb \in MLabelPool, op \in {"re", "nre"}, r \in RePool}
\* second matcher of a two-matcher selector comes from a reduced pool
Matchers2 == {m \in Matchers1 : m.label \in {S_container, K, ZZ} /\ (m.op \in {"eq", "neq"} => m.val = A)
                                /\ (m.op \in {"re", "nre"} => m.re = RCat(RLit(97), RStar(RAny)))}
Times == { [start |-> <<Base - 10, 0>>, end |-> <<Base + 10, 0>>],
           [start |-> <<Base - 10, 250000000>>, end |-> <<Base + 10, 750000000>>],
           [start |-> <<Base + 5, 500000000>>, end |-> <<Base + 5, 500000000>>] }      \* instant

VARIABLES ctrs, ms, tm, pc, ci, mi, sel
vars == <<ctrs, ms, tm, pc, ci, mi, sel>>

MkCtr(i, nm, lbls) == [id |-> <<105, 100, 48 + i>>, name |-> nm, image |-> <<105, 109>>, imageId |-> <<115, 104>>,
                       command |-> <<99>>, created |-> 7, state |-> <<114, 117, 110>>, status |-> <<85, 112>>,
                       labels |-> lbls, noName |-> FALSE,
                       frames |-> << [typ |-> 1, ts |-> <<Base + 1, 0>>, msg |-> <<99, 48 + i, 45, 49>>, raw |-> FALSE],
                                     [typ |-> 2, ts |-> <<Base + 2, 0>>, msg |-> <<99, 48 + i, 45, 50>>, raw |-> FALSE] >>]

Init == ctrs = <<>> /\ ms = <<>> /\ tm = [start |-> <<0, 0>>, end |-> <<0, 0>>] /\ pc = "gen" /\ ci = 1 /\ mi = 1 /\ sel = <<>>

\* with the "quick" pools only the first container ranges over the whole pool (selection is per container)
AddCtr == pc = "gen" /\ Len(ctrs) < MaxCtr
          /\ \E nm \in (IF Pools = "quick" /\ Len(ctrs) >= 1 THEN {A} ELSE NamePool),
                lb \in (IF Pools = "quick" /\ Len(ctrs) >= 1 THEN {<<>>, << <<K, A>> >>} ELSE LabelPool) :
               ctrs' = Append(ctrs, MkCtr(Len(ctrs) + 1, nm, lb))
          /\ UNCHANGED <<ms, tm, pc, ci, mi, sel>>
ChooseSel == pc = "gen" /\ Len(ctrs) >= 1 /\ pc' = "time"
             /\ \/ ms' = <<>>
                \/ \E m \in Matchers1 : ms' = <<m>>
                \/ \E m1 \in Matchers2, m2 \in Matchers2 : ms' = <<m1, m2>>
             /\ UNCHANGED <<ctrs, tm, ci, mi, sel>>
Case == [in |-> [ctrs |-> ctrs, sel |-> ms, sel2 |-> <<>>, shape |-> "log", start |-> tm'.start, end |-> tm'.end,
                 step |-> 0, range |-> 1000, limit |-> 0 - 1, orders |-> <<>>, reps |-> 1, faults |-> <<>>,
                 listErr |-> FALSE, frag |-> <<>>]]
\* two-matcher selectors are evaluated for the second time variant only
Start == pc = "time" /\ (\E t \in Times : tm' = t /\ (Len(ms) = 2 => t.start[2] = 250000000)) /\ pc' = "ctr" /\ UNCHANGED <<ctrs, ms, ci, mi, sel>>
         /\ PrintT(<<"CASE", ToJson(Case)>>)

\* ---- for _, ctr := range containers { set := getLabels(ctr); if set.Match(params.Labels) { r = append(r, ...) } }
\* Match: for _, matcher := range matchers { value := labels[matcher.Label] (missing reads as ""); if !match(matcher, value) { return false } }
MatchStep ==
  /\ pc = "ctr" /\ ci <= Len(ctrs) /\ mi <= Len(ms)
  /\ LET v == Get(CtrLabels(ctrs[ci]), ms[mi].label) IN
       IF MatchValue(ms[mi], v) THEN mi' = mi + 1 /\ UNCHANGED <<ci, sel>>
       ELSE ci' = ci + 1 /\ mi' = 1 /\ UNCHANGED sel                      \* return false: container skipped
  /\ UNCHANGED <<ctrs, ms, tm, pc>>
MatchAll == pc = "ctr" /\ ci <= Len(ctrs) /\ mi > Len(ms) /\ sel' = Append(sel, ci) /\ ci' = ci + 1 /\ mi' = 1
            /\ UNCHANGED <<ctrs, ms, tm, pc>>
ListDone == pc = "ctr" /\ ci > Len(ctrs) /\ pc' = "done" /\ UNCHANGED <<ctrs, ms, tm, ci, mi, sel>>

Next == AddCtr \/ ChooseSel \/ Start \/ MatchStep \/ MatchAll \/ ListDone

SelectionExact == pc = "done" => {sel[i] : i \in DOMAIN sel} = Selected(ctrs, ms) /\ Len(sel) = Cardinality(Selected(ctrs, ms))
CasesWellFormed == \A i \in DOMAIN ctrs : Unambiguous(ctrs[i])
MatchersWellFormed == \A k \in DOMAIN ms : MatcherWellFormed(ms[k])
=============================================================================
