------------------------------ MODULE Pattern ------------------------------
(* The `pattern` stage (C06): logqlpattern.Parse / Match transcribed.
   A pattern is a sequence of [t |-> "lit", s] / [t |-> "cap", name] parts, literals and captures alternating
   (never two captures in a row), at least one capture; name "_" captures nothing. *)
EXTENDS Integers, Sequences, Bytes

PatPartText(p) == IF p.t = "lit" THEN p.s ELSE <<60>> \o p.name \o <<62>>
RECURSIVE PatText(_)
PatText(ps) == IF ps = <<>> THEN <<>> ELSE PatPartText(ps[1]) \o PatText(Tail(ps))

(* Match: literal: the input must start with it (else stop); capture: everything up to the first occurrence of the
   next literal (or the rest of the input for the last part); when the next literal does not occur the capture
   takes the rest, is still recorded, and matching stops.  Result: sequence of <<name, value>> in capture order. *)
RECURSIVE MatchFrom(_, _, _)
MatchFrom(ps, k, input) ==
  IF k > Len(ps) THEN <<>>
  ELSE LET p == ps[k] IN
       IF p.t = "lit"
         THEN IF HasPrefix(input, p.s) THEN MatchFrom(ps, k + 1, Drop(input, Len(p.s))) ELSE <<>>
       ELSE LET last == k = Len(ps)
                nextLit == IF last THEN <<>> ELSE ps[k + 1].s
                found == last \/ Contains(input, nextLit)
                value == IF last THEN input ELSE IF found THEN Take(input, IndexOf(input, nextLit) - 1) ELSE input
                rec == IF p.name = <<95>> THEN <<>> ELSE << <<p.name, value>> >>
            IN IF found THEN rec \o MatchFrom(ps, k + 1, Drop(input, Len(value))) ELSE rec
PatMatch(ps, input) == MatchFrom(ps, 1, input)
=============================================================================
