---------------------------- MODULE Trace_Metric ----------------------------
(* C09 - C13, step 3.  One scenario = one record set and one metric expression evaluated by Engine.Eval under
   several evaluation parameters (range queries with different starts / ends / steps and instant queries:
   events Run .. Return).  Every returned point (labels, time, value) must be a sample of the declarative
   EvalTop(expr, T) for a T on the run's grid, no sample may be returned twice, and at Return every sample that
   must exist has been returned - for every T of the grid.  This is what makes the value at T independent of
   where the grid starts, of the step, and equal between range and instant evaluation. *)
EXTENDS TraceCommon, Metric

VARIABLES recs, expr, ents, open, flat,
          grid, expAt, matched, lastV, returned, inst
fam == <<recs, expr, ents, open, flat, grid, expAt, matched, lastV, returned, inst>>
vars == <<tcvars, fam>>

NoExpr == [t |-> "vector", v |-> <<0, 1>>]
MaxId(e) == LET ids == {r.id : r \in Ranges(e)} IN IF ids = {} THEN 0 ELSE CHOOSE m \in ids : \A x \in ids : x <= m
EntsOf(e, rs) == [i \in 1..MaxId(e) |-> LET r == CHOOSE r \in Ranges(e) : r.id = i IN EntriesOf(r, rs)]

\* ---- C13: a flat chain  operand op operand op ...  with at most one parenthesised sub-chain, conventional reading
Prec(op) == CASE op = "or" -> 1 [] op \in {"and", "unless"} -> 2 [] op \in CmpOps -> 3
              [] op \in {"add", "sub"} -> 4 [] op \in {"mul", "div", "mod"} -> 5 [] op = "pow" -> 6
MinOf(S) == CHOOSE m \in S : \A x \in S : m <= x
MaxOf(S) == CHOOSE m \in S : \A x \in S : x <= m
RECURSIVE ConvTree(_, _)
ConvTree(operands, ops) ==
  IF Len(operands) = 1 THEN operands[1]
  ELSE LET low == MinOf({Prec(ops[i]) : i \in DOMAIN ops})
           cand == {i \in DOMAIN ops : Prec(ops[i]) = low}
           \* left associative: the LAST operator of lowest precedence is the root; ^ is right associative: the FIRST
           i == IF low = 6 THEN MinOf(cand) ELSE MaxOf(cand)
       IN [t |-> "binop", op |-> ops[i],
           a |-> ConvTree(SubSeq(operands, 1, i), SubSeq(ops, 1, i - 1)),
           b |-> ConvTree(SubSeq(operands, i + 1, Len(operands)), SubSeq(ops, i + 1, Len(ops)))]
Leaf(p) == [t |-> "leaf", v |-> p]
FlatTree(f) ==
  LET leaves == [i \in DOMAIN f.operands |-> Leaf(f.operands[i])] IN
  IF f.open = 0 THEN ConvTree(leaves, f.ops)
  ELSE LET inner == ConvTree(SubSeq(leaves, f.open, f.close), SubSeq(f.ops, f.open, f.close - 1))
           outerOperands == SubSeq(leaves, 1, f.open - 1) \o <<inner>> \o SubSeq(leaves, f.close + 1, Len(leaves))
           outerOps == SubSeq(f.ops, 1, f.open - 1) \o SubSeq(f.ops, f.close, Len(f.ops))
       IN ConvTree(outerOperands, outerOps)
\* ---- the grouping the parser actually builds (known finding C13/equal-prec-right, switched on by Dev): parseBinOp's
\* inner loop re-enters with the SAME minimum precedence when the next operator has equal precedence, so operators of
\* equal precedence group to the right:  a - b + c  is read  a - (b + c).
RECURSIVE PB(_, _, _, _, _)
RECURSIVE Inner(_, _, _, _)
Inner(lv, ops, op, r) == IF r.i > Len(ops) \/ Prec(ops[r.i]) < Prec(op) THEN r
                         ELSE LET np == IF Prec(ops[r.i]) > Prec(op) THEN Prec(op) + 1 ELSE Prec(op)
                              IN Inner(lv, ops, op, PB(lv, ops, r.tr, np, r.i))
PB(lv, ops, left, mp, i) ==
  IF i > Len(ops) \/ Prec(ops[i]) < mp THEN [tr |-> left, i |-> i]
  ELSE LET inner == Inner(lv, ops, ops[i], [tr |-> lv[i + 1], i |-> i + 1])
       IN PB(lv, ops, [t |-> "binop", op |-> ops[i], a |-> left, b |-> inner.tr], mp, inner.i)
CodeTree(operands, ops) == PB(operands, ops, operands[1], 0, 1).tr
Grouping(operands, ops) == IF "EqualPrecRight" \in Dev THEN CodeTree(operands, ops) ELSE ConvTree(operands, ops)
FlatTreeDev(f) ==
  LET leaves == [i \in DOMAIN f.operands |-> Leaf(f.operands[i])] IN
  IF f.open = 0 THEN Grouping(leaves, f.ops)
  ELSE LET inner == Grouping(SubSeq(leaves, f.open, f.close), SubSeq(f.ops, f.open, f.close - 1))
           outerOperands == SubSeq(leaves, 1, f.open - 1) \o <<inner>> \o SubSeq(leaves, f.close + 1, Len(leaves))
           outerOps == SubSeq(f.ops, 1, f.open - 1) \o SubSeq(f.ops, f.close, Len(f.ops))
       IN Grouping(outerOperands, outerOps)

\* every operand is vector(x): one sample with no labels. Outcomes: "absent" or a number; a comparison that does not
\* hold yields absent or 0 (left open), so the evaluation is set-valued.
Absent == [k |-> "absent", n |-> 0, d |-> 1]
RECURSIVE Outcomes(_)
Outcomes(tr) ==
  IF tr.t = "leaf" THEN {LitV(tr.v)}
  ELSE UNION {UNION {
         CASE tr.op = "and" -> {IF y.k = "absent" THEN Absent ELSE x}
           [] tr.op = "or" -> {IF x.k = "absent" THEN y ELSE x}
           [] tr.op = "unless" -> {IF y.k = "absent" THEN x ELSE Absent}
           [] tr.op \in CmpOps -> IF x.k = "absent" \/ y.k = "absent" THEN {Absent}
                                  ELSE IF IsOpen(x) \/ IsOpen(y) \/ Undet(x, y) THEN {Absent, Zero, One}
                                  ELSE IF Holds(tr.op, x, y) THEN {One} ELSE {Absent, Zero}
           [] OTHER -> {IF x.k = "absent" \/ y.k = "absent" THEN Absent ELSE Arith(tr.op, x, y)}
         : y \in Outcomes(tr.b)} : x \in Outcomes(tr.a)}

\* ---- per run
\* the grid start + k * step <= end as <<s, ns>> instants; start, end and step may carry milliseconds (startMs, endMs, stepMs),
\* the arithmetic is done in milliseconds relative to the start second
MsOf(ev, f) == IF f \in DOMAIN ev THEN ev[f] ELSE 0
GridOf(ev) == LET sm == MsOf(ev, "startMs")
                  span == (ev.end - ev.start) * 1000 + MsOf(ev, "endMs") - sm
                  stp == ev.step * 1000 + MsOf(ev, "stepMs")
                  sn == MsOf(ev, "startNs")                      \* the instants keep the start's sub-millisecond part (steps are whole ms)
                  spanE == IF MsOf(ev, "endNs") < sn THEN span - 1 ELSE span
                  At(t) == <<ev.start + (t \div 1000), (t % 1000) * 1000000 + sn>>
              IN IF stp = 0 THEN {At(sm)} ELSE {At(sm + k * stp) : k \in 0..(spanE \div stp)}
\* results carry millisecond timestamps: a grid instant is recognised by its millisecond (sub-millisecond parts are < 0.5 ms)
MsTrunc(T) == <<T[1], (T[2] \div 1000000) * 1000000>>
OnGrid(t) == \E T \in grid : MsTrunc(T) = t
GridT(t) == CHOOSE T \in grid : MsTrunc(T) = t
TopAt(T) == IF flat.on THEN LET outs == Outcomes(FlatTreeDev(flat.f)) IN
                 [must |-> {}, may |-> {[L |-> {}, v |-> o, sq |-> FALSE] : o \in outs \ {Absent}},
                  \* exactly one sample unless the chain may yield nothing (or its value is outside the exact arithmetic)
                  count |-> IF Absent \in outs \/ \E o \in outs : IsOpen(o) THEN 0 - 2 ELSE 1]
            \* a query that is one number: that number at every instant, without labels (evalLiteral)
            ELSE IF expr.t = "lit" THEN [must |-> {[L |-> {}, v |-> LitV(expr.v), sq |-> FALSE]}, may |-> {}, count |-> 1]
            ELSE EvalTop(expr, ents, T)
IsLitTop == ~flat.on /\ expr.t = "lit"

Init == TCInit /\ recs = <<>> /\ expr = NoExpr /\ ents = <<>> /\ open = FALSE /\ flat = [on |-> FALSE, f |-> <<>>]
        /\ grid = {} /\ expAt = <<>> /\ matched = {} /\ lastV = <<>> /\ returned = FALSE /\ inst = FALSE
Start == Begin /\ recs' = Trace[l].in.recs
         /\ flat' = (IF Has(Trace[l].in, "flat") THEN [on |-> TRUE, f |-> Trace[l].in.flat] ELSE [on |-> FALSE, f |-> <<>>])
         /\ expr' = (IF Has(Trace[l].in, "flat") THEN NoExpr ELSE Trace[l].in.expr)
         /\ ents' = (IF Has(Trace[l].in, "flat") THEN <<>> ELSE EntsOf(Trace[l].in.expr, Trace[l].in.recs))
         /\ open' = (IF Has(Trace[l].in, "flat") THEN FALSE ELSE OpenExpr(Trace[l].in.expr, EntsOf(Trace[l].in.expr, Trace[l].in.recs)))
         /\ grid' = {} /\ expAt' = <<>> /\ matched' = {} /\ lastV' = <<>> /\ returned' = FALSE /\ inst' = FALSE

\* assumption of the family: records are listed in time order (the storage returns them so; first/last depend on it)
CaseOk == \A i \in 1..(Len(recs) - 1) : TsLeq(recs[i].ts, recs[i + 1].ts)
BadCase == RejectEnv /\ Ev.ev = "Run" /\ ~CaseOk /\ UNCHANGED fam
EvRun == IsEv("Run") /\ CaseOk /\ Accept /\ grid' = GridOf(Ev) /\ expAt' = [T \in GridOf(Ev) |-> TopAt(T)] /\ matched' = {} /\ lastV' = <<>>
         /\ returned' = FALSE /\ UNCHANGED <<recs, expr, ents, open, flat>>
         \* an instant query: start = end and no step
         /\ inst' = (Ev.step = 0 /\ MsOf(Ev, "stepMs") = 0 /\ Ev.start = Ev.end /\ MsOf(Ev, "startMs") = MsOf(Ev, "endMs") /\ MsOf(Ev, "startNs") = MsOf(Ev, "endNs"))

\* (the harness projects a float to the simplest rational within its tolerance: exact and rounded values alike)
ValEq(s, ev) == IF s.v.k = "open" THEN TRUE ELSE IF s.sq THEN ev.sq.t = "rat" /\ IsRat(s.v) /\ ev.sq.n = s.v.n /\ ev.sq.d = s.v.d
                ELSE IF IsRat(s.v) THEN ev.val.t = "rat" /\ ev.val.n = s.v.n /\ ev.val.d = s.v.d
                ELSE ev.val.t = s.v.k
FitsAt(T, ev) == {s \in expAt[T].must \cup expAt[T].may : s.L = PairsOf(ev.labels) /\ ValEq(s, ev) /\ <<T, s.L>> \notin matched}
IsSort == IF flat.on \/ expr.t # "vecagg" THEN FALSE ELSE expr.op \in {"sort", "sort_desc"}
\* sort / sort_desc: an instant vector lists its samples in value order
\* (IF, not \/: TLC evaluates the disjuncts of an action independently, and the last one is partial)
SortOk == IF ~IsSort \/ Cardinality(grid) # 1 \/ lastV = <<>> \/ Ev.val.t # "rat" THEN TRUE
          \* (projections of irrational values have large terms: their order is not compared exactly)
          ELSE IF ~SmallR([n |-> Ev.val.n, d |-> Ev.val.d]) \/ ~SmallR(lastV[1]) THEN TRUE
          ELSE IF expr.op = "sort" THEN ~RLt([n |-> Ev.val.n, d |-> Ev.val.d], lastV[1]) ELSE ~RLt(lastV[1], [n |-> Ev.val.n, d |-> Ev.val.d])
\* (a number evaluated at one instant is a scalar, not a vector of one sample)
PointOk == ~returned /\ OnGrid(Ev.t) /\ (open \/ (FitsAt(GridT(Ev.t), Ev) # {} /\ SortOk)) /\ ~(IsLitTop /\ inst)
ScalarAsPoint == [labels |-> <<>>, val |-> Ev.val, sq |-> Ev.val]
ScalarOk == ~returned /\ IsLitTop /\ inst /\ OnGrid(Ev.t) /\ FitsAt(GridT(Ev.t), ScalarAsPoint) # {}
EvScalar == IsEv("Scalar") /\ ScalarOk /\ Accept /\ matched' = matched \cup {<<GridT(Ev.t), {}>>}
            /\ UNCHANGED <<recs, expr, ents, open, flat, grid, expAt, returned, lastV, inst>>
EvPoint == IsEv("Point") /\ PointOk /\ Accept
           /\ matched' = (IF open THEN matched ELSE matched \cup {<<GridT(Ev.t), PairsOf(Ev.labels)>>})
           /\ lastV' = (IF Ev.val.t = "rat" THEN <<[n |-> Ev.val.n, d |-> Ev.val.d]>> ELSE lastV)
           /\ UNCHANGED <<recs, expr, ents, open, flat, grid, expAt, returned, inst>>

MatchedAt(T) == {m \in matched : m[1] = T}
CompleteAt(T) == /\ \A s \in expAt[T].must : <<T, s.L>> \in matched
                 /\ (expAt[T].count >= 0 => Cardinality(MatchedAt(T)) = expAt[T].count)
ReturnOk == ~returned /\ Ev.outcome = "ok" /\ (open \/ \A T \in grid : CompleteAt(T))
EvReturn == IsEv("Return") /\ ReturnOk /\ Accept /\ returned' = TRUE /\ UNCHANGED <<recs, expr, ents, open, flat, grid, expAt, matched, lastV, inst>>

Explained == \/ Ev.ev \in {"Run", "StorageSelect"}
             \/ Ev.ev = "Point" /\ PointOk
             \/ Ev.ev = "Return" /\ ReturnOk
             \/ Ev.ev = "Scalar" /\ ScalarOk
EvFree == IsEv("StorageSelect") /\ Accept /\ UNCHANGED fam
Bad  == Reject /\ ~Explained /\ UNCHANGED fam
Next == Start \/ BadCase \/ EvRun \/ EvPoint \/ EvScalar \/ EvReturn \/ EvFree \/ Bad \/ (Skipped /\ UNCHANGED fam) \/ (Finish /\ UNCHANGED fam)
TraceSpec == Init /\ [][Next]_vars
=============================================================================
