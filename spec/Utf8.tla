------------------------------- MODULE Utf8 -------------------------------
(* Byte strings are sequences of 0..255.  RuneAt transcribes the decoding that Go's `for i, r := range s`
   and utf8.DecodeRuneInString perform: a well-formed encoding yields its code point and width, anything
   else (stray continuation byte, truncated, overlong, surrogate, > U+10FFFF) yields U+FFFD of width 1. *)
EXTENDS Integers, Sequences

Cont(b) == b >= 128 /\ b <= 191
In(b, lo, hi) == b >= lo /\ b <= hi
RuneError == 65533

RuneAt(s, i) ==
  LET n  == Len(s) - i + 1
      b0 == s[i]
      Bad == [cp |-> RuneError, w |-> 1, ok |-> FALSE]
  IN IF b0 < 128 THEN [cp |-> b0, w |-> 1, ok |-> TRUE]
     ELSE IF In(b0, 194, 223)
       THEN IF n >= 2 /\ Cont(s[i+1])
              THEN [cp |-> (b0 - 192) * 64 + (s[i+1] - 128), w |-> 2, ok |-> TRUE] ELSE Bad
     ELSE IF In(b0, 224, 239)
       THEN IF n >= 3
               /\ In(s[i+1], IF b0 = 224 THEN 160 ELSE 128, IF b0 = 237 THEN 159 ELSE 191)
               /\ Cont(s[i+2])
              THEN [cp |-> (b0 - 224) * 4096 + (s[i+1] - 128) * 64 + (s[i+2] - 128), w |-> 3, ok |-> TRUE] ELSE Bad
     ELSE IF In(b0, 240, 244)
       THEN IF n >= 4
               /\ In(s[i+1], IF b0 = 240 THEN 144 ELSE 128, IF b0 = 244 THEN 143 ELSE 191)
               /\ Cont(s[i+2]) /\ Cont(s[i+3])
              THEN [cp |-> (b0 - 240) * 262144 + (s[i+1] - 128) * 4096 + (s[i+2] - 128) * 64 + (s[i+3] - 128),
                    w |-> 4, ok |-> TRUE] ELSE Bad
     ELSE Bad

RECURSIVE RuneCountFrom(_, _)
RuneCountFrom(s, i) == IF i > Len(s) THEN 0 ELSE 1 + RuneCountFrom(s, i + RuneAt(s, i).w)
RuneCount(s) == RuneCountFrom(s, 1)

RECURSIVE ValidUtf8From(_, _)
ValidUtf8From(s, i) == IF i > Len(s) THEN TRUE ELSE RuneAt(s, i).ok /\ ValidUtf8From(s, i + RuneAt(s, i).w)
ValidUtf8(s) == ValidUtf8From(s, 1)
=============================================================================
