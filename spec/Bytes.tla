------------------------------- MODULE Bytes -------------------------------
(* Byte strings: sequences of 0..255. *)
EXTENDS Integers, Sequences

IsPrefixAt(needle, s, i) == i + Len(needle) - 1 <= Len(s) /\ \A k \in 1..Len(needle) : s[i + k - 1] = needle[k]
Contains(s, needle) == \E i \in 1..(Len(s) - Len(needle) + 1) : IsPrefixAt(needle, s, i)
HasPrefix(s, p) == Len(p) <= Len(s) /\ IsPrefixAt(p, s, 1)
IndexOf(s, needle) == IF Contains(s, needle)
                        THEN CHOOSE i \in 1..(Len(s) - Len(needle) + 1) :
                               IsPrefixAt(needle, s, i) /\ \A j \in 1..(i - 1) : ~IsPrefixAt(needle, s, j)
                        ELSE 0
Drop(s, n) == SubSeq(s, n + 1, Len(s))
Take(s, n) == SubSeq(s, 1, n)

RECURSIVE Concat(_)
Concat(ss) == IF ss = <<>> THEN <<>> ELSE Head(ss) \o Concat(Tail(ss))

\* decimal rendering of a natural number as bytes
RECURSIVE DecBytes(_)
DecBytes(n) == IF n < 10 THEN <<48 + n>> ELSE DecBytes(n \div 10) \o <<48 + (n % 10)>>

\* lexicographic order on byte strings
RECURSIVE BytesLess(_, _)
BytesLess(a, b) == IF b = <<>> THEN FALSE
                   ELSE IF a = <<>> THEN TRUE
                   ELSE IF Head(a) # Head(b) THEN Head(a) < Head(b)
                   ELSE BytesLess(Tail(a), Tail(b))
SeqToSet(s) == {s[i] : i \in DOMAIN s}
=============================================================================
