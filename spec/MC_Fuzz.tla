------------------------------ MODULE MC_Fuzz ------------------------------
(* C17, step 1.  The system seen from outside is a two-state machine: Call(query bytes, data, params) is followed
   by Return(ok) or Return(err) - never by a panic, never by nothing.  TLC enumerates every byte string of up to
   MaxLen symbols over an alphabet of the characters the lexer and parser branch on (plus NUL and invalid UTF-8)
   and exports each as a query to be evaluated against hostile log contents. *)
EXTENDS Integers, Sequences, TLC, Json

CONSTANTS MaxLen, AlphaSet
AlphaFull == { <<123>>, <<125>>, <<124>>, <<61>>, <<33>>, <<126>>, <<34>>, <<92>>, <<40>>, <<41>>, <<91>>, <<93>>, <<48>>, <<57>>, <<45>>, <<46>>, <<97>>, <<0>>, <<255>>,
               <<96>>, <<35>>, <<10>>, <<32>>, <<115>>, <<44>> }
AlphaQuick == { <<123>>, <<125>>, <<124>>, <<61>>, <<34>>, <<92>>, <<40>>, <<91>>, <<57>>, <<45>>, <<46>>, <<97>>, <<0>>, <<255>>, <<96>>, <<35>> }
Alphabet == IF AlphaSet = "full" THEN AlphaFull ELSE AlphaQuick

VARIABLES q, n, pc, outcome
vars == <<q, n, pc, outcome>>
Init == q = <<>> /\ n = 0 /\ pc = "gen" /\ outcome = "none"
Add == pc = "gen" /\ n < MaxLen /\ \E s \in Alphabet : q' = q \o s /\ n' = n + 1 /\ UNCHANGED <<pc, outcome>>
Call == pc = "gen" /\ pc' = "called" /\ UNCHANGED <<q, n, outcome>> /\ PrintT(<<"CASE", ToJson([in |-> [q |-> q, data |-> "hostile", invalid |-> FALSE]])>>)
\* the only two ways a call ends
Return == pc = "called" /\ pc' = "returned" /\ (\E o \in {"ok", "err"} : outcome' = o) /\ UNCHANGED <<q, n>>
Next == Add \/ Call \/ Return
AlwaysAnOutcome == pc = "returned" => outcome \in {"ok", "err"}
=============================================================================
