----------------------------- MODULE MC_Extract -----------------------------
(* C06, step 1.  The parser stages on documents: every JSON object of up to MaxFields fields over tricky keys
   (a, a.b, 1a, duplicates) and values (strings, numbers, booleans, null, nested object / array), its reference
   encoding, every proper prefix of that encoding (malformed by construction), the three forms of `json`, `unpack`,
   `logfmt` with quoting and field lists, and `pattern`.  Checked on the specification: a parser stage never drops
   or changes a line (except unpack with _entry), extracted values override existing labels, a malformed line is
   kept and flagged, requested-field extraction is the restriction of full extraction.  Every case is exported. *)
EXTENDS Pipeline, TLC, Json

CONSTANTS MaxFields, Pools
Base == 1700000000
A == <<97>>
AB == <<97, 46, 98>>       \* a.b  -> a_b
A1 == <<49, 97>>           \* 1a   -> _1a
Bk == <<98>>
Str(s) == [k |-> "str", s |-> s]
Num(t) == [k |-> "num", txt |-> t]
Obj(fs) == [k |-> "obj", fields |-> fs]
Keys == IF Pools = "full" THEN {A, AB, A1, Bk} ELSE {A, AB, A1}
Vals == IF Pools = "full"
          THEN { Str(<<120>>), Str(<<>>), Str(<<120, 32, 121>>), Str(<<34>>), Num(<<55>>), Num(<<45, 49>>), Num(<<49, 46, 53>>), [k |-> "bool", b |-> TRUE],
                 Num(<<57, 48, 48, 55, 49, 57, 57, 50, 53, 52, 55, 52, 48, 57, 57, 51>>),      \* 9007199254740993 = 2^53 + 1: not a float64
                 [k |-> "null"], Obj(<< <<Bk, Str(<<121>>)>> >>), [k |-> "arr", items |-> <<Num(<<49>>), Str(<<122>>)>>] }
          ELSE { Str(<<120>>), Str(<<34>>), Num(<<55>>), [k |-> "null"], Obj(<< <<Bk, Str(<<121>>)>> >>), [k |-> "arr", items |-> <<Num(<<49>>)>>] }
LBL(n) == <<108, 48 + n>>
JsonStages == { [t |-> "json", labels |-> <<>>, exprs |-> <<>>], [t |-> "json", labels |-> <<A>>, exprs |-> <<>>],
                [t |-> "json", labels |-> <<>>, exprs |-> << [label |-> LBL(1), path |-> << [t |-> "key", key |-> A, i |-> 0] >>] >>],
                [t |-> "json", labels |-> <<>>, exprs |-> << [label |-> A, path |-> << [t |-> "key", key |-> A, i |-> 0], [t |-> "key", key |-> Bk, i |-> 0] >>] >>],
                [t |-> "json", labels |-> <<>>, exprs |-> << [label |-> LBL(2), path |-> << [t |-> "key", key |-> A, i |-> 0], [t |-> "idx", key |-> <<>>, i |-> 0] >>] >>],
                [t |-> "json", labels |-> <<A>>, exprs |-> << [label |-> LBL(3), path |-> << [t |-> "key", key |-> AB, i |-> 0] >>] >>],
                [t |-> "unpack"] }

VARIABLES doc, cut, old, stage, pc
vars == <<doc, cut, old, stage, pc>>
Init == doc = <<>> /\ cut = 0 - 1 /\ old \in BOOLEAN /\ stage \in JsonStages /\ pc = "gen"
AddField == pc = "gen" /\ Len(doc) < MaxFields /\ \E k \in Keys \cup (IF stage.t = "unpack" THEN {S_entry} ELSE {}), v \in Vals :
              doc' = Append(doc, <<k, v>>) /\ UNCHANGED <<cut, old, stage, pc>>
Enc == EncJson(Obj(doc))
\* cut = -1: the reference encoding; cut = n: its first n bytes (malformed)
\* (with the quick pools only documents of at most one field are cut at every byte)
Go == pc = "gen" /\ pc' = "run" /\ (\E c \in (0 - 1)..(IF Pools = "full" \/ Len(doc) <= 1 THEN Len(Enc) - 1 ELSE 0 - 1) : cut' = c) /\ UNCHANGED <<doc, old, stage>>
Line == IF cut < 0 THEN Enc ELSE SubSeq(Enc, 1, cut)
Rec == [id |-> 1, ts |-> <<Base + 1, 0>>, line |-> Line, attrs |-> IF old THEN << <<A, <<111, 108, 100>>>> >> ELSE <<>>, doc |-> <<>>,
        jdoc |-> Obj(doc), jcanon |-> cut < 0, jmal |-> cut >= 0, lmal |-> FALSE]
Case == [in |-> [recs |-> <<Rec>>, sel |-> <<>>, stages |-> <<stage>>, queries |-> <<>>, caps |-> << [label |-> <<>>, line |-> <<>>] >>, limit |-> 0 - 1,
                 start |-> <<Base - 100, 0>>, end |-> <<Base + 100, 0>>]]
Export == pc = "run" /\ pc' = "done" /\ UNCHANGED <<doc, cut, old, stage>> /\ PrintT(<<"CASE", ToJson(Case)>>)
Next == AddField \/ Go \/ Export

Res == Stage(stage, {}, Rec, Rec.line, RecordLabels(Rec))
L0 == RecordLabels(Rec)
NeverDropped == pc # "gen" => Res.keep
LineUntouched == pc # "gen" => (Res.line = Rec.line \/ (stage.t = "unpack" /\ cut < 0 /\ \E i \in DOMAIN doc : doc[i][1] = S_entry /\ doc[i][2].k = "str"))
MalformedFlagged == pc # "gen" /\ cut >= 0 => Res.line = Rec.line /\ Has(Res.L, S_error) /\ Res.lopen
WellFormedNotFlagged == pc # "gen" /\ cut < 0 => ~Has(Res.L, S_error)
\* labels the stage did not produce are untouched
OthersUntouched == pc # "gen" /\ cut < 0 => \A p \in L0 : p \in Res.L \/ (\E q \in Res.L : q[1] = p[1])
\* a requested field yields what full extraction yields for that key (when the key needs no sanitising)
SomeIsRestriction == pc # "gen" /\ cut < 0 /\ stage.t = "json" /\ stage.labels = <<A>> /\ stage.exprs = <<>> =>
                       LET all == Stage([t |-> "json", labels |-> <<>>, exprs |-> <<>>], {}, Rec, Rec.line, L0) IN Get(Res.L, A) = Get(all.L, A)
=============================================================================
