-------------------------------- MODULE Heap --------------------------------
(* container/heap transcribed (1-based): Push = append + up, Pop = swap(1, n) + down(1, n-1) + remove last.
   Less(a, b) is supplied by the instantiating module through the operator argument. *)
EXTENDS Integers, Sequences

Swap(h, i, j) == [h EXCEPT ![i] = h[j], ![j] = h[i]]

RECURSIVE Up(_, _, _)
Up(Less(_, _), h, j) ==
  LET p == j \div 2 IN
  IF j <= 1 \/ ~Less(h[j], h[p]) THEN h ELSE Up(Less, Swap(h, j, p), p)

RECURSIVE Down(_, _, _, _)
Down(Less(_, _), h, i, n) ==
  LET j1 == 2 * i IN
  IF j1 > n THEN h
  ELSE LET j == IF j1 + 1 <= n /\ Less(h[j1 + 1], h[j1]) THEN j1 + 1 ELSE j1 IN
       IF ~Less(h[j], h[i]) THEN h ELSE Down(Less, Swap(h, i, j), j, n)

HeapPush(Less(_, _), h, x) == Up(Less, Append(h, x), Len(h) + 1)
\* returns the heap after Pop; the popped element is h[1]
HeapPop(Less(_, _), h) == LET n == Len(h) IN SubSeq(Down(Less, Swap(h, 1, n), 1, n - 1), 1, n - 1)
=============================================================================
