----------------------------- MODULE DockerSel -----------------------------
(* Which containers a selector picks, which labels their lines carry, and what the daemon is asked (C02).
   Anchors: internal/dockerlog/dockerlog.go (getLabels, Match, match, openLog), internal/logql/label.go.
   A container is [id, name, image, imageId, command, created, state, status, labels, frames, noName] with
   byte-sequence strings; labels is a sequence of <<key, value>>.  A matcher is [label, op, val, re]:
   op in "eq" "neq" "re" "nre"; val is the text handed to the code (for regex operators the rendering of re). *)
EXTENDS Integers, Sequences, FiniteSets, Labels, Regex, Names, Bytes

PairsOf(seq) == {seq[i] : i \in DOMAIN seq}
NamesOf(L) == {p[1] : p \in L}
Get(L, n) == IF n \in NamesOf(L) THEN (CHOOSE p \in L : p[1] = n)[2] ELSE <<>>     \* a missing label reads as ""

Builtin(c) == { <<S_container, c.name>>, <<S_container_name, c.name>>, <<S_container_id, c.id>>,
                <<S_container_image, c.image>>, <<S_container_image_id, c.imageId>>,
                <<S_container_command, c.command>>, <<S_container_created, DecBytes(c.created)>>,
                <<S_container_state, c.state>>, <<S_container_status, c.status>> }
Own(c) == { <<Sanitize(p[1]), p[2]>> : p \in PairsOf(c.labels) }
\* the label set of a container: built-ins plus its Docker labels under sanitised names (a Docker label shadows a built-in)
CtrLabels(c) == Own(c) \cup {p \in Builtin(c) : p[1] \notin NamesOf(Own(c))}
\* which value wins when two Docker keys sanitise to one name is left open: cases keep them apart
Unambiguous(c) == Cardinality(NamesOf(Own(c))) = Cardinality(PairsOf(c.labels))

MatchValue(m, v) == CASE m.op = "eq"  -> v = m.val
                      [] m.op = "neq" -> v # m.val
                      [] m.op = "re"  -> FullMatch(m.re, v)        \* label regexes are fully anchored
                      [] m.op = "nre" -> ~FullMatch(m.re, v)
MatchesCtr(c, ms) == \A k \in DOMAIN ms : MatchValue(ms[k], Get(CtrLabels(c), ms[k].label))
Selected(ctrs, ms) == {i \in DOMAIN ctrs : MatchesCtr(ctrs[i], ms)}

\* the matcher's text is what the algebra renders (environment check on the case itself)
MatcherWellFormed(m) == m.op \in {"re", "nre"} => m.val = ReText(m.re)

\* what the daemon must be asked: whole seconds, floor; instant log queries look back 30 s first
Lookback == 30
Since(start, instant) == IF instant THEN start[1] - Lookback ELSE start[1]
Until(end) == end[1]
=============================================================================
